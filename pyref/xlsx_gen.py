"""Grammar-ENUMERATING (not random) writer of minimal valid xlsx packages for C03.

case(i) -> (bytes, intent): `intent` is what ECMA-376 decoding assigns to the file, recorded by construction
(the generator knows what it encoded); shape = xlsx_ref.decode() output restricted to the fields it sets.
Families (each fully enumerated, simplest first):
  enc    : text payload x every cell encoding (one file per payload, one row per encoding)
  shared : shared-formula blocks: master template x anchor x block shape x si numbering
  attr   : entity-escaped attribute channels (sheet name, hyperlink target/location, defined name, table column,
           number-format code) x special string
  opt    : optional attributes / column spans
  style  : cellXfs resolution (fonts, fills, borders, numFmts, alignment) incl. apply* flags
"""
import io, zipfile, struct, base64
from xml.sax.saxutils import escape as _esc

NS = 'xmlns="http://schemas.openxmlformats.org/spreadsheetml/2006/main" xmlns:r="http://schemas.openxmlformats.org/officeDocument/2006/relationships"'
ERRORS = ["#DIV/0!", "#N/A", "#NAME?", "#NULL!", "#NUM!", "#REF!", "#VALUE!"]


def esc(s):
    """text-node escaping (LF as character reference so that it survives as written)"""
    return _esc(s).replace("\n", "&#10;").replace("\r", "&#13;")


def esca(s):
    return _esc(s, {'"': "&quot;", "'": "&apos;"}).replace("\n", "&#10;").replace("\r", "&#13;").replace("\t", "&#9;")


def col_letters(n):
    s = ""
    while n > 0:
        n -= 1
        s = chr(65 + n % 26) + s
        n //= 26
    return s


def ckey(col, row):
    return "R%07dC%05d" % (row, col)


def bits(x):
    return struct.pack(">d", float(x)).hex()


CT_BASE = ('<?xml version="1.0" encoding="UTF-8" standalone="yes"?>'
           '<Types xmlns="http://schemas.openxmlformats.org/package/2006/content-types">'
           '<Default Extension="rels" ContentType="application/vnd.openxmlformats-package.relationships+xml"/>'
           '<Default Extension="xml" ContentType="application/xml"/>'
           '<Override PartName="/xl/workbook.xml" ContentType="application/vnd.openxmlformats-officedocument.spreadsheetml.sheet.main+xml"/>'
           '<Override PartName="/xl/styles.xml" ContentType="application/vnd.openxmlformats-officedocument.spreadsheetml.styles+xml"/>'
           '<Override PartName="/xl/sharedStrings.xml" ContentType="application/vnd.openxmlformats-officedocument.spreadsheetml.sharedStrings+xml"/>'
           '%s</Types>')
ROOT_RELS = ('<?xml version="1.0" encoding="UTF-8" standalone="yes"?>'
             '<Relationships xmlns="http://schemas.openxmlformats.org/package/2006/relationships">'
             '<Relationship Id="rId1" Type="http://schemas.openxmlformats.org/officeDocument/2006/relationships/officeDocument" Target="xl/workbook.xml"/>'
             '</Relationships>')
DEFAULT_STYLES = ('<?xml version="1.0" encoding="UTF-8" standalone="yes"?>'
                  '<styleSheet xmlns="http://schemas.openxmlformats.org/spreadsheetml/2006/main">'
                  '%(numfmts)s'
                  '<fonts count="%(nfonts)d"><font><sz val="11"/><color theme="1"/><name val="Calibri"/><family val="2"/><scheme val="minor"/></font>%(fonts)s</fonts>'
                  '<fills count="%(nfills)d"><fill><patternFill patternType="none"/></fill><fill><patternFill patternType="gray125"/></fill>%(fills)s</fills>'
                  '<borders count="%(nborders)d"><border><left/><right/><top/><bottom/><diagonal/></border>%(borders)s</borders>'
                  '<cellStyleXfs count="1"><xf numFmtId="0" fontId="0" fillId="0" borderId="0"/></cellStyleXfs>'
                  '<cellXfs count="%(nxfs)d"><xf numFmtId="0" fontId="0" fillId="0" borderId="0" xfId="0"/>%(xfs)s</cellXfs>'
                  '<cellStyles count="1"><cellStyle name="Normal" xfId="0" builtinId="0"/></cellStyles>'
                  '</styleSheet>')


def styles_xml(numfmts="", fonts="", nfonts=1, fills="", nfills=2, borders="", nborders=1, xfs="", nxfs=1):
    return DEFAULT_STYLES % dict(numfmts=numfmts, fonts=fonts, nfonts=nfonts, fills=fills, nfills=nfills, borders=borders, nborders=nborders, xfs=xfs, nxfs=nxfs)


class Pkg:
    def __init__(self):
        self.sheets = []  # (name, xml, rels_xml or None, state)
        self.sst = []  # raw <si> xml
        self.defined_names = ""  # raw xml inside <definedNames>
        self.styles = styles_xml()
        self.extra_parts = {}  # name -> bytes
        self.extra_overrides = ""
        self.workbook_extra = ""  # raw xml after <definedNames> in workbook.xml; "%d" is replaced by the first free rId number
        self.workbook_rels_extra = ""  # raw <Relationship> elements, same placeholder

    def add_si(self, si_xml):
        self.sst.append(si_xml)
        return len(self.sst) - 1

    def build(self):
        buf = io.BytesIO()
        z = zipfile.ZipFile(buf, "w", zipfile.ZIP_DEFLATED)
        ov = ""
        for i, _ in enumerate(self.sheets):
            ov += '<Override PartName="/xl/worksheets/sheet%d.xml" ContentType="application/vnd.openxmlformats-officedocument.spreadsheetml.worksheet+xml"/>' % (i + 1)
        z.writestr("[Content_Types].xml", CT_BASE % (ov + self.extra_overrides))
        z.writestr("_rels/.rels", ROOT_RELS)
        sheets_xml = ""
        rels = ""
        for i, (name, xml, srels, state) in enumerate(self.sheets):
            st = ' state="%s"' % state if state else ""
            sheets_xml += '<sheet name="%s" sheetId="%d"%s r:id="rId%d"/>' % (esca(name), i + 1, st, i + 1)
            rels += '<Relationship Id="rId%d" Type="http://schemas.openxmlformats.org/officeDocument/2006/relationships/worksheet" Target="worksheets/sheet%d.xml"/>' % (i + 1, i + 1)
        n = len(self.sheets)
        rels += '<Relationship Id="rId%d" Type="http://schemas.openxmlformats.org/officeDocument/2006/relationships/styles" Target="styles.xml"/>' % (n + 1)
        rels += '<Relationship Id="rId%d" Type="http://schemas.openxmlformats.org/officeDocument/2006/relationships/sharedStrings" Target="sharedStrings.xml"/>' % (n + 2)
        dn = "<definedNames>%s</definedNames>" % self.defined_names if self.defined_names else ""
        dn += self.workbook_extra.replace("%d", str(n + 3))
        rels += self.workbook_rels_extra.replace("%d", str(n + 3))
        z.writestr("xl/workbook.xml", '<?xml version="1.0" encoding="UTF-8" standalone="yes"?><workbook %s><bookViews><workbookView activeTab="0"/></bookViews><sheets>%s</sheets>%s</workbook>' % (NS, sheets_xml, dn))
        z.writestr("xl/_rels/workbook.xml.rels", '<?xml version="1.0" encoding="UTF-8" standalone="yes"?><Relationships xmlns="http://schemas.openxmlformats.org/package/2006/relationships">%s</Relationships>' % rels)
        z.writestr("xl/styles.xml", self.styles)
        z.writestr("xl/sharedStrings.xml", '<?xml version="1.0" encoding="UTF-8" standalone="yes"?><sst xmlns="http://schemas.openxmlformats.org/spreadsheetml/2006/main" count="%d" uniqueCount="%d">%s</sst>' % (len(self.sst), len(self.sst), "".join(self.sst)))
        for i, (name, xml, srels, state) in enumerate(self.sheets):
            z.writestr("xl/worksheets/sheet%d.xml" % (i + 1), xml)
            if srels:
                z.writestr("xl/worksheets/_rels/sheet%d.xml.rels" % (i + 1), '<?xml version="1.0" encoding="UTF-8" standalone="yes"?><Relationships xmlns="http://schemas.openxmlformats.org/package/2006/relationships">%s</Relationships>' % srels)
        for k, v in self.extra_parts.items():
            z.writestr(k, v)
        z.close()
        return buf.getvalue()


def sheet_xml(rows_xml, cols="", after=""):
    return '<?xml version="1.0" encoding="UTF-8" standalone="yes"?><worksheet %s>%s<sheetData>%s</sheetData>%s</worksheet>' % (NS, cols, rows_xml, after)


def t_el(text, force_preserve=None):
    pres = (text != text.strip()) if force_preserve is None else force_preserve
    return '<t%s>%s</t>' % (' xml:space="preserve"' if pres else "", esc(text))


# ------------------------------------------------------------------------------------------------
# family enc
PAYLOADS = [
    ("plain", "abc"), ("amp", "a&b"), ("lt", "a<b"), ("gt", "a>b"), ("quot", 'a"b'), ("apos", "a'b"), ("lf", "a\nb"),
    ("non-bmp", "a\U0001F600b"), ("padded", " ab "), ("digits", "123"), ("bool-word", "TRUE"), ("error-word", "#N/A"), ("amp-entity-literal", "a&amp;b"),
    ("tab", "a\tb"), ("latin1", "é"),
]
ENCODINGS = ["n", "n-explicit", "s-plain", "s-rich", "s-phonetic", "str", "inline-plain", "inline-rich", "b1", "b0"] + ["e:" + e for e in ERRORS] + \
            ["styled-empty", "f+n", "f+str", "f+b", "f+e", "f+empty", "s-plain-unpreserved"]


def gen_enc(pi):
    pname, text = PAYLOADS[pi]
    p = Pkg()
    rows = ""
    cells = {}
    tags = ["enc", "payload:" + pname]
    for ri, enc in enumerate(ENCODINGS):
        r = ri + 1
        ref = "B%d" % r
        key = ckey(2, r)
        c = None
        if enc == "n":
            rows += '<row r="%d"><c r="%s"><v>1.5</v></c></row>' % (r, ref)
            c = {"kind": "n", "value": "1.5", "bits": bits(1.5), "formula": ""}
        elif enc == "n-explicit":
            rows += '<row r="%d"><c r="%s" t="n"><v>-2.5E-3</v></c></row>' % (r, ref)
            c = {"kind": "n", "value": "-2.5E-3", "bits": bits(-2.5e-3), "formula": ""}
        elif enc == "s-plain":
            i = p.add_si("<si>%s</si>" % t_el(text))
            rows += '<row r="%d"><c r="%s" t="s"><v>%d</v></c></row>' % (r, ref, i)
            c = {"kind": "s", "value": text, "rich": False, "formula": ""}
        elif enc == "s-plain-unpreserved":
            # no xml:space: the text as written has no edge blanks, so nothing depends on the attribute
            t2 = text.strip() or "x"
            i = p.add_si("<si><t>%s</t></si>" % esc(t2))
            rows += '<row r="%d"><c r="%s" t="s"><v>%d</v></c></row>' % (r, ref, i)
            c = {"kind": "s", "value": t2, "rich": False, "formula": ""}
        elif enc == "s-rich":
            i = p.add_si('<si><r><rPr><b/><sz val="11"/><rFont val="Calibri"/></rPr>%s</r><r>%s</r></si>' % (t_el(text), t_el(" tail", True)))
            rows += '<row r="%d"><c r="%s" t="s"><v>%d</v></c></row>' % (r, ref, i)
            c = {"kind": "s", "value": text + " tail", "rich": True, "formula": "", "runs": [{"text": text}, {"text": " tail"}]}
        elif enc == "s-phonetic":
            i = p.add_si('<si>%s<rPh sb="0" eb="1"><t>PHON</t></rPh><phoneticPr fontId="1"/></si>' % t_el(text))
            rows += '<row r="%d"><c r="%s" t="s"><v>%d</v></c></row>' % (r, ref, i)
            c = {"kind": "s", "value": text, "rich": False, "formula": ""}
        elif enc == "str":
            rows += '<row r="%d"><c r="%s" t="str"><f>A1&amp;""</f><v>%s</v></c></row>' % (r, ref, esc(text.strip()))
            c = {"kind": "s", "value": text.strip(), "rich": False, "formula": 'A1&""'}
        elif enc == "inline-plain":
            rows += '<row r="%d"><c r="%s" t="inlineStr"><is>%s</is></c></row>' % (r, ref, t_el(text))
            c = {"kind": "s", "value": text, "rich": False, "formula": ""}
        elif enc == "inline-rich":
            rows += '<row r="%d"><c r="%s" t="inlineStr"><is><r><rPr><b/></rPr>%s</r><r>%s</r></is></c></row>' % (r, ref, t_el(text), t_el(" tail", True))
            c = {"kind": "s", "value": text + " tail", "rich": True, "formula": "", "runs": [{"text": text}, {"text": " tail"}]}
        elif enc in ("b1", "b0"):
            rows += '<row r="%d"><c r="%s" t="b"><v>%s</v></c></row>' % (r, ref, enc[1])
            c = {"kind": "b", "value": "TRUE" if enc == "b1" else "FALSE", "formula": ""}
        elif enc.startswith("e:"):
            rows += '<row r="%d"><c r="%s" t="e"><v>%s</v></c></row>' % (r, ref, esc(enc[2:]))
            c = {"kind": "e", "value": enc[2:], "formula": ""}
        elif enc == "styled-empty":
            rows += '<row r="%d"><c r="%s" s="0"/></row>' % (r, ref)
            c = None
        elif enc == "f+n":
            rows += '<row r="%d"><c r="%s"><f>1+2</f><v>3</v></c></row>' % (r, ref)
            c = {"kind": "n", "value": "3", "bits": bits(3), "formula": "1+2"}
        elif enc == "f+str":
            rows += '<row r="%d"><c r="%s" t="str"><f>"%s"</f><v>%s</v></c></row>' % (r, ref, esc(text.strip().replace('"', '""')), esc(text.strip()))
            c = {"kind": "s", "value": text.strip(), "rich": False, "formula": '"%s"' % text.strip().replace('"', '""')}
        elif enc == "f+b":
            rows += '<row r="%d"><c r="%s" t="b"><f>1&lt;2</f><v>1</v></c></row>' % (r, ref)
            c = {"kind": "b", "value": "TRUE", "formula": "1<2"}
        elif enc == "f+e":
            rows += '<row r="%d"><c r="%s" t="e"><f>1/0</f><v>#DIV/0!</v></c></row>' % (r, ref)
            c = {"kind": "e", "value": "#DIV/0!", "formula": "1/0"}
        elif enc == "f+empty":
            rows += '<row r="%d"><c r="%s"><f>A1</f></c></row>' % (r, ref)
            c = {"kind": "", "value": "", "formula": "A1"}
        if c is not None:
            c["enc"] = enc
            cells[key] = c
    p.sheets.append(("Sheet1", sheet_xml(rows), None, None))
    intent = {"sheets": [{"name": "Sheet1", "cells": cells, "merges": [], "links": {}}], "defined_names": []}
    return p.build(), intent, tags


# ------------------------------------------------------------------------------------------------
# family shared: formula templates are token lists; ("ref", col, row, abs_col, abs_row) tokens are translated
def R(col, row, ac=False, ar=False):
    return ("ref", col, row, ac, ar)


# anchors are chosen at C3 or later so that references above/left of the anchor exist
TEMPLATES = [
    ("rel-left", [R(-1, 0)]),                     # cell to the left of the anchor
    ("rel-above", [R(0, -1)]),
    ("rel-right-below", [R(1, 1), "+", R(2, 0)]),
    ("abs", [R(1, 1, True, True), "*2"]),
    ("mixed-col", [R(1, 1, True, False)]),
    ("mixed-row", [R(1, 1, False, True)]),
    ("range", ["SUM(", R(-2, -2), ":", R(-1, -1), ")"]),
    ("range-abs-rel", ["SUM(", R(-2, -2, True, True), ":", R(-1, -1), ")"]),
    ("other-sheet", ["Other!", R(0, 0), "+1"]),
    ("quoted-sheet", ["'My Sheet'!", R(-1, 0)]),
    ("string-looks-like-ref", ['"A1"&', R(-1, 0)]),
    ("function-name-like-ref", ["LOG10(", R(-1, 0), ")"]),
    ("number-and-ref", ["1E+5+", R(0, -1)]),
    ("self-anchor-row-above-far", [R(0, -2), "-", R(-2, 0)]),
]
ANCHORS = [(3, 3), (4, 5), (27, 3)]
SHAPES = [(w, h) for w in (1, 2, 3) for h in (1, 2, 3)]


def render(tokens, acol, arow, dcol, drow):
    """render the template anchored at (acol,arow) for the cell at anchor + (dcol,drow)"""
    out = ""
    for t in tokens:
        if isinstance(t, tuple):
            _, c, r, ac, ar = t
            col = acol + c + (0 if ac else dcol)
            row = arow + r + (0 if ar else drow)
            if col < 1 or col > 16384 or row < 1 or row > 1048576:
                out += "#REF!"
                continue
            out += "%s%s%s%d" % ("$" if ac else "", col_letters(col), "$" if ar else "", row)
        else:
            out += t
    return out


def gen_shared(i):
    ti = i % len(TEMPLATES)
    r = i // len(TEMPLATES)
    ai = r % len(ANCHORS)
    r //= len(ANCHORS)
    si_ = r % len(SHAPES)
    sparse = (r // len(SHAPES)) % 2 == 1
    tname, tokens = TEMPLATES[ti]
    acol, arow = ANCHORS[ai]
    w, h = SHAPES[si_]
    tags = ["shared", "tpl:" + tname, "shape:%dx%d" % (w, h)] + (["si-sparse"] if sparse else [])
    # two blocks per sheet: the enumerated one and a fixed second one below it (si numbering dense 0,1 / sparse 3,7)
    si1, si2 = (3, 7) if sparse else (0, 1)
    cells = {}
    rowmap = {}

    def put(col, row, xml, cell):
        rowmap.setdefault(row, []).append((col, xml))
        cells[ckey(col, row)] = cell

    def block(acol, arow, w, h, tokens, si):
        for dr in range(h):
            for dc in range(w):
                col, row = acol + dc, arow + dr
                ref = "%s%d" % (col_letters(col), row)
                ftxt = render(tokens, acol, arow, dc, dr)
                if dr == 0 and dc == 0:
                    rng = "%s%d:%s%d" % (col_letters(acol), arow, col_letters(acol + w - 1), arow + h - 1)
                    xml = '<c r="%s"><f t="shared" ref="%s" si="%d">%s</f><v>%d</v></c>' % (ref, rng, si, esc(ftxt), dr * 10 + dc)
                else:
                    xml = '<c r="%s"><f t="shared" si="%d"/><v>%d</v></c>' % (ref, si, dr * 10 + dc)
                put(col, row, xml, {"kind": "n", "value": str(dr * 10 + dc), "bits": bits(dr * 10 + dc), "formula": ftxt, "shared_child": not (dr == 0 and dc == 0), "offset": [dc, dr]})

    block(acol, arow, w, h, tokens, si1)
    block(acol, arow + 6, 2, 2, [R(-1, -1), "&", '"x"'], si2)
    rows = ""
    for row in sorted(rowmap):
        rows += '<row r="%d">%s</row>' % (row, "".join(x for _, x in sorted(rowmap[row])))
    p = Pkg()
    p.sheets.append(("Sheet1", sheet_xml(rows), None, None))
    p.sheets.append(("Other", sheet_xml('<row r="1"><c r="A1"><v>1</v></c></row>'), None, None))
    p.sheets.append(("My Sheet", sheet_xml('<row r="1"><c r="A1"><v>2</v></c></row>'), None, None))
    intent = {"sheets": [{"name": "Sheet1", "cells": cells, "merges": [], "links": {}},
                         {"name": "Other", "cells": {ckey(1, 1): {"kind": "n", "value": "1", "bits": bits(1), "formula": ""}}, "merges": [], "links": {}},
                         {"name": "My Sheet", "cells": {ckey(1, 1): {"kind": "n", "value": "2", "bits": bits(2), "formula": ""}}, "merges": [], "links": {}}],
              "defined_names": []}
    return p.build(), intent, tags


N_SHARED = len(TEMPLATES) * len(ANCHORS) * len(SHAPES) * 2

# shared blocks whose master is NOT the left-most cell of the block (children to its left in later rows) and
# blocks touching the grid edge: some children leave the sheet (#REF!) and later children come back
EDGE_CASES = [
    # (name, master col,row, block cols (lo,hi), rows (lo,hi), tokens)
    ("master-not-leftmost-left-edge", 2, 1, (1, 2), (1, 3), [R(-1, 0), "*2"]),
    ("master-not-leftmost-abs", 3, 2, (2, 4), (2, 4), [R(-2, 0), "+", R(0, 0, True, True)]),
    ("right-edge", 16383, 8, (16383, 16384), (8, 10), [R(1, 0), "+1"]),
    ("bottom-edge", 2, 1048575, (2, 3), (1048575, 1048576), [R(0, 1), "&", '"x"']),
    # (a range with only ONE corner off the sheet is not enumerated: whether it reads #REF! as a whole or per corner
    #  is not pinned by the statement)
]


def gen_shared_edge(i):
    name, mcol, mrow, (clo, chi), (rlo, rhi), tokens = EDGE_CASES[i]
    tags = ["shared", "shared-edge", "edge:" + name]
    cells = {}
    rows = ""
    rng = "%s%d:%s%d" % (col_letters(clo), rlo, col_letters(chi), rhi)
    for row in range(rlo, rhi + 1):
        xs = ""
        for col in range(clo, chi + 1):
            if row == mrow and col < mcol:
                continue  # cells before the master in its own row are not part of the group
            ref = "%s%d" % (col_letters(col), row)
            ftxt = render(tokens, mcol, mrow, col - mcol, row - mrow)
            val = (row - rlo) * 10 + (col - clo)
            if row == mrow and col == mcol:
                xs += '<c r="%s"><f t="shared" ref="%s" si="0">%s</f><v>%d</v></c>' % (ref, rng, esc(ftxt), val)
            else:
                xs += '<c r="%s"><f t="shared" si="0"/><v>%d</v></c>' % (ref, val)
            cells[ckey(col, row)] = {"kind": "n", "value": str(val), "bits": bits(val), "formula": ftxt, "shared_child": not (row == mrow and col == mcol)}
        rows += '<row r="%d">%s</row>' % (row, xs)
    p = Pkg()
    p.sheets.append(("Sheet1", sheet_xml(rows), None, None))
    intent = {"sheets": [{"name": "Sheet1", "cells": cells, "merges": [], "links": {}}], "defined_names": []}
    return p.build(), intent, tags

# ------------------------------------------------------------------------------------------------
# family attr
ATTR_SPECIALS = [("plain", "ab"), ("amp", "a&b"), ("lt", "a<b"), ("gt", "a>b"), ("quot", 'a"b'), ("apos", "a'b"), ("amp-entity-literal", "a&amp;b"), ("non-bmp", "a\U0001F600b"), ("space", "a b"), ("numeric-entity", "aéb"),
                 # white space written as a character reference (&#10; &#9; &#13;&#10;) is data, not attribute white space
                 ("lf-charref", "Unit\nprice"), ("tab-charref", "a\tb"), ("crlf-charref", "a\r\nb")]
ATTR_WS_CHANNELS = ["table-column", "defined-name-text", "cell-string-attr-mix"]
ATTR_CHANNELS = ["sheet-name", "link-target", "link-location", "defined-name-text", "table-column", "numfmt-code", "cell-string-attr-mix"]


def gen_attr(i):
    ci = i % len(ATTR_CHANNELS)
    si = i // len(ATTR_CHANNELS)
    ch = ATTR_CHANNELS[ci]
    sname, sp = ATTR_SPECIALS[si]
    if sname.endswith("-charref") and ch not in ATTR_WS_CHANNELS:
        # not a legal value of this channel (sheet names, URLs, format codes): the plain text takes its place
        sname, sp = ATTR_SPECIALS[0]
    tags = ["attr", "ch:" + ch, "sp:" + sname, "ch:%s+sp:%s" % (ch, sname)]
    p = Pkg()
    cells = {ckey(1, 1): {"kind": "n", "value": "1", "bits": bits(1), "formula": ""}}
    rows = '<row r="1"><c r="A1"><v>1</v></c></row>'
    intent = {"sheets": [{"name": "Sheet1", "cells": cells, "merges": [], "links": {}}], "defined_names": []}
    srels = None
    after = ""
    name = "Sheet1"
    if ch == "sheet-name":
        name = sp
        intent["sheets"][0]["name"] = sp
    elif ch == "link-target":
        url = "https://example.com/?q=" + sp
        after = '<hyperlinks><hyperlink ref="A1" r:id="rId1"/></hyperlinks>'
        srels = '<Relationship Id="rId1" Type="http://schemas.openxmlformats.org/officeDocument/2006/relationships/hyperlink" Target="%s" TargetMode="External"/>' % esca(url)
        intent["sheets"][0]["links"][ckey(1, 1)] = {"target": url, "location": None}
    elif ch == "link-location":
        loc = "'%s'!A1" % sp.replace("'", "''")
        after = '<hyperlinks><hyperlink ref="A1" location="%s" display="x"/></hyperlinks>' % esca(loc)
        intent["sheets"][0]["links"][ckey(1, 1)] = {"target": None, "location": loc}
    elif ch == "link-tooltip":
        after = '<hyperlinks><hyperlink ref="A1" location="Sheet1!A1" tooltip="%s"/></hyperlinks>' % esca(sp)
        intent["sheets"][0]["links"][ckey(1, 1)] = {"target": None, "location": "Sheet1!A1", "tooltip": sp}
    elif ch == "defined-name-text":
        txt = '"%s"' % sp.replace('"', '""')
        p.defined_names = '<definedName name="Named1">%s</definedName>' % esc(txt)
        intent["defined_names"].append({"name": "Named1", "local": None, "text": txt})
    elif ch == "table-column":
        rows = '<row r="1"><c r="A1" t="inlineStr"><is>%s</is></c><c r="B1" t="inlineStr"><is><t>Other</t></is></c></row><row r="2"><c r="A2"><v>1</v></c><c r="B2"><v>2</v></c></row>' % t_el(sp)
        cells.clear()
        cells[ckey(1, 1)] = {"kind": "s", "value": sp, "rich": False, "formula": ""}
        cells[ckey(2, 1)] = {"kind": "s", "value": "Other", "rich": False, "formula": ""}
        cells[ckey(1, 2)] = {"kind": "n", "value": "1", "bits": bits(1), "formula": ""}
        cells[ckey(2, 2)] = {"kind": "n", "value": "2", "bits": bits(2), "formula": ""}
        after = '<tableParts count="1"><tablePart r:id="rId1"/></tableParts>'
        srels = '<Relationship Id="rId1" Type="http://schemas.openxmlformats.org/officeDocument/2006/relationships/table" Target="../tables/table1.xml"/>'
        p.extra_parts["xl/tables/table1.xml"] = ('<?xml version="1.0" encoding="UTF-8" standalone="yes"?><table xmlns="http://schemas.openxmlformats.org/spreadsheetml/2006/main" id="1" name="Table1" displayName="Table1" ref="A1:B2" totalsRowShown="0">'
                                                 '<autoFilter ref="A1:B2"/><tableColumns count="2"><tableColumn id="1" name="%s"/><tableColumn id="2" name="Other"/></tableColumns></table>' % esca(sp))
        p.extra_overrides = '<Override PartName="/xl/tables/table1.xml" ContentType="application/vnd.openxmlformats-officedocument.spreadsheetml.table+xml"/>'
        intent["sheets"][0]["table_columns"] = [sp, "Other"]
    elif ch == "numfmt-code":
        code = '0.0"%s"' % sp.replace('"', "")
        p.styles = styles_xml(numfmts='<numFmts count="1"><numFmt numFmtId="164" formatCode="%s"/></numFmts>' % esca(code), xfs='<xf numFmtId="164" fontId="0" fillId="0" borderId="0" xfId="0" applyNumberFormat="1"/>', nxfs=2)
        rows = '<row r="1"><c r="A1" s="1"><v>1</v></c></row>'
        cells[ckey(1, 1)]["numfmt"] = code
    elif ch == "cell-string-attr-mix":
        # the same special text once as shared string and once as inline string next to an attribute-bearing cell
        i0 = p.add_si("<si>%s</si>" % t_el(sp))
        rows = '<row r="1" spans="1:3" customHeight="1" ht="20"><c r="A1"><v>1</v></c><c r="B1" t="s"><v>%d</v></c><c r="C1" t="inlineStr"><is>%s</is></c></row>' % (i0, t_el(sp))
        cells[ckey(2, 1)] = {"kind": "s", "value": sp, "rich": False, "formula": ""}
        cells[ckey(3, 1)] = {"kind": "s", "value": sp, "rich": False, "formula": ""}
    p.sheets.append((name, sheet_xml(rows, after=after), srels, None))
    return p.build(), intent, tags


N_ATTR = len(ATTR_CHANNELS) * len(ATTR_SPECIALS)

# ------------------------------------------------------------------------------------------------
# family opt: optional attributes and column spans
OPT_CASES = ["no-spans", "spans", "custom-height", "col-span-1", "col-span-2", "col-span-3", "col-overlap-cells", "row-without-cells", "sheet-hidden", "two-sheets-second-active", "merge-cells", "cell-t-n-empty-v", "cell-without-r", "row-without-r", "prefixed-main-namespace", "row-without-r-after-empty-rows", "linked-picture"]


def gen_opt(i):
    oc = OPT_CASES[i]
    tags = ["opt", "opt:" + oc]
    p = Pkg()
    cells = {ckey(1, 1): {"kind": "n", "value": "1", "bits": bits(1), "formula": ""}, ckey(3, 2): {"kind": "n", "value": "2", "bits": bits(2), "formula": ""}}
    row1attr = ""
    cols = ""
    after = ""
    extra = {}
    intent = {"sheets": [{"name": "Sheet1", "cells": cells, "merges": [], "links": {}}], "defined_names": []}
    if oc == "spans":
        row1attr = ' spans="1:3"'
    elif oc == "custom-height":
        row1attr = ' ht="33.5" customHeight="1"'
        intent["sheets"][0]["rows"] = {"0000001": {"height": "33.5"}}
    elif oc.startswith("col-span-"):
        n = int(oc[-1])
        cols = '<cols><col min="2" max="%d" width="21.5" customWidth="1"/></cols>' % (1 + n)
        intent["sheets"][0]["cols"] = {("%05d" % c): {"width": "21.5"} for c in range(2, 2 + n)}
    elif oc == "col-overlap-cells":
        cols = '<cols><col min="1" max="1" width="5" customWidth="1"/><col min="3" max="4" width="30" customWidth="1" hidden="1"/></cols>'
        intent["sheets"][0]["cols"] = {"00001": {"width": "5"}, "00003": {"width": "30", "hidden": True}, "00004": {"width": "30", "hidden": True}}
    rows = '<row r="1"%s><c r="A1"><v>1</v></c></row><row r="2"><c r="C2"><v>2</v></c></row>' % row1attr
    if oc == "cell-without-r":
        # r is optional on <c>: a cell without it follows its predecessor (or starts at column A)
        rows = '<row r="1"><c><v>1</v></c><c><v>11</v></c></row><row r="2"><c r="C2"><v>2</v></c><c><v>12</v></c></row>'
        cells[ckey(2, 1)] = {"kind": "n", "value": "11", "bits": bits(11), "formula": ""}
        cells[ckey(4, 2)] = {"kind": "n", "value": "12", "bits": bits(12), "formula": ""}
    if oc == "row-without-r-after-empty-rows":
        # rows that hold no cell at all (a spacer row with a height, an empty element) still count: the r-less rows
        # behind them continue from THEIR number
        rows = '<row r="1"><c r="A1"><v>1</v></c></row><row r="4" ht="30" customHeight="1"/><row><c><v>5</v></c><c r="C5"><v>55</v></c></row><row/><row><c r="B7"><v>7</v></c></row>'
        cells.pop(ckey(3, 2), None)
        cells[ckey(1, 5)] = {"kind": "n", "value": "5", "bits": bits(5), "formula": ""}
        cells[ckey(3, 5)] = {"kind": "n", "value": "55", "bits": bits(55), "formula": ""}
        cells[ckey(2, 7)] = {"kind": "n", "value": "7", "bits": bits(7), "formula": ""}
        intent["sheets"][0]["rows"] = {"0000004": {"height": "30"}}
    if oc == "row-without-r":
        # r is optional on <row>: a row without it follows its predecessor (or is row 1)
        rows = '<row><c r="A1"><v>1</v></c></row><row><c r="C2"><v>2</v></c></row><row r="5"><c r="B5"><v>5</v></c></row><row><c><v>6</v></c></row>'
        cells[ckey(2, 5)] = {"kind": "n", "value": "5", "bits": bits(5), "formula": ""}
        cells[ckey(1, 6)] = {"kind": "n", "value": "6", "bits": bits(6), "formula": ""}
    if oc == "row-without-cells":
        rows += '<row r="5" ht="40" customHeight="1"/>'
        intent["sheets"][0]["rows"] = {"0000005": {"height": "40"}}
    if oc == "merge-cells":
        after = '<mergeCells count="2"><mergeCell ref="A1:B1"/><mergeCell ref="C2:D4"/></mergeCells>'
        intent["sheets"][0]["merges"] = ["A1:B1", "C2:D4"]
    if oc == "cell-t-n-empty-v":
        rows += '<row r="3"><c r="A3" t="n"><v></v></c><c r="B3"><v>7</v></c></row>'
        cells[ckey(2, 3)] = {"kind": "n", "value": "7", "bits": bits(7), "formula": ""}
    sx = sheet_xml(rows, cols=cols, after=after)
    if oc == "prefixed-main-namespace":
        # the main namespace bound to a prefix (what the Open XML SDK writes): <x:worksheet xmlns:x="..."><x:sheetData>...
        import re as _re
        body = sx[sx.index("<worksheet"):]
        body = _re.sub(r"<(/?)([A-Za-z])", r"<\1x:\2", body)
        body = body.replace('xmlns="http://schemas.openxmlformats.org/spreadsheetml/2006/main"', 'xmlns:x="http://schemas.openxmlformats.org/spreadsheetml/2006/main"')
        sx = sx[:sx.index("<worksheet")] + body
    srels = None
    if oc == "linked-picture":
        # a picture that is LINKED, not embedded: <a:blip r:link=..> with an External image relationship (legal DrawingML)
        sx = sx.replace("</worksheet>", '<drawing r:id="rId1"/></worksheet>')
        srels = '<Relationship Id="rId1" Type="http://schemas.openxmlformats.org/officeDocument/2006/relationships/drawing" Target="../drawings/drawing1.xml"/>'
        p.extra_parts["xl/drawings/drawing1.xml"] = (
            '<?xml version="1.0" encoding="UTF-8" standalone="yes"?>'
            '<xdr:wsDr xmlns:xdr="http://schemas.openxmlformats.org/drawingml/2006/spreadsheetDrawing" xmlns:a="http://schemas.openxmlformats.org/drawingml/2006/main" xmlns:r="http://schemas.openxmlformats.org/officeDocument/2006/relationships">'
            '<xdr:twoCellAnchor editAs="oneCell"><xdr:from><xdr:col>3</xdr:col><xdr:colOff>0</xdr:colOff><xdr:row>1</xdr:row><xdr:rowOff>0</xdr:rowOff></xdr:from>'
            '<xdr:to><xdr:col>5</xdr:col><xdr:colOff>0</xdr:colOff><xdr:row>6</xdr:row><xdr:rowOff>0</xdr:rowOff></xdr:to>'
            '<xdr:pic><xdr:nvPicPr><xdr:cNvPr id="2" name="Picture 1"/><xdr:cNvPicPr><a:picLocks noChangeAspect="1"/></xdr:cNvPicPr></xdr:nvPicPr>'
            '<xdr:blipFill><a:blip r:link="rId1"/><a:stretch><a:fillRect/></a:stretch></xdr:blipFill>'
            '<xdr:spPr><a:xfrm><a:off x="0" y="0"/><a:ext cx="1219200" cy="952500"/></a:xfrm><a:prstGeom prst="rect"><a:avLst/></a:prstGeom></xdr:spPr>'
            '</xdr:pic><xdr:clientData/></xdr:twoCellAnchor></xdr:wsDr>').encode("utf-8")
        p.extra_parts["xl/drawings/_rels/drawing1.xml.rels"] = (
            '<?xml version="1.0" encoding="UTF-8" standalone="yes"?><Relationships xmlns="http://schemas.openxmlformats.org/package/2006/relationships">'
            '<Relationship Id="rId1" Type="http://schemas.openxmlformats.org/officeDocument/2006/relationships/image" Target="https://example.com/logo.png" TargetMode="External"/></Relationships>').encode("utf-8")
        p.extra_overrides += '<Override PartName="/xl/drawings/drawing1.xml" ContentType="application/vnd.openxmlformats-officedocument.drawing+xml"/>'
    p.sheets.append(("Sheet1", sx, srels, None))
    if oc == "sheet-hidden":
        p.sheets.append(("Hidden1", sheet_xml('<row r="1"><c r="A1"><v>5</v></c></row>'), None, "hidden"))
        intent["sheets"].append({"name": "Hidden1", "state": "hidden", "cells": {ckey(1, 1): {"kind": "n", "value": "5", "bits": bits(5), "formula": ""}}, "merges": [], "links": {}})
    if oc == "two-sheets-second-active":
        p.sheets.append(("Second", sheet_xml('<row r="1"><c r="A1"><v>5</v></c></row>'), None, None))
        intent["sheets"].append({"name": "Second", "cells": {ckey(1, 1): {"kind": "n", "value": "5", "bits": bits(5), "formula": ""}}, "merges": [], "links": {}})
    return p.build(), intent, tags


# ------------------------------------------------------------------------------------------------
# family style: cellXfs resolution
STYLE_CASES = ["font-bold", "font-name-size", "font-italic-strike-underline", "font-color-rgb", "fill-solid", "border-thin-bottom", "numfmt-builtin-2", "numfmt-custom", "alignment", "protection-unlocked",
               "apply-fill-absent", "xf-order-two-styles", "row-style", "col-style", "numfmt-element-defines-id-14", "numfmt-element-defines-id-44"]


def gen_style(i):
    sc = STYLE_CASES[i]
    tags = ["style", "style:" + sc]
    p = Pkg()
    fonts = fills = borders = numfmts = xfs = ""
    nfonts, nfills, nborders, nxfs = 1, 2, 1, 1
    want = {}
    xf = None
    if sc == "font-bold":
        fonts = '<font><b/><sz val="11"/><color theme="1"/><name val="Calibri"/><family val="2"/><scheme val="minor"/></font>'
        nfonts = 2
        xf = '<xf numFmtId="0" fontId="1" fillId="0" borderId="0" xfId="0" applyFont="1"/>'
        want = {"font": {"bold": True, "name": "Calibri", "size": 11.0}}
    elif sc == "font-name-size":
        fonts = '<font><sz val="14.5"/><name val="Arial"/></font>'
        nfonts = 2
        xf = '<xf numFmtId="0" fontId="1" fillId="0" borderId="0" xfId="0" applyFont="1"/>'
        want = {"font": {"bold": False, "name": "Arial", "size": 14.5}}
    elif sc == "font-italic-strike-underline":
        fonts = '<font><i/><strike/><u val="double"/><sz val="11"/><name val="Calibri"/></font>'
        nfonts = 2
        xf = '<xf numFmtId="0" fontId="1" fillId="0" borderId="0" xfId="0" applyFont="1"/>'
        want = {"font": {"italic": True, "strike": True, "underline": "double", "name": "Calibri"}}
    elif sc == "font-color-rgb":
        fonts = '<font><sz val="11"/><color rgb="FF123456"/><name val="Calibri"/></font>'
        nfonts = 2
        xf = '<xf numFmtId="0" fontId="1" fillId="0" borderId="0" xfId="0" applyFont="1"/>'
        want = {"font": {"color_argb": "FF123456"}}
    elif sc == "fill-solid":
        fills = '<fill><patternFill patternType="solid"><fgColor rgb="FF123456"/><bgColor indexed="64"/></patternFill></fill>'
        nfills = 3
        xf = '<xf numFmtId="0" fontId="0" fillId="2" borderId="0" xfId="0" applyFill="1"/>'
        want = {"fill": {"type": "solid", "fg_argb": "FF123456"}}
    elif sc == "border-thin-bottom":
        borders = '<border><left/><right/><top/><bottom style="thin"><color rgb="FF123456"/></bottom><diagonal/></border>'
        nborders = 2
        xf = '<xf numFmtId="0" fontId="0" fillId="0" borderId="1" xfId="0" applyBorder="1"/>'
        want = {"borders": {"bottom": "thin", "top": "none"}}
    elif sc == "numfmt-builtin-2":
        xf = '<xf numFmtId="2" fontId="0" fillId="0" borderId="0" xfId="0" applyNumberFormat="1"/>'
        want = {"numfmt": "0.00"}
    elif sc == "numfmt-custom":
        numfmts = '<numFmts count="1"><numFmt numFmtId="170" formatCode="0.000&quot;kg&quot;"/></numFmts>'
        xf = '<xf numFmtId="170" fontId="0" fillId="0" borderId="0" xfId="0" applyNumberFormat="1"/>'
        want = {"numfmt": '0.000"kg"'}
    elif sc == "numfmt-element-defines-id-14":
        # a <numFmt> element may carry an id below 164 (non-US Excel and WPS write such entries): the file's code counts,
        # not the implied one of that id
        numfmts = '<numFmts count="1"><numFmt numFmtId="14" formatCode="dd/mm/yyyy"/></numFmts>'
        xf = '<xf numFmtId="14" fontId="0" fillId="0" borderId="0" xfId="0" applyNumberFormat="1"/>'
        want = {"numfmt": "dd/mm/yyyy"}
    elif sc == "numfmt-element-defines-id-44":
        code = '_-* #,##0.00\\ "EUR"_-;\\-* #,##0.00\\ "EUR"_-;_-* "-"??\\ "EUR"_-;_-@_-'
        numfmts = '<numFmts count="1"><numFmt numFmtId="44" formatCode="%s"/></numFmts>' % esca(code)
        xf = '<xf numFmtId="44" fontId="0" fillId="0" borderId="0" xfId="0" applyNumberFormat="1"/>'
        want = {"numfmt": code}
    elif sc == "alignment":
        xf = '<xf numFmtId="0" fontId="0" fillId="0" borderId="0" xfId="0" applyAlignment="1"><alignment horizontal="center" vertical="top" wrapText="1" textRotation="45"/></xf>'
        want = {"alignment": {"h": "center", "v": "top", "wrap": True, "rotation": 45}}
    elif sc == "protection-unlocked":
        xf = '<xf numFmtId="0" fontId="0" fillId="0" borderId="0" xfId="0" applyProtection="1"><protection locked="0" hidden="1"/></xf>'
        want = {"protection": {"locked": False, "hidden": True}}
    elif sc == "apply-font-0":
        # ECMA 18.8.45: the ids of a cell xf are in effect; applyFont="0" does not switch them off for cellXfs
        fonts = '<font><b/><sz val="11"/><name val="Calibri"/></font>'
        nfonts = 2
        xf = '<xf numFmtId="0" fontId="1" fillId="0" borderId="0" xfId="0" applyFont="0"/>'
        want = {"font": {"bold": True}}
        tags.append("apply-flag-zero")
    elif sc == "apply-fill-absent":
        fills = '<fill><patternFill patternType="solid"><fgColor rgb="FFABCDEF"/></patternFill></fill>'
        nfills = 3
        xf = '<xf numFmtId="0" fontId="0" fillId="2" borderId="0" xfId="0"/>'
        want = {"fill": {"type": "solid", "fg_argb": "FFABCDEF"}}
        tags.append("apply-flag-absent")
    elif sc in ("xf-order-two-styles", "row-style", "col-style"):
        fonts = '<font><b/><sz val="11"/><name val="Calibri"/></font><font><i/><sz val="11"/><name val="Calibri"/></font>'
        nfonts = 3
        xf = '<xf numFmtId="0" fontId="1" fillId="0" borderId="0" xfId="0" applyFont="1"/><xf numFmtId="0" fontId="2" fillId="0" borderId="0" xfId="0" applyFont="1"/>'
        want = {"font": {"bold": True, "italic": False}}
    nx = xf.count("<xf ")
    p.styles = styles_xml(numfmts=numfmts, fonts=fonts, nfonts=nfonts, fills=fills, nfills=nfills, borders=borders, nborders=nborders, xfs=xf, nxfs=1 + nx)
    cells = {ckey(1, 1): {"kind": "n", "value": "1", "bits": bits(1), "formula": "", "style_want": want}}
    cols = ""
    if sc == "xf-order-two-styles":
        rows = '<row r="1"><c r="A1" s="1"><v>1</v></c><c r="B1" s="2"><v>2</v></c></row>'
        cells[ckey(2, 1)] = {"kind": "n", "value": "2", "bits": bits(2), "formula": "", "style_want": {"font": {"bold": False, "italic": True}}}
    elif sc == "row-style":
        rows = '<row r="1" s="2" customFormat="1"><c r="A1" s="1"><v>1</v></c></row>'
    elif sc == "col-style":
        cols = '<cols><col min="2" max="3" width="9" style="2"/></cols>'
        rows = '<row r="1"><c r="A1" s="1"><v>1</v></c></row>'
    else:
        rows = '<row r="1"><c r="A1" s="1"><v>1</v></c></row>'
    p.sheets.append(("Sheet1", sheet_xml(rows, cols=cols), None, None))
    intent = {"sheets": [{"name": "Sheet1", "cells": cells, "merges": [], "links": {}}], "defined_names": []}
    if sc == "row-style":
        intent["sheets"][0]["row_style_want"] = {"0000001": {"font": {"italic": True}}}
    if sc == "col-style":
        intent["sheets"][0]["col_style_want"] = {"00002": {"font": {"italic": True}}, "00003": {"font": {"italic": True}}}
    return p.build(), intent, tags


def indent_xml(xml):
    """Pretty-print: put a line break + blanks between adjacent tags, except right after the start tag of a
    text-bearing element (<t>, <v>, <f>), where white space would be content."""
    import re
    out = []
    pos = 0
    for m in re.finditer(r"><", xml):
        i = m.start()
        # find the tag that ends at i
        j = xml.rfind("<", 0, i + 1)
        tag = xml[j:i + 1]
        text_start = re.match(r"<(t|v|f)(\s[^>]*)?>$", tag) is not None and not tag.endswith("/>")
        out.append(xml[pos:i + 1])
        if not text_start:
            out.append("\n    ")
        pos = i + 1
    out.append(xml[pos:])
    return "".join(out)


def gen_enc_indented(pi):
    """same content as gen_enc, but the sheet part and the shared strings part are pretty-printed"""
    data, intent, tags = gen_enc(pi)
    zin = zipfile.ZipFile(io.BytesIO(data))
    buf = io.BytesIO()
    zout = zipfile.ZipFile(buf, "w", zipfile.ZIP_DEFLATED)
    for item in zin.infolist():
        raw = zin.read(item.filename)
        if item.filename.startswith("xl/worksheets/") or item.filename == "xl/sharedStrings.xml":
            raw = indent_xml(raw.decode("utf-8")).encode("utf-8")
        zout.writestr(item.filename, raw)
    zout.close()
    return buf.getvalue(), intent, ["enc", "indented"] + [t for t in tags if t.startswith("payload:")]



# ------------------------------------------------------------------------------------------------
# family multi: several sheets over ONE shared-string table as other producers write it: duplicate <si> entries,
# entries no cell uses, sheets that use only the tail of the table (indexes must be taken literally)
MULTI_CASES = ["dup-adjacent", "dup-far", "unused-head", "unused-middle+dup", "three-sheets-interleaved", "shared-pivot-cache"]
_REL = "http://schemas.openxmlformats.org/officeDocument/2006/relationships"
_PKG_REL = "http://schemas.openxmlformats.org/package/2006/relationships"
_MAIN = "http://schemas.openxmlformats.org/spreadsheetml/2006/main"
_HEAD = '<?xml version="1.0" encoding="UTF-8" standalone="yes"?>'


def gen_shared_pivot_cache():
    """Data sheet + two sheets whose pivot tables are built on ONE pivot cache (what Excel writes when a pivot table is
    copied to another sheet): the cache definition, its .rels and its records are reachable from both sheets."""
    p = Pkg()
    tags = ["multi", "multi:shared-pivot-cache"]
    for t in ["key", "a", "b"]:
        p.add_si("<si>%s</si>" % t_el(t))
    sheets = []
    rows = '<row r="1"><c r="A1" t="s"><v>0</v></c></row><row r="2"><c r="A2" t="s"><v>1</v></c></row><row r="3"><c r="A3" t="s"><v>2</v></c></row>'
    p.sheets.append(("Data", sheet_xml(rows), None, None))
    sheets.append({"name": "Data", "cells": {ckey(1, 1): {"kind": "s", "value": "key", "rich": False, "formula": ""}, ckey(1, 2): {"kind": "s", "value": "a", "rich": False, "formula": ""}, ckey(1, 3): {"kind": "s", "value": "b", "rich": False, "formula": ""}}, "merges": [], "links": {}})
    for n, name in [(1, "PivotA"), (2, "PivotB")]:
        rows = '<row r="3"><c r="A3" t="s"><v>0</v></c></row><row r="4"><c r="A4" t="s"><v>1</v></c></row><row r="5"><c r="A5" t="s"><v>2</v></c></row><row r="6"><c r="A6"><v>%d</v></c></row>' % n
        srels = '<Relationship Id="rId1" Type="%s/pivotTable" Target="../pivotTables/pivotTable%d.xml"/>' % (_REL, n)
        p.sheets.append((name, sheet_xml(rows), srels, None))
        sheets.append({"name": name, "cells": {ckey(1, 3): {"kind": "s", "value": "key", "rich": False, "formula": ""}, ckey(1, 4): {"kind": "s", "value": "a", "rich": False, "formula": ""}, ckey(1, 5): {"kind": "s", "value": "b", "rich": False, "formula": ""}, ckey(1, 6): {"kind": "n", "value": str(n), "bits": bits(n), "formula": ""}}, "merges": [], "links": {}})
        p.extra_parts["xl/pivotTables/pivotTable%d.xml" % n] = (
            _HEAD + '<pivotTableDefinition xmlns="%s" name="PivotTable%d" cacheId="0" dataCaption="Values" updatedVersion="7" minRefreshableVersion="3" createdVersion="7" indent="0" outline="1" outlineData="1">'
            '<location ref="A3:A6" firstHeaderRow="1" firstDataRow="1" firstDataCol="1"/><pivotFields count="1"><pivotField axis="axisRow" showAll="0"><items count="3"><item x="0"/><item x="1"/><item t="default"/></items></pivotField></pivotFields>'
            '<rowFields count="1"><field x="0"/></rowFields><rowItems count="3"><i><x/></i><i><x v="1"/></i><i t="grand"><x/></i></rowItems><colItems count="1"><i/></colItems>'
            '<pivotTableStyleInfo name="PivotStyleMedium9" showRowHeaders="1" showColHeaders="1" showRowStripes="0" showColStripes="0" showLastColumn="1"/></pivotTableDefinition>') % (_MAIN, n)
        p.extra_parts["xl/pivotTables/_rels/pivotTable%d.xml.rels" % n] = _HEAD + '<Relationships xmlns="%s"><Relationship Id="rId1" Type="%s/pivotCacheDefinition" Target="../pivotCache/pivotCacheDefinition1.xml"/></Relationships>' % (_PKG_REL, _REL)
    p.extra_parts["xl/pivotCache/pivotCacheDefinition1.xml"] = (
        _HEAD + '<pivotCacheDefinition xmlns="%s" xmlns:r="%s" r:id="rId1" refreshedBy="me" refreshedDate="44636.9" createdVersion="7" refreshedVersion="7" minRefreshableVersion="3" recordCount="2">'
        '<cacheSource type="worksheet"><worksheetSource ref="A1:A3" sheet="Data"/></cacheSource><cacheFields count="1"><cacheField name="key" numFmtId="0"><sharedItems count="2"><s v="a"/><s v="b"/></sharedItems></cacheField></cacheFields></pivotCacheDefinition>') % (_MAIN, _REL)
    p.extra_parts["xl/pivotCache/_rels/pivotCacheDefinition1.xml.rels"] = _HEAD + '<Relationships xmlns="%s"><Relationship Id="rId1" Type="%s/pivotCacheRecords" Target="pivotCacheRecords1.xml"/></Relationships>' % (_PKG_REL, _REL)
    p.extra_parts["xl/pivotCache/pivotCacheRecords1.xml"] = _HEAD + '<pivotCacheRecords xmlns="%s" xmlns:r="%s" count="2"><r><x v="0"/></r><r><x v="1"/></r></pivotCacheRecords>' % (_MAIN, _REL)
    ct = "application/vnd.openxmlformats-officedocument.spreadsheetml"
    p.extra_overrides = ('<Override PartName="/xl/pivotTables/pivotTable1.xml" ContentType="%s.pivotTable+xml"/><Override PartName="/xl/pivotTables/pivotTable2.xml" ContentType="%s.pivotTable+xml"/>'
                         '<Override PartName="/xl/pivotCache/pivotCacheDefinition1.xml" ContentType="%s.pivotCacheDefinition+xml"/><Override PartName="/xl/pivotCache/pivotCacheRecords1.xml" ContentType="%s.pivotCacheRecords+xml"/>') % (ct, ct, ct, ct)
    p.workbook_extra = '<pivotCaches><pivotCache cacheId="0" r:id="rId%d"/></pivotCaches>'
    p.workbook_rels_extra = '<Relationship Id="rId%%d" Type="%s/pivotCacheDefinition" Target="pivotCache/pivotCacheDefinition1.xml"/>' % _REL
    return p.build(), {"sheets": sheets, "defined_names": []}, tags


def gen_multi(i):
    mc = MULTI_CASES[i]
    if mc == "shared-pivot-cache":
        return gen_shared_pivot_cache()
    p = Pkg()
    tags = ["multi", "multi:" + mc]
    if mc == "dup-adjacent":
        texts = ["alpha", "same", "same", "omega", "tail"]
    elif mc == "dup-far":
        texts = ["same", "alpha", "beta", "same", "gamma", "same"]
    elif mc == "unused-head":
        texts = ["never used 1", "never used 2", "alpha", "beta", "gamma"]
    elif mc == "unused-middle+dup":
        texts = ["alpha", "never used", "alpha", "beta", "never used", "gamma"]
    else:
        texts = ["s1-a", "s2-a", "s3-a", "s1-b", "s2-b", "s3-b", "s1-a", "s2-a"]
    for t in texts:
        p.add_si("<si>%s</si>" % t_el(t))
    nsheets = 3 if mc == "three-sheets-interleaved" else 2
    sheets = []
    for k in range(nsheets):
        rows = ""
        cells = {}
        r = 1
        for idx, t in enumerate(texts):
            if t.startswith("never used"):
                continue
            # sheet k takes the entries whose index is congruent to k, plus the LAST entry (so every sheet reaches behind the duplicates)
            if idx % nsheets == k or idx == len(texts) - 1:
                rows += '<row r="%d"><c r="A%d" t="s"><v>%d</v></c><c r="B%d"><v>%d</v></c></row>' % (r, r, idx, r, idx)
                cells[ckey(1, r)] = {"kind": "s", "value": t, "rich": False, "formula": ""}
                cells[ckey(2, r)] = {"kind": "n", "value": str(idx), "bits": bits(idx), "formula": ""}
                r += 1
        name = "S%d" % (k + 1)
        p.sheets.append((name, sheet_xml(rows), None, None))
        sheets.append({"name": name, "cells": cells, "merges": [], "links": {}})
    return p.build(), {"sheets": sheets, "defined_names": []}, tags

FAMILIES = [("enc", len(PAYLOADS), gen_enc), ("enc-indented", len(PAYLOADS), gen_enc_indented), ("shared", N_SHARED, gen_shared), ("shared-edge", len(EDGE_CASES), gen_shared_edge), ("attr", N_ATTR, gen_attr), ("opt", len(OPT_CASES), gen_opt), ("style", len(STYLE_CASES), gen_style), ("multi", len(MULTI_CASES), gen_multi)]


def total():
    return sum(n for _, n, _ in FAMILIES)


def case(i):
    for name, n, f in FAMILIES:
        if i < n:
            data, intent, tags = f(i)
            for sh in intent["sheets"]:
                sh.setdefault("state", "visible")
            return data, intent, tags, "%s[%d]" % (name, i)
        i -= n
    raise IndexError(i)


def handle(h):
    if h.get("what") == "count":
        return {"ok": True, "count": total(), "families": [[n, c] for n, c, _ in FAMILIES]}
    if h.get("family"):
        # a case addressed by family name + index inside the family (used by checks other than C03)
        off = 0
        for name, n, _ in FAMILIES:
            if name == h["family"]:
                data, intent, tags, label = case(off + int(h["index"]))
                return {"ok": True, "b64": base64.b64encode(data).decode("ascii"), "intent": intent, "tags": tags, "label": label, "family_size": n}
            off += n
        return {"ok": False, "error": "unknown family %r" % h["family"]}
    data, intent, tags, label = case(int(h["index"]))
    return {"ok": True, "b64": base64.b64encode(data).decode("ascii"), "intent": intent, "tags": tags, "label": label}
