#!/usr/bin/python3
"""Length-prefixed request/response worker around xlsx_ref (and, when present, other reference modules).
Request : 4-byte BE header length, JSON header {"op":..., "nbytes":N, ...}, then N payload bytes.
Response: 4-byte BE length, JSON."""
import sys, os, json, struct, traceback
sys.path.insert(0, os.path.dirname(os.path.abspath(__file__)))
import xlsx_ref


def read_exact(f, n):
    buf = b""
    while len(buf) < n:
        chunk = f.read(n - len(buf))
        if not chunk:
            raise EOFError
        buf += chunk
    return buf


def handle(h, payload):
    op = h["op"]
    if op == "ping":
        return {"ok": True}
    if op == "validate":
        return {"ok": True, "problems": xlsx_ref.validate(payload)}
    if op == "decode":
        return {"ok": True, "book": xlsx_ref.decode(payload, want_styles=bool(h.get("styles")))}
    if op == "validate+decode":
        return {"ok": True, "problems": xlsx_ref.validate(payload), "book": xlsx_ref.decode(payload, want_styles=bool(h.get("styles")))}
    if op == "gen":
        import xlsx_gen
        return xlsx_gen.handle(h)
    if op == "eval":
        # small numeric/reference helpers (decimal rounding, codecs) used for cross-checks
        import misc_ref
        return misc_ref.handle(h, payload)
    return {"ok": False, "error": "unknown op %r" % op}


def main():
    fin, fout = sys.stdin.buffer, sys.stdout.buffer
    while True:
        try:
            hl = struct.unpack(">I", read_exact(fin, 4))[0]
        except EOFError:
            return
        h = json.loads(read_exact(fin, hl).decode("utf-8"))
        payload = read_exact(fin, h.get("nbytes", 0)) if h.get("nbytes", 0) else b""
        try:
            resp = handle(h, payload)
        except Exception as e:
            resp = {"ok": False, "error": "%s: %s" % (type(e).__name__, e), "trace": traceback.format_exc()[-1500:]}
        out = json.dumps(resp).encode("utf-8")
        if h.get("blob"):
            pass
        fout.write(struct.pack(">I", len(out)) + out)
        if isinstance(resp, dict) and "_blob" in resp:
            pass
        fout.flush()


if __name__ == "__main__":
    main()
