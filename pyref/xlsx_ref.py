"""Independent OPC/SpreadsheetML validator and decoder (Python stdlib only: zipfile + expat/ElementTree).

Shares no code with umya-spreadsheet nor with the Rust harness.  Implements the subset of ECMA-376 Part 1
(section 18) that the properties name:
  validate(bytes) -> list of {"class":..., "part":..., "msg":...}
  decode(bytes)   -> {"sheets":[...], "defined_names":[...], "active_tab":..., "tables":{...}}
"""
import io, re, struct, zipfile, posixpath
import xml.etree.ElementTree as ET

NS_MAIN = "http://schemas.openxmlformats.org/spreadsheetml/2006/main"
NS_REL = "http://schemas.openxmlformats.org/officeDocument/2006/relationships"
NS_PKG_REL = "http://schemas.openxmlformats.org/package/2006/relationships"
NS_CT = "http://schemas.openxmlformats.org/package/2006/content-types"
M = "{%s}" % NS_MAIN
R = "{%s}" % NS_REL
XML_SPACE = "{http://www.w3.org/XML/1998/namespace}space"

WORKSHEET_ORDER = ["sheetPr", "dimension", "sheetViews", "sheetFormatPr", "cols", "sheetData", "sheetCalcPr",
                   "sheetProtection", "protectedRanges", "scenarios", "autoFilter", "sortState", "dataConsolidate",
                   "customSheetViews", "mergeCells", "phoneticPr", "conditionalFormatting", "dataValidations",
                   "hyperlinks", "printOptions", "pageMargins", "pageSetup", "headerFooter", "rowBreaks", "colBreaks",
                   "customProperties", "cellWatches", "ignoredErrors", "smartTags", "drawing", "legacyDrawing",
                   "legacyDrawingHF", "drawingHF", "picture", "oleObjects", "controls", "webPublishItems",
                   "tableParts", "extLst"]
WS_RANK = {n: i for i, n in enumerate(WORKSHEET_ORDER)}

BUILTIN_NUMFMT = {0: "General", 1: "0", 2: "0.00", 3: "#,##0", 4: "#,##0.00", 9: "0%", 10: "0.00%", 11: "0.00E+00",
                  12: "# ?/?", 13: "# ??/??", 14: "mm-dd-yy", 15: "d-mmm-yy", 16: "d-mmm", 17: "mmm-yy",
                  18: "h:mm AM/PM", 19: "h:mm:ss AM/PM", 20: "h:mm", 21: "h:mm:ss", 22: "m/d/yy h:mm",
                  37: "#,##0 ;(#,##0)", 38: "#,##0 ;[Red](#,##0)", 39: "#,##0.00;(#,##0.00)",
                  40: "#,##0.00;[Red](#,##0.00)", 45: "mm:ss", 46: "[h]:mm:ss", 47: "mmss.0", 48: "##0.0E+0", 49: "@"}

CELL_RE = re.compile(r"^([A-Z]{1,3})([0-9]+)$")


def col_index(letters):
    n = 0
    for ch in letters:
        n = n * 26 + (ord(ch) - 64)
    return n


def col_letters(n):
    s = ""
    while n > 0:
        n -= 1
        s = chr(65 + n % 26) + s
        n //= 26
    return s


def parse_cell_ref(ref):
    m = CELL_RE.match(ref or "")
    if not m:
        return None
    return col_index(m.group(1)), int(m.group(2))


def ckey(col, row):
    return "R%07dC%05d" % (row, col)


def f64_bits(text):
    try:
        return struct.pack(">d", float(text)).hex()
    except Exception:
        return None


class Package:
    def __init__(self, data):
        self.problems = []
        self.zf = zipfile.ZipFile(io.BytesIO(data))
        self.names = [i.filename for i in self.zf.infolist()]
        self.nameset = set(self.names)
        self.xml_cache = {}

    def problem(self, cls, part, msg):
        self.problems.append({"class": cls, "part": part, "msg": msg})

    def read(self, name):
        return self.zf.read(name)

    def xml(self, name):
        if name in self.xml_cache:
            return self.xml_cache[name]
        try:
            root = ET.fromstring(self.read(name))
        except Exception as e:  # malformed XML or illegal character
            self.problem("xml-malformed", name, str(e)[:200])
            root = None
        self.xml_cache[name] = root
        return root

    def rels_of(self, part):
        d, b = posixpath.split(part)
        rn = posixpath.join(d, "_rels", b + ".rels")
        if rn not in self.nameset:
            return rn, {}
        root = self.xml(rn)
        out = {}
        if root is None:
            return rn, out
        for rel in root:
            if rel.tag != "{%s}Relationship" % NS_PKG_REL:
                continue
            rid = rel.get("Id")
            if rid in out:
                self.problem("dup-rel-id", rn, "relationship Id %r declared twice" % rid)
            tgt = rel.get("Target", "")
            mode = rel.get("TargetMode", "Internal")
            if mode != "External":
                if tgt.startswith("/"):
                    res = tgt[1:]
                else:
                    res = posixpath.normpath(posixpath.join(d, tgt))
            else:
                res = None
            out[rid] = {"type": rel.get("Type", ""), "target": tgt, "mode": mode, "resolved": res}
        return rn, out


def _is_xml_part(name):
    return name.endswith(".xml") or name.endswith(".rels") or name.endswith(".vml")


def text_of_si(si):
    """ECMA 18.4.8: text of a string item = its <t>, or the concatenation of its runs' <t>; phonetic runs are not part of it."""
    runs = []
    t = si.find(M + "t")
    rich = False
    parts = []
    if t is not None:
        parts.append(t.text or "")
    for r in si.findall(M + "r"):
        rich = True
        rt = r.find(M + "t")
        txt = (rt.text or "") if rt is not None else ""
        parts.append(txt)
        runs.append({"text": txt, "has_rpr": r.find(M + "rPr") is not None})
    return "".join(parts), rich, runs


# ------------------------------------------------------------------------------------------------
# formula lexer + relative translation (for shared-formula expansion)
TOK_RE = re.compile(r"""
    (?P<str>"(?:[^"]|"")*")
  | (?P<qsheet>'(?:[^']|'')*'!)
  | (?P<brack>\[[^\]]*\])
  | (?P<err>\#(?:REF!|DIV/0!|VALUE!|NAME\?|NUM!|N/A|NULL!))
  | (?P<ref>\$?[A-Za-z]{1,3}\$?[0-9]+(?![A-Za-z0-9_.(]))
  | (?P<name>[A-Za-z_\\][A-Za-z0-9_.\\?]*!?)
  | (?P<num>[0-9]+(?:\.[0-9]*)?(?:[Ee][+-]?[0-9]+)?)
  | (?P<other>.)
""", re.X | re.S)
REF_PARTS = re.compile(r"^(\$?)([A-Za-z]{1,3})(\$?)([0-9]+)$")
COLRANGE_RE = re.compile(r"^(\$?)([A-Za-z]{1,3}):(\$?)([A-Za-z]{1,3})$")


def translate_formula(text, dcol, drow):
    """Translate every relative A1 reference part by (dcol, drow) (shared-formula semantics, ECMA 18.3.1.40)."""
    out = []
    pos = 0
    prev_kind = None
    for m in TOK_RE.finditer(text):
        kind = m.lastgroup
        tok = m.group(0)
        if kind == "ref":
            mm = REF_PARTS.match(tok)
            c_abs, c, r_abs, r = mm.group(1), mm.group(2), mm.group(3), mm.group(4)
            ci = col_index(c.upper())
            ri = int(r)
            if not c_abs:
                ci += dcol
            if not r_abs:
                ri += drow
            if ci < 1 or ci > 16384 or ri < 1 or ri > 1048576:
                out.append("#REF!")
            else:
                out.append("%s%s%s%d" % (c_abs, col_letters(ci), r_abs, ri))
        else:
            out.append(tok)
        prev_kind = kind
    return "".join(out)


# ------------------------------------------------------------------------------------------------
def load_styles(pkg, path):
    st = {"numFmts": {}, "fonts": [], "fills": [], "borders": [], "cellXfs": [], "cellStyleXfs": [], "dxfs": 0}
    if path is None or path not in pkg.nameset:
        return st
    root = pkg.xml(path)
    if root is None:
        return st
    nf = root.find(M + "numFmts")
    if nf is not None:
        for e in nf.findall(M + "numFmt"):
            try:
                st["numFmts"][int(e.get("numFmtId"))] = e.get("formatCode")
            except Exception:
                pkg.problem("numfmt-bad-id", path, "numFmtId %r" % e.get("numFmtId"))

    def color(e):
        if e is None:
            return None
        return {"argb": e.get("rgb", ""), "indexed": e.get("indexed"), "theme": e.get("theme"), "tint": e.get("tint")}

    def boolval(e):
        if e is None:
            return False
        v = e.get("val")
        return v is None or v in ("1", "true")

    fonts = root.find(M + "fonts")
    if fonts is not None:
        for f in fonts.findall(M + "font"):
            name = f.find(M + "name")
            sz = f.find(M + "sz")
            u = f.find(M + "u")
            st["fonts"].append({
                "name": name.get("val") if name is not None else None,
                "size": sz.get("val") if sz is not None else None,
                "bold": boolval(f.find(M + "b")), "italic": boolval(f.find(M + "i")),
                "strike": boolval(f.find(M + "strike")),
                "underline": (u.get("val", "single") if u is not None else "none"),
                "color": color(f.find(M + "color")),
            })
    fills = root.find(M + "fills")
    if fills is not None:
        for f in fills.findall(M + "fill"):
            pf = f.find(M + "patternFill")
            gf = f.find(M + "gradientFill")
            st["fills"].append({
                "pattern": None if pf is None else {"type": pf.get("patternType", "none"), "fg": color(pf.find(M + "fgColor")), "bg": color(pf.find(M + "bgColor"))},
                "gradient": None if gf is None else {"degree": gf.get("degree"), "stops": len(gf.findall(M + "stop"))},
            })
    borders = root.find(M + "borders")
    if borders is not None:
        for b in borders.findall(M + "border"):
            d = {}
            for side in ("left", "right", "top", "bottom", "diagonal"):
                e = b.find(M + side)
                d[side] = {"style": (e.get("style", "none") if e is not None else "none"), "color": color(e.find(M + "color")) if e is not None else None}
            st["borders"].append(d)

    def xfs(tag):
        out = []
        c = root.find(M + tag)
        if c is not None:
            for x in c.findall(M + "xf"):
                al = x.find(M + "alignment")
                pr = x.find(M + "protection")
                out.append({
                    "numFmtId": int(x.get("numFmtId", "0")), "fontId": int(x.get("fontId", "0")), "fillId": int(x.get("fillId", "0")),
                    "borderId": int(x.get("borderId", "0")), "xfId": x.get("xfId"),
                    "applyNumberFormat": x.get("applyNumberFormat"), "applyFont": x.get("applyFont"), "applyFill": x.get("applyFill"),
                    "applyBorder": x.get("applyBorder"), "applyAlignment": x.get("applyAlignment"), "applyProtection": x.get("applyProtection"),
                    "alignment": None if al is None else {"h": al.get("horizontal", "general"), "v": al.get("vertical", "bottom"), "wrap": al.get("wrapText", "0") in ("1", "true"), "rotation": int(al.get("textRotation", "0"))},
                    "protection": None if pr is None else {"locked": pr.get("locked", "1") in ("1", "true"), "hidden": pr.get("hidden", "0") in ("1", "true")},
                })
        return out

    st["cellXfs"] = xfs("cellXfs")
    st["cellStyleXfs"] = xfs("cellStyleXfs")
    dx = root.find(M + "dxfs")
    st["dxfs"] = len(dx.findall(M + "dxf")) if dx is not None else 0
    return st


def numfmt_code(st, fid):
    if fid in st["numFmts"]:
        return st["numFmts"][fid]
    return BUILTIN_NUMFMT.get(fid)


class Workbook:
    """Everything needed by both validate() and decode()."""

    def __init__(self, data):
        self.pkg = Package(data)
        pkg = self.pkg
        self.wb_path = None
        _, rels = pkg.rels_of("")
        # root rels live at _rels/.rels
        if "_rels/.rels" in pkg.nameset:
            root = pkg.xml("_rels/.rels")
            if root is not None:
                for rel in root:
                    if rel.get("Type", "").endswith("/officeDocument"):
                        self.wb_path = rel.get("Target", "").lstrip("/")
        if self.wb_path is None:
            pkg.problem("no-office-document", "_rels/.rels", "no officeDocument relationship")
            self.wb_path = "xl/workbook.xml"
        self.wb = pkg.xml(self.wb_path) if self.wb_path in pkg.nameset else None
        if self.wb is None and self.wb_path not in pkg.nameset:
            pkg.problem("dangling-rel", "_rels/.rels", "workbook part %s missing" % self.wb_path)
        self.wb_rels_name, self.wb_rels = pkg.rels_of(self.wb_path)
        self.sst_path = None
        self.styles_path = None
        for rid, r in self.wb_rels.items():
            if r["type"].endswith("/sharedStrings"):
                self.sst_path = r["resolved"]
            if r["type"].endswith("/styles"):
                self.styles_path = r["resolved"]
        self.sst = []
        if self.sst_path and self.sst_path in pkg.nameset:
            root = pkg.xml(self.sst_path)
            if root is not None:
                for si in root.findall(M + "si"):
                    self.sst.append(text_of_si(si))
        self.styles = load_styles(pkg, self.styles_path)
        self.sheets = []
        if self.wb is not None:
            sh = self.wb.find(M + "sheets")
            if sh is not None:
                for s in sh.findall(M + "sheet"):
                    rid = s.get(R + "id")
                    rel = self.wb_rels.get(rid)
                    self.sheets.append({"name": s.get("name"), "sheetId": s.get("sheetId"), "rid": rid, "state": s.get("state", "visible"),
                                        "path": rel["resolved"] if rel else None, "rel_type": rel["type"] if rel else None})


# ------------------------------------------------------------------------------------------------
def validate(data):
    try:
        wbk = Workbook(data)
    except zipfile.BadZipFile as e:
        return [{"class": "zip-bad", "part": "", "msg": str(e)}]
    pkg = wbk.pkg
    P = pkg.problem
    # zip names unique
    seen = set()
    for n in pkg.names:
        if n in seen:
            P("zip-dup-name", n, "duplicate zip entry")
        seen.add(n)
    # content types
    defaults, overrides = {}, {}
    if "[Content_Types].xml" not in pkg.nameset:
        P("no-content-types", "[Content_Types].xml", "missing")
    else:
        root = pkg.xml("[Content_Types].xml")
        if root is not None:
            for e in root:
                if e.tag == "{%s}Default" % NS_CT:
                    defaults[e.get("Extension", "").lower()] = e.get("ContentType")
                elif e.tag == "{%s}Override" % NS_CT:
                    pn = e.get("PartName", "")
                    if pn in overrides:
                        P("content-type-dup-override", pn, "two overrides")
                    overrides[pn] = e.get("ContentType")
            for pn in overrides:
                if pn.lstrip("/") not in pkg.nameset:
                    P("content-type-override-dangling", pn, "override for a part that does not exist")
    for n in pkg.names:
        if n == "[Content_Types].xml" or n.endswith("/"):
            continue
        ext = n.rsplit(".", 1)[-1].lower() if "." in n else ""
        if ("/" + n) not in overrides and ext not in defaults:
            P("no-content-type", n, "part has neither Default nor Override content type")
    # every XML part well-formed (expat also rejects characters outside XML 1.0 Char)
    for n in pkg.names:
        if _is_xml_part(n):
            pkg.xml(n)
    # relationships resolve, ids unique
    for n in pkg.names:
        if n.endswith(".rels"):
            d, b = posixpath.split(n)
            src_dir = posixpath.dirname(d)  # parent of _rels
            src = posixpath.join(src_dir, b[:-5])
            _, rels = pkg.rels_of(src if src != "." else "")
            if n == "_rels/.rels":
                root = pkg.xml(n)
                rels = {}
                if root is not None:
                    for rel in root:
                        rid = rel.get("Id")
                        if rid in rels:
                            P("dup-rel-id", n, "relationship Id %r declared twice" % rid)
                        tgt = rel.get("Target", "")
                        rels[rid] = {"mode": rel.get("TargetMode", "Internal"), "resolved": tgt.lstrip("/"), "target": tgt, "type": rel.get("Type", "")}
            for rid, r in rels.items():
                if r["mode"] != "External":
                    if r["resolved"] not in pkg.nameset:
                        P("dangling-rel", n, "relationship %s -> %s does not exist" % (rid, r["target"]))
    # every attribute in the relationships namespace (r:id, r:embed, r:link, r:pict ...) of every other part names a
    # relationship that the part's own .rels declares (worksheets and the workbook are checked in detail below)
    for n in pkg.names:
        if not _is_xml_part(n) or n.endswith(".rels") or n.startswith("xl/worksheets/sheet") or n == wbk.wb_path.lstrip("/") or n == "[Content_Types].xml":
            continue
        root = pkg.xml(n)
        if root is None:
            continue
        used = []
        for e in root.iter():
            for k, v in e.attrib.items():
                if k.startswith(R) and v:
                    used.append((e.tag.split('}')[-1], k[len(R):], v))
        if used:
            _, prels = pkg.rels_of(n)
            for tag, attr, v in used:
                if v not in prels:
                    P("rid-undeclared", n, "<%s> uses r:%s %r which the part's relationships do not declare" % (tag, attr, v))
    # workbook level
    names_seen = set()
    ids_seen = set()
    for s in wbk.sheets:
        nm = s["name"] or ""
        if nm.lower() in names_seen:
            P("sheet-name-dup", wbk.wb_path, "sheet name %r twice" % nm)
        names_seen.add(nm.lower())
        if len(nm) == 0 or len(nm) > 31 or any(c in nm for c in ":\\/?*[]") or nm.startswith("'") or nm.endswith("'"):
            P("sheet-name-illegal", wbk.wb_path, "sheet name %r" % nm)
        if s["sheetId"] in ids_seen:
            P("sheet-id-dup", wbk.wb_path, "sheetId %r twice" % s["sheetId"])
        ids_seen.add(s["sheetId"])
        if s["rid"] not in wbk.wb_rels:
            P("rid-undeclared", wbk.wb_path, "sheet %r uses r:id %r not declared in %s" % (nm, s["rid"], wbk.wb_rels_name))
        elif not (s["rel_type"] or "").endswith(("/worksheet", "/chartsheet", "/dialogsheet", "/macrosheet")):
            P("rid-wrong-type", wbk.wb_path, "sheet %r r:id %r has type %r" % (nm, s["rid"], s["rel_type"]))
    if wbk.wb is not None:
        dn = wbk.wb.find(M + "definedNames")
        if dn is not None:
            seen_dn = set()
            for d in dn.findall(M + "definedName"):
                k = ((d.get("name") or "").lower(), d.get("localSheetId"))
                if k in seen_dn:
                    P("definedname-dup", wbk.wb_path, "defined name %r scope %r twice" % k)
                seen_dn.add(k)
                lsi = d.get("localSheetId")
                if lsi is not None and not (lsi.isdigit() and int(lsi) < len(wbk.sheets)):
                    P("definedname-scope", wbk.wb_path, "localSheetId %r out of range" % lsi)
        bv = wbk.wb.find(M + "bookViews")
        if bv is not None:
            for v in bv.findall(M + "workbookView"):
                at = v.get("activeTab")
                if at is not None and not (at.isdigit() and int(at) < max(1, len(wbk.sheets))):
                    P("active-tab-range", wbk.wb_path, "activeTab %r with %d sheets" % (at, len(wbk.sheets)))
    st = wbk.styles
    nxf = len(st["cellXfs"])
    for i, x in enumerate(st["cellXfs"]):
        if x["fontId"] >= len(st["fonts"]):
            P("font-index", wbk.styles_path, "xf %d fontId %d >= %d" % (i, x["fontId"], len(st["fonts"])))
        if x["fillId"] >= len(st["fills"]):
            P("fill-index", wbk.styles_path, "xf %d fillId %d >= %d" % (i, x["fillId"], len(st["fills"])))
        if x["borderId"] >= len(st["borders"]):
            P("border-index", wbk.styles_path, "xf %d borderId %d >= %d" % (i, x["borderId"], len(st["borders"])))
        if x["xfId"] is not None and st["cellStyleXfs"] and int(x["xfId"]) >= len(st["cellStyleXfs"]):
            P("xfid-index", wbk.styles_path, "xf %d xfId %s >= %d" % (i, x["xfId"], len(st["cellStyleXfs"])))
        if numfmt_code(st, x["numFmtId"]) is None and x["numFmtId"] >= 164:
            P("numfmt-undeclared", wbk.styles_path, "xf %d numFmtId %d neither built-in nor declared" % (i, x["numFmtId"]))
    # worksheets
    for s in wbk.sheets:
        path = s["path"]
        if not path or path not in pkg.nameset or not (s["rel_type"] or "").endswith("/worksheet"):
            continue
        root = pkg.xml(path)
        if root is None:
            continue
        rels_name, rels = pkg.rels_of(path)
        last_rank = -1
        for ch in root:
            if not ch.tag.startswith(M):
                continue
            nm = ch.tag[len(M):]
            rk = WS_RANK.get(nm)
            if rk is None:
                P("child-unknown", path, "unknown worksheet child <%s>" % nm)
                continue
            if rk < last_rank:
                P("child-order", path, "<%s> appears after a later-ranked sibling" % nm)
            if rk == last_rank and nm != "conditionalFormatting":
                P("child-dup", path, "<%s> appears twice" % nm)
            last_rank = max(last_rank, rk)
        # r:id uses
        for e in root.iter():
            rid = e.get(R + "id")
            if rid is not None:
                if rid not in rels:
                    P("rid-undeclared", path, "<%s> uses r:id %r not declared in %s" % (e.tag.split('}')[-1], rid, rels_name))
                else:
                    want = {"hyperlink": "/hyperlink", "drawing": "/drawing", "legacyDrawing": "/vmlDrawing", "tablePart": "/table", "oleObject": ("/oleObject", "/package"), "control": "/control", "pageSetup": "/printerSettings", "legacyDrawingHF": "/vmlDrawing", "picture": "/image"}.get(e.tag.split('}')[-1])
                    if want and not rels[rid]["type"].endswith(want if isinstance(want, tuple) else (want,)):
                        P("rid-wrong-type", path, "<%s> r:id %r has type %r" % (e.tag.split('}')[-1], rid, rels[rid]["type"]))
        sd = root.find(M + "sheetData")
        if sd is not None:
            last_r = 0
            for row in sd.findall(M + "row"):
                rr = row.get("r")
                if rr is None:
                    rnum = last_r + 1
                else:
                    try:
                        rnum = int(rr)
                    except ValueError:
                        P("row-bad", path, "row r=%r" % rr)
                        continue
                if rnum <= last_r:
                    P("row-order", path, "row %d after row %d" % (rnum, last_r))
                if rnum < 1 or rnum > 1048576:
                    P("row-out-of-range", path, "row %d" % rnum)
                last_r = max(last_r, rnum)
                last_c = 0
                rs = row.get("s")
                if rs is not None and (not rs.isdigit() or int(rs) >= max(nxf, 1)):
                    P("style-index", path, "row %d s=%s >= %d" % (rnum, rs, nxf))
                for c in row.findall(M + "c"):
                    ref = c.get("r")
                    pc = parse_cell_ref(ref) if ref is not None else (last_c + 1, rnum)
                    if pc is None:
                        P("cell-bad-ref", path, "cell r=%r" % ref)
                        continue
                    col, crow = pc
                    if crow != rnum:
                        P("cell-wrong-row", path, "cell %s inside row %d" % (ref, rnum))
                    if col <= last_c:
                        P("cell-order", path, "cell %s not after column %d in row %d" % (ref, last_c, rnum))
                    if col < 1 or col > 16384:
                        P("cell-out-of-range", path, "cell %s" % ref)
                    last_c = max(last_c, col)
                    sidx = c.get("s")
                    if sidx is not None and (not sidx.isdigit() or int(sidx) >= max(nxf, 1)):
                        P("style-index", path, "cell %s s=%s >= %d" % (ref, sidx, nxf))
                    if c.get("t") == "s":
                        v = c.find(M + "v")
                        if v is None or not (v.text or "").strip().isdigit() or int(v.text) >= len(wbk.sst):
                            P("sst-index", path, "cell %s shared string index %r >= %d" % (ref, None if v is None else v.text, len(wbk.sst)))
        cols = root.find(M + "cols")
        if cols is not None:
            last_max = 0
            for c in cols.findall(M + "col"):
                try:
                    mn, mx = int(c.get("min")), int(c.get("max"))
                except Exception:
                    P("col-bad", path, "col min/max %r %r" % (c.get("min"), c.get("max")))
                    continue
                if mn > mx or mn < 1 or mx > 16384:
                    P("col-range", path, "col min=%d max=%d" % (mn, mx))
                if mn <= last_max:
                    P("col-overlap", path, "col min=%d overlaps/precedes previous max=%d" % (mn, last_max))
                last_max = max(last_max, mx)
                cs = c.get("style")
                if cs is not None and (not cs.isdigit() or int(cs) >= max(nxf, 1)):
                    P("style-index", path, "col style=%s >= %d" % (cs, nxf))
        for cf in root.findall(M + "conditionalFormatting"):
            for rule in cf.findall(M + "cfRule"):
                d = rule.get("dxfId")
                if d is not None and (not d.isdigit() or int(d) >= st["dxfs"]):
                    P("dxf-index", path, "cfRule dxfId=%s >= %d" % (d, st["dxfs"]))
        mc = root.find(M + "mergeCells")
        if mc is not None and len(mc.findall(M + "mergeCell")) == 0:
            P("merge-empty", path, "<mergeCells> without children")
    return pkg.problems


# ------------------------------------------------------------------------------------------------
def resolve_style(st, sidx):
    """Effective formatting of xf `sidx` (component ids resolved; apply* flags are informational in cellXfs:
    ECMA 18.8.45 - the ids in a cell xf are always the ones in effect for the cell)."""
    if sidx is None or sidx >= len(st["cellXfs"]):
        return None
    x = st["cellXfs"][sidx]
    return {
        "font": st["fonts"][x["fontId"]] if x["fontId"] < len(st["fonts"]) else None,
        "fill": st["fills"][x["fillId"]] if x["fillId"] < len(st["fills"]) else None,
        "border": st["borders"][x["borderId"]] if x["borderId"] < len(st["borders"]) else None,
        "numfmt": numfmt_code(st, x["numFmtId"]),
        "numFmtId": x["numFmtId"],
        "alignment": x["alignment"],
        "protection": x["protection"],
    }


def decode(data, want_styles=False):
    wbk = Workbook(data)
    pkg = wbk.pkg
    out = {"sheets": [], "defined_names": [], "active_tab": 0,
           "tables": {"sst": len(wbk.sst), "fonts": len(wbk.styles["fonts"]), "fills": len(wbk.styles["fills"]),
                      "borders": len(wbk.styles["borders"]), "numFmts": len(wbk.styles["numFmts"]),
                      "cellXfs": len(wbk.styles["cellXfs"]), "dxfs": wbk.styles["dxfs"]}}
    if wbk.wb is not None:
        bv = wbk.wb.find(M + "bookViews")
        if bv is not None:
            v = bv.find(M + "workbookView")
            if v is not None:
                out["active_tab"] = int(v.get("activeTab", "0"))
        dn = wbk.wb.find(M + "definedNames")
        if dn is not None:
            for d in dn.findall(M + "definedName"):
                lsi = d.get("localSheetId")
                out["defined_names"].append({"name": d.get("name"), "local": int(lsi) if lsi is not None else None, "text": d.text or "", "hidden": d.get("hidden", "0") in ("1", "true")})
    for s in wbk.sheets:
        sh = {"name": s["name"], "state": s["state"], "cells": {}, "merges": [], "links": {}, "rows": {}, "cols": {}}
        out["sheets"].append(sh)
        path = s["path"]
        if not path or path not in pkg.nameset or not (s["rel_type"] or "").endswith("/worksheet"):
            sh["unreadable"] = True
            continue
        root = pkg.xml(path)
        if root is None:
            sh["unreadable"] = True
            continue
        _, rels = pkg.rels_of(path)
        shared = {}  # si -> (anchor col,row, text)
        sd = root.find(M + "sheetData")
        if sd is not None:
            last_r = 0
            for row in sd.findall(M + "row"):
                rnum = int(row.get("r")) if row.get("r") else last_r + 1
                last_r = rnum
                rinfo = {"height": row.get("ht"), "custom_height": row.get("customHeight", "0") in ("1", "true"), "hidden": row.get("hidden", "0") in ("1", "true"), "s": row.get("s"), "custom_format": row.get("customFormat", "0") in ("1", "true")}
                if want_styles and rinfo["s"] is not None and rinfo["custom_format"]:
                    rinfo["style"] = resolve_style(wbk.styles, int(rinfo["s"]))
                sh["rows"]["%07d" % rnum] = rinfo
                last_c = 0
                for c in row.findall(M + "c"):
                    ref = c.get("r")
                    pc = parse_cell_ref(ref) if ref else (last_c + 1, rnum)
                    if pc is None:
                        continue
                    col, crow = pc
                    last_c = col
                    t = c.get("t", "n")
                    v = c.find(M + "v")
                    vtext = v.text if (v is not None and v.text is not None) else None
                    f = c.find(M + "f")
                    cell = {"kind": "", "value": "", "formula": ""}
                    if f is not None:
                        ftext = f.text or ""
                        if f.get("t") == "shared":
                            si = f.get("si")
                            if ftext != "":
                                shared[si] = (col, crow, ftext)
                            elif si in shared:
                                ac, ar, atext = shared[si]
                                ftext = translate_formula(atext, col - ac, crow - ar)
                        cell["formula"] = ftext
                        cell["formula_t"] = f.get("t", "normal")
                    if t == "s":
                        if vtext is not None and vtext.strip().isdigit() and int(vtext) < len(wbk.sst):
                            txt, rich, runs = wbk.sst[int(vtext)]
                            cell["kind"] = "s"
                            cell["value"] = txt
                            cell["rich"] = rich
                            if rich:
                                cell["runs"] = runs
                        else:
                            cell["kind"] = "s"
                            cell["value"] = None
                    elif t == "str":
                        cell["kind"] = "s"
                        cell["value"] = vtext or ""
                        cell["rich"] = False
                    elif t == "inlineStr":
                        isel = c.find(M + "is")
                        if isel is not None:
                            txt, rich, runs = text_of_si(isel)
                        else:
                            txt, rich, runs = "", False, []
                        cell["kind"] = "s"
                        cell["value"] = txt
                        cell["rich"] = rich
                        if rich:
                            cell["runs"] = runs
                    elif t == "b":
                        cell["kind"] = "b"
                        cell["value"] = "TRUE" if (vtext or "").strip() in ("1", "true") else "FALSE"
                    elif t == "e":
                        cell["kind"] = "e"
                        cell["value"] = vtext or ""
                    else:  # n
                        if vtext is not None and vtext.strip() != "":
                            cell["kind"] = "n"
                            cell["value"] = vtext.strip()
                            cell["bits"] = f64_bits(vtext.strip())
                        else:
                            cell["kind"] = ""
                            cell["value"] = ""
                    sidx = c.get("s")
                    cell["s"] = int(sidx) if sidx is not None and sidx.isdigit() else None
                    if want_styles:
                        cell["style"] = resolve_style(wbk.styles, cell["s"] if cell["s"] is not None else 0)
                    sh["cells"][ckey(col, crow)] = cell
        cols = root.find(M + "cols")
        if cols is not None:
            for c in cols.findall(M + "col"):
                try:
                    mn, mx = int(c.get("min")), int(c.get("max"))
                except Exception:
                    continue
                for ci in range(mn, min(mx, 16384) + 1):
                    if mx - mn > 64 and ci > mn + 64:
                        break
                    ent = {"width": c.get("width"), "hidden": c.get("hidden", "0") in ("1", "true"), "s": c.get("style"), "best_fit": c.get("bestFit", "0") in ("1", "true")}
                    if want_styles and ent["s"] is not None:
                        ent["style"] = resolve_style(wbk.styles, int(ent["s"]))
                    sh["cols"]["%05d" % ci] = ent
        mc = root.find(M + "mergeCells")
        if mc is not None:
            sh["merges"] = sorted(m.get("ref") for m in mc.findall(M + "mergeCell"))
        hl = root.find(M + "hyperlinks")
        if hl is not None:
            for h in hl.findall(M + "hyperlink"):
                ref = h.get("ref") or ""
                first = ref.split(":")[0]
                pc = parse_cell_ref(first)
                rid = h.get(R + "id")
                loc = h.get("location")
                tgt = None
                if rid is not None and rid in rels:
                    tgt = rels[rid]["target"]
                key = ckey(*pc) if pc else ref
                n = 1
                k2 = key
                while k2 in sh["links"]:
                    n += 1
                    k2 = "%s#%d" % (key, n)
                sh["links"][k2] = {"ref": ref, "target": tgt, "location": loc, "rid": rid, "tooltip": h.get("tooltip")}
        af = root.find(M + "autoFilter")
        sh["filter"] = af.get("ref") if af is not None else None
        sh["cf"] = [{"sqref": cf.get("sqref"), "rules": len(cf.findall(M + "cfRule"))} for cf in root.findall(M + "conditionalFormatting")]
        dv = root.find(M + "dataValidations")
        sh["dv"] = [d.get("sqref") for d in dv.findall(M + "dataValidation")] if dv is not None else []
    return out
