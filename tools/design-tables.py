#!/usr/bin/env python3
"""Prints the markdown tables of DESIGN.md section 10.5 from the sweep logs and seeded/*/lead.json."""
import json, glob, os, re
print("#### (a) hand-written mutants (`mutants/<Cxx>/*.diff`, `tools/mutant-sweep` against the repaired tree)\n")
print("| check | mutant | result |\n|---|---|---|")
def table(logs, ok=lambda p: True, mutants=False):
    hist={}
    for log in logs:
        if os.path.exists(log):
            for l in open(log):
                p=l.split(None,2)
                if len(p)==3 and ok(p):
                    h=hist.setdefault((p[0],p[1]),[])
                    if not h or h[-1]!=p[2].strip(): h.append(p[2].strip())
    gone=0
    for (a,b),h in hist.items():
        if mutants:
            # only mutants whose file still exists (stale ones were rewritten as *-b / *-c); the LAST result counts
            f='/verif/mutants/%s/%s'%(a,b if b.endswith('.diff') else b+'.diff')
            if not os.path.exists(f):
                gone+=1
                continue
            first=h[0]; last=h[-1]
            txt = last if len(h)==1 or first.split()[0]==last.split()[0] else "%s (first sweep: %s)"%(last,first)
            if any(x.startswith("MISSED (RESULT") and "exit=2" in x for x in h[:-1]) and last.startswith("DETECTED"):
                txt = "DETECTED (one sweep in between answered exit 2: the harness itself was being rebuilt)"
            print("| %s | %s | %s |"%(a,b.replace('.diff',''),txt))
        else:
            print("| %s | %s | %s |"%(a,b.replace('.diff',''),"  → after strengthening: ".join(h)))
    if gone:
        print("\n(%d mutants of the first sweep no longer apply to the repaired tree and were rewritten as `*-b.diff` / `*-c.diff`; one became equivalent and is kept as `*.benign-*.diff`.)"%gone)
table(['/verif/mutants/sweep-results/mutant-sweep.log','/verif/mutants/sweep-results/mutant-sweep2.log','/verif/mutants/sweep-results/mutant-extra.log','/verif/mutants/sweep-results/mutant-sweep3.log'], mutants=True)
print("\n#### (b) every `fix:` commit reverted (`tools/regress-sweep`): the defect is re-introduced in a scratch worktree\n")
print("| reverted fix | check | result |\n|---|---|---|")
table(['/verif/mutants/sweep-results/regress.log','/verif/mutants/sweep-results/regress2.log','/verif/mutants/sweep-results/regress-manual.log','/verif/mutants/sweep-results/regress3.log','/verif/mutants/sweep-results/regress4.log','/verif/mutants/sweep-results/regress5.log','/verif/mutants/sweep-results/regress6.log','/verif/mutants/sweep-results/regress-manual2.log','/verif/mutants/sweep-results/regress7.log','/verif/mutants/sweep-results/regress-manual3.log'], lambda p: p[2].startswith(('DETECTED','MISSED')))
print("\n#### (c) independently seeded changes (`seeded/<id>/`)\n")
print(open('/verif/seeded/SUMMARY.md').read().split('\n\n',2)[2])
