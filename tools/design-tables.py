#!/usr/bin/env python3
"""Prints the markdown tables of DESIGN.md section 10.5 from the sweep logs and seeded/*/lead.json."""
import json, glob, os, re
print("#### (a) hand-written mutants (`mutants/<Cxx>/*.diff`, `tools/mutant-sweep` against the repaired tree)\n")
print("| check | mutant | result |\n|---|---|---|")
def table(logs, ok=lambda p: True):
    hist={}
    for log in logs:
        if os.path.exists(log):
            for l in open(log):
                p=l.split(None,2)
                if len(p)==3 and ok(p):
                    h=hist.setdefault((p[0],p[1]),[])
                    if p[2].strip() not in h: h.append(p[2].strip())
    for (a,b),h in hist.items():
        print("| %s | %s | %s |"%(a,b.replace('.diff',''),"  → after strengthening: ".join(h)))
table(['/verif/mutants/sweep-results/mutant-sweep.log','/verif/mutants/sweep-results/mutant-extra.log'])
print("\n#### (b) every `fix:` commit reverted (`tools/regress-sweep`): the defect is re-introduced in a scratch worktree\n")
print("| reverted fix | check | result |\n|---|---|---|")
table(['/verif/mutants/sweep-results/regress.log','/verif/mutants/sweep-results/regress2.log','/verif/mutants/sweep-results/regress-manual.log','/verif/mutants/sweep-results/regress3.log','/verif/mutants/sweep-results/regress4.log','/verif/mutants/sweep-results/regress-manual2.log'], lambda p: p[2].startswith(('DETECTED','MISSED')))
print("\n#### (c) independently seeded changes (`seeded/<id>/`)\n")
print(open('/verif/seeded/SUMMARY.md').read().split('\n\n',2)[2])
