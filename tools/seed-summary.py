#!/usr/bin/env python3
"""Summarise seeded/<id>/: writes seeded/<id>/lead.json (what the lead ran and saw) and seeded/SUMMARY.md."""
import json, os, re, glob
NOTES = {
 "C08-seed2": "missed by the check as it stood (exit 0: all formulas were ordinary cells, none a shared-formula child holding only view text); caught after the `shared` space (shared-formula groups on the edited and on other sheets) was added",
 "C02-seed2": "the lattice as it stood put its 8 external links in G1..G8, where row-major order and the order of the A1 strings coincide; caught after the layout got 12 links in column G plus links on AB1 and B2 (validator/decoder clause decoder-hyperlinks link-target-of-sibling); C06 (12 links) caught it as it stood",
 "C06-seed2": "not reachable by C06 (its workbooks are never opened lazily); caught by C11 (edit of a later sheet while an earlier commented sheet stays raw: saved-content-equals-eager)",
 "C03-seed2": "the generator as it stood never put white space between tags; caught by the new pretty-printed family `enc-indented`",
 "C05-seed2": "C05 as it stood never moved a style object between workbooks; caught by the new `transfer` space",
 "C04-seed2": "missed by C04 as it stood (exit 0: every edit hit an existing cell or a column right of all column entries) but caught by C05 (dims space); C04 catches it since the loaded special `column-entries-with-gap` and the edit position 'first column without an entry left of one' were added",
 "C02-seed3": "not reachable by C02 as it stood (needs a lazily opened workbook with an unloaded sheet in front of an edited one): caught by C11 as it stood; C02 now has the `lazy-corpus` space (lazy load, edit first/last sheet, eager twin as model)",
 "C04-seed3": "not reachable by C04 (its sources are loaded eagerly): caught by C11 as it stood (numbered parts of a materialised sheet collide with those of unloaded sheets)",
 "C05-seed3": "missed by C05 as it stood when the seed arrived (no case formatted NEW cells of a reloaded workbook with a style rebuilt from scratch that the file already contains); caught by the `second-session` space that was added for it (twin oracle; the out-of-range xf index also makes the reload panic)",
 "C06-seed3": "missed by C06 as it stood (sheets were only removed by index); caught after the sheet operations `remove-first-by-name`, `remove-middle-by-name` and `remove-middle` were added",
 "C01-seed3": "caught by C01 as it stood (formula with an error-kind cached result in the value alphabet)",
 "C03-seed3": "not reachable by C03 (needs a clone of a lazily opened workbook and a particular order of materialisation): caught by C12 (missing-string after reload-lazy + clone) and by C11 as they stood",
 "C08-seed3": "not reachable by C08 (its workbooks are built, never lazily opened): caught by C11 as it stood (workbook-level insert while a referring sheet is unloaded: saved-content-equals-eager)",
 "C09-seed3": "missed by C09 and C03 as they stood (every formula was entered with set_formula; none was a shared-formula child as the reader leaves it); caught since the `loaded-child` space (masters of the whole quick grammar at C2, child C3 read back from a saved file, identity + 6 moves) was added",
 "C13-seed3": "missed by C13 as it stood (exit 0: every scenario ran ONE save; the change makes two saves with the same stem share one temporary file); caught since the `overlap` space was added (save A suspended at the hook points after it created its temporary file, save B to a sibling destination run to completion there: B reports success but its destination holds A's archive / is missing)",
 "C16-seed3": "missed by C16 and C12 as they stood (exit 0: every lazily opened workbook of the configurations had its first sheet materialised - and with it the string table touched - before the savers started); caught since the configurations `2-lazy-clones-never-touched` and `2-lazy-savers-same-object-never-touched` were added (the deferred first access now happens inside the concurrent saves; all 252 interleavings each)",
 "C12-seed3": "caught by C12 as it stood (foreign-string / removed-row histories) and by C07 (cells of a removed tail band survive)",
 "C10-seed3": "caught by C10 as it stood (save-emission: a cell whose row the writer does not know)",
 "C17-seed3": "missed by C17 as it stood (exit 0: every case parsed into a fresh object); caught since the `reuse` space (every ordered pair of texts parsed into the SAME Coordinate / Range / Address object, fresh-object twin) was added - the same space found the genuine defect C17-K4 in Range::set_range on the unchanged tree",
 "C19-seed3": "missed by C19 as it stood (exit 0: the only text carrier was a plain set_value_string cell); caught since the `text` space also shows each text as the cached result of a formula and as the reader leaves both kinds of cell (shared string, t=str with formula)",
 "C20-seed3": "missed by C20 as it stood (exit 0: every sheet was only filled, never had a cell removed) but caught by C10 (by-column index); C20 catches it since the written-then-removed histories were added",
 "C15-seed3": "caught by C15 as it stood (salt freshness across the whole run: call n repeats the salt of call n-16)",
 "C14-seed3": "caught by C14 as it stood (freshness of salts / keys across the run)",
 "C18-seed3": "a race between two threads inside a newly introduced, unhooked RwLock-protected memo: outside what the exhaustive engines can own (no scheduling point). Missed by C18 as it stood; reported since the SUPPLEMENTARY free-running pass `display~par` (4 cases at the same time; sampled interleavings, absolute oracle) was added - a detection by sampling, stated as such",
 "C11-seed3": "caught by C11 as it stood (the explorer clones the workbook per node, and clones share the loaded string table); C11 now also has the explicit operation `fork`; C12 missed it (its histories materialise sheets one by one, never through read_sheet_collection)",
 "C02-seed4": "missed by C02 as it stood (exit 0: no workbook went through cleanup() before the save) but caught by C10 (save-emission); C02 catches it since the `post-ops` space was added",
 "C03-seed4": "caught by C03 as it stood (corpus: issue_162.xlsx holds a sheet-scoped name that points at another sheet)",
 "C04-seed4": "missed by C04 and C02 as they stood (no sheet carried both OLE objects and a table); caught by C02 since the `corpus-second-session` space (every corpus file gets a table / comment / link on every sheet) and the relationship-type check for oleObject were added - the same space found the genuine defect C02-K4 (tableParts written in front of oleObjects) on the unchanged tree; after its repair f0c38c3 the seed no longer applies",
 "C05-seed4": "caught by C05 as it stood (dims space: hole in the column entries followed by a repeat)",
 "C06-seed4": "missed by C06 as it stood (comment authors cycled A, B, empty); caught since the author sequence interleaves (A, B, A, C, ...)",
 "C08-seed4": "caught by C08 as it stood (core formulas with qualified intersections and depth-3 histories, added for f0290bf); C09 is not concerned",
 "C09-seed4": "missed by C09 as it stood (only an INSERT on another sheet was an identity path, and no formula sat on the sheet its qualified references name) but caught by C08; C09 catches it since the clause identity-edits-on-other-sheet was added",
 "C13-seed4": "missed by C13 as it stood (exit 0: every destination was a plain file); caught since the target scenarios dest-is-symlink / dest-is-hardlinked (healthy and under a write fault) were added",
 "C16-seed4": "caught by C16 as it stood (3-saver configurations, preemption bound 2)",
 "C17-seed4": "caught by C17 as it stood (complete enumeration of all 16384 columns)",
 "C19-seed4": "missed by C19 as it stood (exit 0: only finite numbers were formatted); caught since every case of the families space starts with a prelude of NaN / inf / non-numeric values under percent and decimal patterns",
 "C20-seed4": "caught by C20 as it stood (special value dquote / apos at the end of a value)",
 "C01-seed4": "missed by C01 and C03 as they stood (no cell got a text FIRST and a formula afterwards, which is what makes the writer emit <v></v>); caught since the value alphabet has text-then-formula cells (\"\", \" \", 007, abc) - pairs space, same row",
 "C07-seed4": "caught by C07 as it stood (columns first touched right-to-left in the seeded states)",
 "C10-seed4": "caught by C10 as it stood",
 "C11-seed4": "missed by C11's quick tier as it stood (needs a loaded string table with duplicate <si> entries; the only such corpus file, aaa.xlsx, is thorough-tier); caught since the generator family `multi` (several sheets over one table with duplicate and unused entries) feeds C11 as `foreign:` initial files (and C03)",
 "C12-seed4": "caught by C12 as it stood (foreign-string after saving another workbook on the same thread)",
 "C14-seed4": "caught by C14 as it stood (package sizes around the 16-byte block and 4096-byte segment boundaries)",
 "C15-seed4": "caught by C15 as it stood (shorter password after a longer one: descending pass and mixed-length alphabet)",
 "C18-seed4": "missed by C18 and C19 as they stood (every date code had one section); caught since two conditional two-section codes ([<1]h:mm:ss;yyyy-mm-dd ...) are displayed for dates after a prelude that shows times of day under the same codes",
 "C01-seed5": "caught by C01 as it stood (texts with a carriage return and no XML-special character in the atom alphabet) and by C02",
 "C02-seed5": "caught by C02 as it stood (special string cdata-end in every text channel; the independent reader is a strict XML parser)",
 "C03-seed5": "missed by C03 as it stood (the r-less rows of the generator always followed rows that hold a cell); caught since the case `row-without-r-after-empty-rows` was added",
 "C04-seed5": "missed by C04 and C05 as they stood (no loaded state carried a custom number format and no edit introduced a new one); caught since the styles feature of the builders uses two custom format codes and the set-style edit adds a third",
 "C05-seed5": "missed by C05 as it stood (its pairs of variations never touch the same attribute twice, and the twin of edit-after-load runs through the same accessor); caught since the `overwrite-same-attribute` space (every ordered pair of values of one attribute applied to one style object; memory == reload) was added",
 "C06-seed5": "missed by C06 as it stood (merges and links never shared a cell); caught since the kind `links-on-merged-cells` was added",
 "C07-seed5": "missed by C07 as it stood (no range addressed whole columns or whole rows); caught since the reference model and the annotated seed know one-axis ranges (C:D, 3:4, F:F as conditional-format ranges)",
 "C08-seed5": "missed by C08 and C09 as they stood (the grammar was pure ASCII); caught by both since two string literals outside ASCII (2-, 3- and 4-byte characters) are leaves",
 "C09-seed5": "missed by C09 as it stood (no identity path inserted rows next to whole-column references) but caught by C08; C09 catches it since the clause identity-insert-on-the-other-axis was added",
 "C10-seed5": "missed by C10 as it stood (every coordinate was below row 30); caught since the `magnitudes` space (cells at rows beyond 16384, 65536, 10^6 and at column 16000; 10-operation alphabet without the operations that fill whole rows/columns) was added",
 "C11-seed5": "MISSED and not answered: the change removes failure-atomicity (a sheet whose materialisation panics half-way is afterwards treated as loaded); it needs a valid file that makes the reader panic. The seed used a linked picture (<a:blip r:link>), which was a genuine reader defect of its own (C03-K7, repaired 65ea4d2: C03 now has that file); with it repaired no valid input of the alphabets makes a sheet access fail, and injecting a failure into the reader would need a hook inside the per-sheet parser. Recorded as a limit of the current machinery",
 "C12-seed5": "missed by C12 (its texts are plain) and by C01 as it stood; caught by C01 since the value alphabet has font-less rich texts: two runs and one run spelling their concatenation with None / null / nothing / | in between",
 "C13-seed5": "caught by C13 as it stood (sink space: a no-fault case follows faulted ones in the same process); the explicit aftermath clause (healthy save after every faulted one) was added as well",
 "C14-seed5": "missed by C14 as it stood (every set_password source was a regular file); caught since the second save of every set_password case reads from a named pipe fed by another thread",
 "C15-seed5": "missed by C15 as it stood (the preset only planted a legacy hash); caught since the preset also plants a foreign verifier (SHA-256, 1000 spins, salt, hash) that set_password must replace consistently",
 "C16-seed5": "caught by C16 as it stood (configuration with a shared reference and a clone, hooks 10-12 added by the change itself)",
 "C17-seed5": "missed by C17 and C07 as they stood (no range was printed, moved by a structural edit and printed again); caught since the `range-history` space was added (merged / conditional-format / auto-filter range printed, sheet edited, printed again: the text must spell the corners the getters report)",
 "C18-seed5": "missed by C18 as it stood (no format code started with a quoted literal or had two adjacent ones); caught since three such codes are among the displayed formats",
 "C19-seed5": "caught by C19 as it stood (negative values below 1 under thousands-separator patterns)",
 "C20-seed5": "missed by C20 as it stood but caught by C13 (sink space); C20 catches it since every case starts with an export of a decoy sheet into a writer that refuses every byte",
 "C05-seed6": "missed by C05 as it stood (the hidden flag of a row only ever came together with a height and a style); caught since the dims space gives every column / row one of FIVE states, `hidden only` among them",
 "C06-seed6": "missed by C06 as it stood (its tab colour was always an rgb value) but caught by C04 (corpus files with theme tab colours); C06 catches it since the kind `tab-color-theme` (theme index + tint, no rgb) was added",
 "C01-seed7": "missed by C01 as it stood (no cell of its workbooks had anything attached to it); caught since the space `annotated` puts every core16 value at off-diagonal and diagonal positions with one annotation the reader applies in a pass of its own (hyperlink by URL / by location, comment, data validation, conditional format, merged block, link + comment), with and without a cell at the transposed position",
 "C03-seed7": "missed by C03 as it stood (attribute specials had no white space written as a character reference); caught since the attr family carries `Unit&#10;price`, `a&#9;b` and `a&#13;&#10;b` in the table-column, defined-name and cell-string channels (the decoder is ElementTree, which keeps referenced white space and normalises literal white space, as XML 1.0 3.3.3 says)",
 "C05-seed7": "missed by C05 as it stood (rotation values 1 and 45 only); caught since the rotation attribute takes 1, 45, 90, 180 and the sentinel 255 (stacked vertical text), 180 and 255 also in the collision family",
 "C06-seed7": "missed by C06 as it stood (workbook protection was one lock flag) but caught by C15 (revisions verifier); C06 catches it since the space `protection-fields` sets every SUBSET of the 13 workbook-protection fields (8191 cases, every field with a value of its own so that a neighbour's value shows) and every single field, pair of fields and all 21 fields of the sheet protection",
 "C07-seed7": "missed by C07 as it stood (no row or column DIMENSION of its seeds had a style, so a cell that wrongly inherits one could not show); caught since the dense, annotated and second-sheet seeds have styled row and column dimensions (with and without a height / width), the reference grid carries the style with the dimension through inserts and removals, and the observation reads it back",
 "C10-seed7": "missed by C10 as it stood (every move / copy / insert / remove of the alphabet had a non-zero argument); caught since the alphabet has the degenerate but legal calls move_range(.., 0, 0), copy_range(.., 0, 0), insert_new_row(p, 0) and remove_column(p, 0)",
 "C11-seed7": "missed by C11 (and C12, C02) as they stood: no initial file had a part reachable from two sheets; caught since (a) the generator family `multi` has the case shared-pivot-cache (two sheets whose pivot tables are built on one cache definition with its own .rels and records, what Excel writes for a copied pivot table), used by C11 as a `foreign:` initial file, and (b) the validator demands of EVERY part that each attribute in the relationships namespace (r:id, r:embed, r:link ...) names a relationship the part's own .rels declares",
 "C12-seed7": "missed by C12 as it stood (no history overwrote a text with the same characters) but caught by C01 (overwrite space: a text overwritten through set_value keeps the wrong kind); C12 catches it since the space `retyped` has the markers `2024 as text` and `2024 through set_value` (the cell then holds the number, the workbook no text at all): the string must be gone from the package",
 "C14-seed7": "missed by C14 (it injects no faults: every save of its spaces runs on a healthy file system) but caught by C13 as it stood, whose RLIMIT_FSIZE / failing-write enumeration covers the password savers and demands of every save that reports success a file that decrypts to the package; fault injection belongs to engine E4 and is not duplicated in C14",
 "C15-seed7": "missed by C15's quick tier as it stood (passwords with edge white space were thorough-tier only: `password ` and ` `); caught since the base alphabet of C14/C15 has ` edge blanks\\r\\n` (and the thorough one an ideographic space and a tab around CJK text)",
 "C16-seed7": "missed by C16 as it stood: no configuration had a chart over unloaded sheets, and all clones had the same sheet list; caught since the configuration 2-lazy-clones-chart-over-raw-sheets-one-without-first-sheet exists (a loaded sheet with a line chart over two still-unloaded sheets; clone B has removed the first sheet, so every sheet position differs between the clones) and its oracle compares every part that does not depend on string-registration order (everything but sharedStrings.xml and the sheet parts) byte for byte with what the same workbook writes when it saves alone",
 "C20-seed7": "missed by C20 as it stood (every non-ASCII word was representable in the selected encoding); caught since the sheet specifications `unmappable:1..6` put a text with four emoji - representable in no legacy encoding - into 1 to 6 cells with plain neighbours and two plain rows after them: what stands in for the characters is not pinned, but the field must still begin and end as the text does and every other field and record must be exact",
 "C01-seed8": "missed by C01 as it stood (no text looked like an escape); caught since the text atoms include `_x0041_`, `_x000D_` and `_x005F_`: text that LOOKS like the OOXML _xHHHH_ escape is still the user's text, character for character",
 "C02-seed8": "missed by C02 as it stood (every conditional-format rule of the builders set a colour, so no empty differential format ever arose); caught since every third rule of the cond-formats builder has an EMPTY style followed by colouring rules: dxfId must stay inside the dxfs table",
 "C03-seed8": "missed by C03 (and C05) as it stood: custom number formats of the style family had ids >= 164 only; caught since the cases numfmt-element-defines-id-14 / -44 carry a <numFmt> element whose id is one the library also has a built-in code for (non-US Excel and WPS write such entries): the file's code counts",
 "C04-seed8": "missed by C04 (and C06) as it stood: no sheet name needed quoting in a conditional-format reference; caught since the loaded special `apostrophe-sheet-in-cf-reference` has rules whose formula is a bare reference to the sheet `Bob's data` - the name doubled its apostrophes with every generation",
 "C05-seed8": "missed by C05 (and C04) as it stood: every edit followed a reload, so nothing a save leaves behind in the live object could matter; caught since the space `edit-between-saves` is `edit-after-load` without the reload - the workbook object that has just been saved is edited in place (font colour through get_font_mut().get_color_mut(), as the documentation shows) and saved again, twin oracle as before",
 "C06-seed8": "missed by C06 as it stood but caught by C04: (a) C06 only ever ADDED to a loaded workbook and (b) its annotation dump left the rule's format out. C06 catches it since the space `edit-loaded` removes the first / last loaded item, reverses the list or restyles the first rule (merges, names, comments, validations, conditional formats; 3 layouts) before saving again, and since every conditional-format rule of every dump carries a format tag (bold, background colour, font colour): which differential format a rule points at is part of the rule",
 "C07-seed8": "missed by C07 as it stood (two sheets with unrelated titles); caught since every seed has a third sheet, `SHEET1`, whose title differs from the first sheet's only in case - the library accepts that - with cells, a merge, a comment, a conditional format and dimensions of its own: an edit addressed to `Sheet1` by name leaves it untouched",
 "C10-seed8": "missed by C10 (and C07) as it stood: every cell handed to set_cell had a coordinate given as numbers; caught since the alphabet has set_cell with a cell whose Coordinate was given as the text `$B$3`, and the invariant `own-coordinate` also demands that a stored cell's coordinate carries no $ markers (it is a position, not a reference)",
 "C12-seed6": "missed by C12 as it stood (no cell of its histories was a formula) but caught by C11 (corpus files with text formulas); C12 catches it since the space `formula-text` runs the history tree with a marker that reaches its cell as the cached text of a formula (a t=\"str\" cell): its <v> must hold the text, and the text must not turn up in sharedStrings.xml",
 "C14-seed6": "missed by C14 as it stood (every save ran alone; the first verify.log entry shows `suspension-point-not-reached` only because the overlap space was already being written while the hook it needs was not yet in /repo - that is not a detection). Caught since (a) /repo has two guarded hook points inside helper::crypt::encrypt (compound file created / completely written; patch.diff is the change rebased onto that commit, patch-at-65ea4d2.diff the original) and (b) C14 has the space `overlap`: save A suspended at either point, save B (other entry point, other password, other package, same directory) run to completion there, both files judged for their OWN password and package - 3 x 2 x 3 cases, deterministic; C13's overlap space got the same two suspension points and an encrypted B",
 "C16-seed6": "NOT DECIDED by C16 as it stood within 20 minutes (run stopped by hand, exit 137 in the first verify.log entry): the change adds three lock operations per save, each with a hook point as the convention demands, and the COMPLETE exploration of the 2-saver configurations grows combinatorially with them. Caught in 4 s since C16 runs iterative context bounding: a first space with every completely explored configuration at <= 2 preemptions, and the engine skips the remaining spaces when a `first:` space already reports violations (patch.diff is the change rebased onto the commit that added hook sites 13/14, patch-at-65ea4d2.diff the original)",
 "C17-seed6": "missed by C17 as it stood: the change is a process-wide name table behind a std RwLock with a check-then-act race - correct for every input on one thread, which is all the property quantifies over and all an enumeration of inputs can see; the lock carries no hook, so the cooperative scheduler cannot own it. Reported since the columns space also runs as `columns~par` (4 cases at a time on free-running threads, cold process): SUPPLEMENTARY and sampled - it reported the change in 2 of 2 runs, but a clean `~par` pass proves nothing and is not part of the exhaustive claim",
 "C20-seed6": "missed by C20 as it stood (every text reached its cell through set_value_string); caught since the sheet specifications carry every text-bearing special value also as a rich text of one and of two runs, as the cached text of a formula and through auto-typed set_value (`carrier:*` specs)",
 "C09-seed2": "caught by C09 as it stood (translate clause: a reference leaving the grid followed by another reference) and by C03 (shared-edge family)",

 "C11-seed1": "missed by the check as it stood when the seed arrived (exit 0: no operation of the alphabet made a materialised sheet need a NEW numbered dependent part); caught after the edit operation also adds a comment (clause saved-content-equals-eager, the unloaded sheet's comments are replaced)",
 "C01-seed2": "missed by C01 as it stood (exit 0: C01 built workbooks with direct setters only) but caught by C10 (save-emission); C01 catches it since the `built` space (cells placed by move/copy/insert/remove) was added",
 "C16-seed2": "C16 as it stood answered exit 2 (cannot decide: the change adds a lock operation on the shared table without a hook); C16 now still explores and reports violations found at the hooked points (exit 1 through the configuration `2-lazy-clones-one-fully-materialised`), and only refuses to certify ABSENCE of violations; C12 caught it as it stood",
 "C12-seed2": "caught by C12 as it stood (missing-string / no-panic on reload-lazy histories with clones); see C16-seed2 for C16",

 "C02-seed1": "missed by the check as it stood when the seed arrived (exit 0: the lattice removed and renamed sheets but never added one after a removal); caught after `sheet-removed-renamed` also adds a sheet after the removal (validator clause sheet-id-dup)",
 "C03-seed1": "the generator as it stood only produced shared blocks whose master is the top-left cell, so no child reference left the sheet; caught by the new `shared-edge` family (master not left-most, grid edges)",
 "C05-seed1": "the colour alphabet as it stood had tint only on a theme colour; caught after adding near-duplicates that differ only in the tint of an rgb / indexed colour (font, fill, border)",
 "C08-seed1": "missed by the check as it stood (exit 0: all generated ranges were written top-left:bottom-right); caught after adding two reversed-corner range shapes to the grammar",
 "C13-seed1": "the targets space as it stood had a stale temp file only in a read-only directory; caught by the new scenario `stale-longer-temp-exists` (healthy save over a longer leftover temp file)",
 "C16-seed1": "the configurations as they stood only used fully loaded workbooks; caught after adding lazily opened workbooks with an unloaded sheet (the path that still touches the shared table)",
 "C04-seed1": "caught by C04 (rich and plain cell with equal text now part of the base cells of every generated workbook) and independently by C01 (pairs space: rich 'a' next to plain 'a')",
 "C06-seed1": "caught after one of the 12 external links of the ext-links kind got an empty URL (tooltip-only link)",
}
rows = []
for d in sorted(glob.glob('/verif/seeded/*/')):
    name = os.path.basename(d.rstrip('/'))
    log = os.path.join(d, 'verify.log')
    if not os.path.exists(log):
        continue
    txt = open(log).read()
    sec = re.split(r'^== ', txt, flags=re.M)
    def res(title):
        for s in sec:
            if s.startswith(title):
                return re.findall(r'test result: (\w+)\. (\d+) passed; (\d+) failed', s)
        return []
    wo, wi, suite = res('demo WITHOUT'), res('demo WITH the'), res('repository suite')
    # a later single-threaded re-run (appended by the lead) supersedes the first one
    wo2, wi2 = res('demo WITHOUT the change (single-threaded)'), res('demo WITH the change (single-threaded)')
    if wo2 and wi2:
        wo, wi = wo2, wi2
    # a result the lead has voided (annotated on the next line) counts as a miss
    txt = re.sub(r'^RESULT (\S+) tier=(\S+) exit=\d+\nVOID-COUNTS-AS-MISSED', r'RESULT \1 tier=\2 exit=0\nVOID-COUNTS-AS-MISSED', txt, flags=re.M)
    ours = re.findall(r'^RESULT (\S+) tier=(\S+) exit=(\d+)', txt, flags=re.M)
    clauses = sorted(set(re.findall(r'clause=(\S+) symptom=(\S+)', txt)))[:6]
    meta = {}
    try:
        meta = json.load(open(os.path.join(d, 'meta.json')))
    except Exception:
        pass
    lead = {
        "seed": name, "property": meta.get("property", name[:3]),
        "demo_without_change": wo, "demo_with_change": wi, "repository_suite_with_change": suite,
        "confirmed": bool(wo and wo[-1][0] == 'ok' and wi and wi[-1][0] == 'FAILED' and suite and all(int(x[1]) in (17, 78) for x in suite if int(x[1]) > 5)),
        "our_checks": [{"check": c, "tier": t, "exit": int(e), "detected": e == '1'} for c, t, e in ours],
        "violation_classes_seen": [{"clause": c, "symptom": s} for c, s in clauses],
        "note": NOTES.get(name, "caught by the check as it stood when the seed arrived"),
        "what_we_ran": "tools/seed-verify: demo without / with the change in the seeding agent's scratch worktree, the repository's own suite with the change, then tools/mutant-run with the listed checks (quick tier) in a fresh scratch worktree",
    }
    json.dump(lead, open(os.path.join(d, 'lead.json'), 'w'), indent=1)
    det = ", ".join("%s:%s" % (o["check"], "DETECTED" if o["detected"] else "missed") for o in lead["our_checks"])
    rows.append("| %s | %s | %s | %s | %s |" % (name, (meta.get("title") or "")[:90].replace("|", "/"), "yes" if lead["confirmed"] else "CHECK", det, lead["note"][:160].replace("|", "/")))
open('/verif/seeded/SUMMARY.md', 'w').write("# Independently seeded property-breaking changes\n\nEach directory holds patch.diff, the seeding agent's demonstration (demo.rs, agent_demo_output.txt), its meta.json, our verify.log and lead.json.\n\n| seed | change | confirmed (demo fails with / passes without, suite unchanged) | our checks | note |\n|---|---|---|---|---|\n" + "\n".join(rows) + "\n")
print("\n".join(rows))
