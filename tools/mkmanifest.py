#!/usr/bin/env python3
"""Regenerate /verif/MANIFEST.json from the table below (keeps it schema-valid at all times)."""
import json, subprocess
ids=[json.loads(l)['id'] for l in open('/verif/properties.jsonl')]
CHECKS = {
 "C01": dict(level="exploration", engine="E1", design="3 C01",
   technique="bounded-exhaustive enumeration of value x position x writer alphabets; oracle = pre-save content dump equals post-reload dump",
   text="Every workbook of 1-3 cells over the stated value alphabet (texts of <=2/3 atoms from a 19-atom XML/whitespace/Unicode alphabet, threshold floats and the m*10^e grid, booleans, errors, rich runs, formulas x cached results of every kind) at 9 grid positions is saved by both writers and reloaded; all ordered pairs of a 70-value core cover interning and typing interactions.",
   note="Trusted: the library's public getters used by the dump. Texts beyond 3 atoms / f64 outside the grid are outside the bound (small-scope argument in DESIGN 2.1)."),
 "C02": dict(level="exploration", engine="E1+P", design="3 C02",
   technique="bounded-exhaustive enumeration of feature-subset lattice, escape-channel product and re-saved corpus; oracle = independent Python OPC/SpreadsheetML validator + decoder",
   text="Every package of the feature lattice (2^11 subsets thorough, size<=2 and co-size<=1 quick) x writers x macro, every escape channel x special string, and every re-saved corpus file is validated and decoded by an independent stdlib-only Python reader and compared with the in-memory model.",
   note="Trusted: pyref/xlsx_ref.py (zipfile + expat) as the independent reader; it implements the subset of ECMA-376 named in DESIGN 2.5."),
 "C03": dict(level="exploration", engine="E1+P", design="3 C03",
   technique="bounded-exhaustive enumeration of a grammar-enumerating xlsx generator (cell encodings, shared-formula blocks, entity channels, optional attributes, style resolution) plus the corpus; three-way oracle generator intent == independent decoder == library dump",
   text="Every file of the enumerating generator (867 files: 15 payloads x 27 encodings, 756 shared-formula blocks with every child offset, 70 attribute-channel cases, 12 optional-attribute cases, 14 style-resolution cases) and every corpus file is loaded by the library and compared with what an independent stdlib-only Python decoder (and, for generated files, the generator's own record of what it encoded) says the file means; a disagreement between the two references is a machinery error, never a verdict.",
   note="Trusted: pyref/xlsx_gen.py and pyref/xlsx_ref.py agree by construction on every generated file (checked on every run). Producer quirks outside the grammar are outside the alphabet."),
 "C04": dict(level="model_checking", engine="E2", design="3 C04",
   technique="exhaustive enumeration of histories over {save+reload, single-cell edit} (depth <=3) from every corpus file and every generated workbook; oracle = full normalised dump equality across generations, edit locality, save-twice equality",
   text="From every initial state (corpus file, lattice workbook, channel workbook): S, SS, SSS generations must be a fixed point and equal the original under the stated normalisations; every single-cell edit (4 kinds, every cell up to a stated cap + last + fresh position) followed by save+reload may change only that cell and its row/column entry; two saves of one workbook have the same parts and reload to the same content.",
   note="Trusted: the public-getter dump (harness/src/dump.rs) as 'everything the library models'. Edit enumeration is capped per sheet and by a per-source time budget (both reported)."),
 "C05": dict(level="exploration", engine="E1+P", design="3 C05",
   technique="bounded-exhaustive enumeration of a style alphabet (all 1- and 2-attribute variations + collision family), all ordered pairs and all-at-once workbooks in both orders; oracle = effective style projection equality, table sizes via independent decoder",
   text="Every ordered pair of single-attribute style variations in a two-cell workbook, whole style sets (sigma1, sigma2, separator-collision family) in one workbook in forward and reverse order (covers every earlier/later interning pair), and every 4-state assignment to columns 1..5 / rows 1..3 are saved and reloaded; the field-by-field effective projection must be unchanged and the style tables must not grow between generations 2 and 3.",
   note="Trusted: public style getters; 'never set' == default component as shown by two control cells of the same reloaded workbook; Python decoder for table sizes."),
 "C06": dict(level="exploration", engine="E1", design="3 C06",
   technique="bounded-exhaustive enumeration of annotation-kind subsets x counts x sheet layouts x sheet operations and of text channels x special strings; oracle = pre-save annotation dump equals post-reload dump keyed by cell",
   text="Each of 19 annotation kinds alone, every pair of kinds at every count combination {1,2,12}, all kinds at once, on 1- and 3-sheet workbooks, with sheet removal/rename/active-tab operations before save, plus every annotation text channel x 12 special strings; the annotation dump keyed by cell/range must be identical after reload.",
   note="Trusted: public getters. Defined names are compared by scope (global / sheet), not by the object that happens to hold them."),
 "C10": dict(level="model_checking", engine="E2", design="3 C10",
   technique="explicit-state breadth-first exploration of operation histories on the real Worksheet (cloned per node) with a brute-force scan oracle evaluated in every state, incl. save emission",
   text="BFS over a 47-operation alphabet (set/remove cell, styles by cell/range, insert/remove rows and columns, move/copy range, cleanup, copy row/column styling) from 4 seeded states to depth 3 (quick) / depth 4 full + depth 6 on a 12-op alphabet (thorough); in every reached state every lookup/iterator/index/dimension API is compared with a brute-force scan of the cell map, and the sheet is written and the emitted <c> set compared with the non-default cells.",
   note="Trusted: get_collection_to_hashmap() key set as the ground truth of 'existing cells'; the harness's sheet-XML scanner. Panicking operations yield no successor but the post-unwind object is still checked."),
 "C16": dict(level="model_checking", engine="E3", design="3 C16, 9.2",
   technique="stateless model checking of real threads: cooperative scheduler at hook points, DFS over schedules with iterative preemption bounding (complete for 2 savers)",
   text="Real OS threads run the real write_writer on shared/cloned workbooks; a hook before every shared-string-table lock operation parks the thread, the explorer owns the run token and enumerates ALL interleavings of 2 savers and all interleavings with <=2 (quick) / <=3 (thorough) preemptions of 3 savers; every saver's output of every schedule is reloaded and compared with its own workbook; deadlocks surface through a 20 s quiescence horizon, panics are verdicts; schedules are replayable and replay divergence is a machinery error.",
   note="Assumes shared state is touched only inside lock-protected sections between hook points (checked: every lock site in /repo/src must be preceded by a hook call, else exit 2). Memory-ordering effects below lock granularity are not modelled."),
 "C17": dict(level="exploration", engine="E1", design="3 C17",
   technique="bounded-exhaustive enumeration (complete finite domain) with independent reference codec",
   text="Complete enumeration of the finite codec domains (all columns, all 1-3 letter names, every row x boundary columns x lock patterns, all range shapes over boundary corners, all legal sheet names of <=3 atoms) against an independent base-26/quoting reference; the domain is finite, so exhaustion settles the property inside the stated sheet-name bound.",
   note="Trusted: the harness's 10-line bijective base-26 numeral and its quoted-address parser. Sheet names beyond 3 atoms only via five 31-character boundary names."),
}
ENGINES=[
 {"name":"E2","path":"harness/src/e2.rs","serves_properties":["C04","C07","C08","C10","C11","C12"],"kind_free_text":"explicit-state breadth-first explorer over real library objects cloned per node, lock-step reference model / invariant per transition, run inside pool cases (hang/crash attribution)"},
 {"name":"E3","path":"harness/src/c16.rs","serves_properties":["C16"],"kind_free_text":"cooperative scheduler over real threads (hook H1 in /repo, cfg umya_verif), DFS over choice sequences, preemption bounding, replay with divergence detection"},
 {"name":"P","path":"pyref/xlsx_ref.py","serves_properties":["C02","C03","C05","C11"],"kind_free_text":"independent OPC/SpreadsheetML validator + decoder, Python stdlib only"},
 {"name":"E1","path":"harness/src/pool.rs","serves_properties":[k for k,v in CHECKS.items() if v["engine"].startswith("E1")],"kind_free_text":"bounded-exhaustive input enumerator: deterministic indexed case spaces sharded over worker processes with per-case watchdog (hang/crash attribution)"},
]
hook_commits=[l.strip() for l in open('/verif/hook_commits.txt')] if __import__('os').path.exists('/verif/hook_commits.txt') else []
m={"version":1,
 "setup_cmd":"./bin/setup",
 "hooks":{"guard":"--cfg umya_verif","enable":"RUSTFLAGS=\"--cfg umya_verif\" set by bin/build when compiling /verif/harness, which depends on /repo by path (rebuilds the library from the working tree)","baseline_off_cmd":"cd /repo && cargo test --workspace --no-fail-fast --offline","source_commits":hook_commits,"add_only":True},
 "engines":ENGINES,
 "checks":[],
 "not_applicable":[],
 "notes":"All checks: ./bin/check <id> <tier>; exit 0 held (KNOWN-FINDING lines for entries of known_findings.json), 1 + VIOLATION line, >=2 machinery failure. Replays: ./bin/check --replay <file>."}
for i in ids:
    if i in CHECKS:
        c=CHECKS[i]
        m["checks"].append({"property_id":i,"quick_cmd":f"./bin/check {i} quick","thorough_cmd":f"./bin/check {i} thorough",
          "evidence_file":f"/verif/evidence/{i}.json","replay_cmd_template":"./bin/check --replay {path}","engine":c["engine"],
          "level_claimed":{"category":c["level"],"text":c["text"],"design_ref":"DESIGN.md section "+c["design"]},
          "level_note":c["note"],"technique":c["technique"]})
    else:
        m["not_applicable"].append({"property_id":i,"reason":"check under construction (no claim yet); design in DESIGN.md section 3"})
json.dump(m,open('/verif/MANIFEST.json','w'),indent=1)
print("checks:",[c["property_id"] for c in m["checks"]])
