#!/usr/bin/env python3
"""Regenerate /verif/MANIFEST.json from the table below (keeps it schema-valid at all times)."""
import json, subprocess
ids=[json.loads(l)['id'] for l in open('/verif/properties.jsonl')]
CHECKS = {
 "C01": dict(level="exploration", engine="E1", design="3 C01",
   technique="bounded-exhaustive enumeration of value x position x writer alphabets; oracle = pre-save content dump equals post-reload dump",
   text="Every workbook of 1-3 cells over the stated value alphabet (texts of <=2/3 atoms from a 19-atom XML/whitespace/Unicode alphabet, threshold floats and the m*10^e grid, booleans, errors, rich runs, formulas x cached results of every kind) at 9 grid positions is saved by both writers and reloaded; all ordered pairs of a 70-value core cover interning and typing interactions.",
   note="Trusted: the library's public getters used by the dump. Texts beyond 3 atoms / f64 outside the grid are outside the bound (small-scope argument in DESIGN 2.1)."),
 "C02": dict(level="exploration", engine="E1+P", design="3 C02",
   technique="bounded-exhaustive enumeration of feature-subset lattice, escape-channel product and re-saved corpus; oracle = independent Python OPC/SpreadsheetML validator + decoder",
   text="Every package of the feature lattice (2^11 subsets thorough, size<=2 and co-size<=1 quick) x writers x macro, every escape channel x special string, and every re-saved corpus file is validated and decoded by an independent stdlib-only Python reader and compared with the in-memory model.",
   note="Trusted: pyref/xlsx_ref.py (zipfile + expat) as the independent reader; it implements the subset of ECMA-376 named in DESIGN 2.5."),
 "C03": dict(level="exploration", engine="E1+P", design="3 C03",
   technique="bounded-exhaustive enumeration of a grammar-enumerating xlsx generator (cell encodings, shared-formula blocks, entity channels, optional attributes, style resolution) plus the corpus; three-way oracle generator intent == independent decoder == library dump",
   text="Every file of the enumerating generator (867 files: 15 payloads x 27 encodings, 756 shared-formula blocks with every child offset, 70 attribute-channel cases, 12 optional-attribute cases, 14 style-resolution cases) and every corpus file is loaded by the library and compared with what an independent stdlib-only Python decoder (and, for generated files, the generator's own record of what it encoded) says the file means; a disagreement between the two references is a machinery error, never a verdict.",
   note="Trusted: pyref/xlsx_gen.py and pyref/xlsx_ref.py agree by construction on every generated file (checked on every run). Producer quirks outside the grammar are outside the alphabet."),
 "C04": dict(level="model_checking", engine="E2", design="3 C04",
   technique="exhaustive enumeration of histories over {save+reload, single-cell edit} (depth <=3) from every corpus file and every generated workbook; oracle = full normalised dump equality across generations, edit locality, save-twice equality",
   text="From every initial state (corpus file, lattice workbook, channel workbook): S, SS, SSS generations must be a fixed point and equal the original under the stated normalisations; every single-cell edit (4 kinds, every cell up to a stated cap + last + fresh position) followed by save+reload may change only that cell and its row/column entry; two saves of one workbook have the same parts and reload to the same content.",
   note="Trusted: the public-getter dump (harness/src/dump.rs) as 'everything the library models'. Edit enumeration is capped per sheet and by a per-source time budget (both reported)."),
 "C05": dict(level="exploration", engine="E1+P", design="3 C05",
   technique="bounded-exhaustive enumeration of a style alphabet (all 1- and 2-attribute variations + collision family), all ordered pairs and all-at-once workbooks in both orders; oracle = effective style projection equality, table sizes via independent decoder",
   text="Every ordered pair of single-attribute style variations in a two-cell workbook, whole style sets (sigma1, sigma2, separator-collision family) in one workbook in forward and reverse order (covers every earlier/later interning pair), and every 4-state assignment to columns 1..5 / rows 1..3 are saved and reloaded; the field-by-field effective projection must be unchanged and the style tables must not grow between generations 2 and 3.",
   note="Trusted: public style getters; 'never set' == default component as shown by two control cells of the same reloaded workbook; Python decoder for table sizes."),
 "C06": dict(level="exploration", engine="E1", design="3 C06",
   technique="bounded-exhaustive enumeration of annotation-kind subsets x counts x sheet layouts x sheet operations and of text channels x special strings; oracle = pre-save annotation dump equals post-reload dump keyed by cell",
   text="Each of 19 annotation kinds alone, every pair of kinds at every count combination {1,2,12}, all kinds at once, on 1- and 3-sheet workbooks, with sheet removal/rename/active-tab operations before save, plus every annotation text channel x 12 special strings; the annotation dump keyed by cell/range must be identical after reload.",
   note="Trusted: public getters. Defined names are compared by scope (global / sheet), not by the object that happens to hold them."),
 "C07": dict(level="model_checking", engine="E2", design="3 C07, 9.3",
   technique="explicit-state breadth-first exploration of structural-edit histories on real workbooks stepped in lock-step with an independent reference grid model; conformance checked on every transition",
   text="BFS over 184 operations (sheet- and workbook-level insert/remove rows/columns with p in {1,2,3,5}, n in {1,2,4}; move/copy range; set/remove cell; insert-then-remove laws) from 4 seeded two-sheet states (empty, dense, annotated with partially overlapping merges/comments/links/CF/filter, grid limits): depth 2 full + depth 3 insert/remove (quick); depth 3 full, depth 5 on 26 ops, depth 10 on 4 ops (thorough). After every transition the dump of both sheets must conform to the reference grid (cells as points, rectangles as sets of cells), coordinates stay in the grid, nothing panics.",
   note="Trusted: harness/src/c07_refgrid.rs (library-free reference model; its closed forms are self-checked against literal set semantics before every run). After a reported divergence the model is re-synchronised to the real object."),
 "C08": dict(level="model_checking", engine="E2", design="3 C08, 9.3, 9.4",
   technique="exhaustive enumeration of (formula of the enumerated grammar, placement, insert/remove history) with an independent AST reference shifter and own lexer; every transition compared",
   text="Every formula of the enumerated expression grammar (<=2 leaves quick / <=3 leaves thorough, 63 leaf forms, 25 combinators, depth-6 chains) placed on each of 3 sheets, under every workbook-level insert/remove row/column history of length 1 (120 edits), length 2 on reduced sets and length 3-4 on a 40-formula core; plus defined names (global / sheet-scoped) and a chart series. Oracle: references designate the translated survivors or #REF!, everything else token-identical (own lexer), edits terminate (watchdog).",
   note="Trusted: harness/src/fgrammar.rs (AST renderer, lexer validated on every enumerated formula before each run, reference shifter). The tokenizer defects first recorded as known findings are all repaired in /repo (status fixed)."),
 "C09": dict(level="exploration", engine="E1", design="3 C09, 9.4",
   technique="bounded-exhaustive enumeration of the formula grammar x identity paths x coordinate moves with an own lexer and AST translator as oracle; per-case watchdog for termination",
   text="Every formula of the enumerated grammar (25k quick / 480k thorough) goes through three identity paths (set_coordinate to itself, far insert, insert on another sheet) and 24+ translations incl. grid edges; token sequences must be identical character for character (only insignificant blanks may differ) and translation must add (dc,dr) to exactly the non-$ parts or give #REF!; hangs are attributed to the formula by the worker watchdog.",
   note="Trusted: harness/src/fgrammar.rs. Formulas beyond 3 leaves / depth-6 chains are outside the bound."),
 "C10": dict(level="model_checking", engine="E2", design="3 C10",
   technique="explicit-state breadth-first exploration of operation histories on the real Worksheet (cloned per node) with a brute-force scan oracle evaluated in every state, incl. save emission",
   text="BFS over a 47-operation alphabet (set/remove cell, styles by cell/range, insert/remove rows and columns, move/copy range, cleanup, copy row/column styling) from 4 seeded states to depth 3 (quick) / depth 4 full + depth 6 on a 12-op alphabet (thorough); in every reached state every lookup/iterator/index/dimension API is compared with a brute-force scan of the cell map, and the sheet is written and the emitted <c> set compared with the non-default cells.",
   note="Trusted: get_collection_to_hashmap() key set as the ground truth of 'existing cells'; the harness's sheet-XML scanner. Panicking operations yield no successor but the post-unwind object is still checked."),
 "C11": dict(level="model_checking", engine="E2+P", design="3 C11",
   technique="explicit-state breadth-first exploration of access/edit histories on a lazily opened workbook stepped in lock-step with an eager twin of the same bytes; every save validated by the independent Python reader and compared with the twin's save",
   text="BFS over {read_sheet(i), read_sheet_collection, get_sheet_mut(i)+edit (text + a new comment, i.e. a new numbered dependent part), get_sheet_by_name_mut+styled number, set_sheet_name, workbook-level insert_new_row, new_sheet, remove_sheet, save} to depth 3 (quick) / 4 (thorough) from 12 generated 3-4-sheet workbooks with comments/links/tables/validations and from multi-sheet corpus files; after every step materialised sheets must equal the eager twin, the cell stream of unloaded sheets must equal the twin's cells; every save must succeed, pass the independent validator, reload, and reload equal to the twin's save sheet by sheet.",
   note="Trusted: the eager twin as reference (differential oracle) and pyref/xlsx_ref.py as validator. Saves are re-executed on freshly replayed objects (a save must not be run on an object other nodes were cloned from); the replay must reproduce the node key."),
 "C12": dict(level="model_checking", engine="E2", design="3 C12",
   technique="exhaustive enumeration of the history tree over {set/overwrite/delete text, remove row/sheet, clone, save, reload eager/lazy} with up to 3 workbook handles; every save's package decoded by an independent scanner and compared with the strings reachable from the saved handle",
   text="All histories of <=5 (quick) / <=6 (thorough) operations over up to three workbook handles (original, clones, reloaded copies) and a 4-marker text alphabet; at every save the multiset of strings in sharedStrings.xml and inline strings must equal the strings reachable from that handle's model, every text cell must show its own string in the file and after reload, and saving twice must give the same string content. Real objects are rebuilt by replaying the history before each save (a clone would share the table).",
   note="Trusted: harness/src/c12_pkg.rs (own zip + quick-xml package decoder). No state merging (history tree). One accepted limitation is recorded as known finding C12-K5 (raw sheets of a lazily opened book pin the loaded table)."),
 "C13": dict(level="fault_enumeration", engine="E4", design="3 C13, 2.4",
   technique="exhaustive fault/kill-point enumeration: failing sink at every write-call index x 4 modes; RLIMIT_FSIZE at every byte limit in a forked child; strace syscall-level error injection and SIGKILL at every syscall index of the save window",
   text="For 8 workloads (xlsx std/light below and above the 8 KiB buffer, 64 KB, csv small/big, password variants, set_password) x destination absent/pre-existing: (a) every write-call index of an in-memory sink fails in 4 modes; (b) every byte limit L (all L for the small workloads, boundaries for large ones in quick) via RLIMIT_FSIZE in a forked child; (c) every syscall of the save window (openat/write/close/rename, pairs with the cleanup unlink) gets each applicable errno injected by strace, and (d) SIGKILL at the entry of every such syscall; (e) unwritable targets. Oracle: Err or complete new file; an existing destination is byte-identical old or complete new; no panic.",
   note="Trusted: strace's when= counting (every injection run's trace is checked for the (INJECTED) marker inside the save window), the harness's own agile decryptor for encrypted outputs. Kill/observer granularity is the syscall boundary; encrypted workloads (about 6200 syscalls each) are strided with the strides stated in the evidence (exhaustive=false there)."),
 "C14": dict(level="exploration", engine="E1", design="3 C14",
   technique="bounded-exhaustive enumeration of password x package-size alphabets x 3 entry points, each saved twice; oracle = independent MS-OFFCRYPTO agile decryptor written from the specification",
   text="Passwords (empty, ASCII, 255 chars, non-ASCII, non-BMP, ...) x package sizes around the 16-byte block and 4096-byte segment boundaries through set_password, plus write_with_password(_light) on real workbooks; the harness's own agile decryptor must verify the verifier, decrypt to exactly the package bytes, verify the HMAC over the whole stream, reject wrong passwords, and see fresh salts/keys on every save and across the run.",
   note="Trusted: cfb crate as container parser and RustCrypto aes/cbc/sha2/hmac as primitives; the protocol is re-implemented and self-tested against published interoperability vectors before every run. Randomness quality is not decided (only distinctness)."),
 "C15": dict(level="exploration", engine="E1", design="3 C15",
   technique="bounded-exhaustive enumeration of password alphabet x 3 protection kinds x {model, reloaded model, saved XML}; oracle = own recomputation of the ECMA-376 password hash",
   text="Every password of the alphabet x sheet/workbook/revisions protection x presets x writers: the stored algorithm/salt/spin/hash must verify under the harness's own SHA-512 spin recomputation, a wrong password must not, salts are fresh per call and across the run, no clear-text or legacy hash remains in the model or in any inflated part, and all of it survives save/reload.",
   note="Trusted: sha2 crate; the construction order is validated against an Excel-written verifier in tests/test_files/book_lock.xlsx before every run."),
 "C16": dict(level="model_checking", engine="E3", design="3 C16, 9.2",
   technique="stateless model checking of real threads: cooperative scheduler at hook points, DFS over schedules with iterative preemption bounding (complete for 2 savers)",
   text="Real OS threads run the real write_writer on shared/cloned workbooks; a hook before every shared-string-table lock operation parks the thread, the explorer owns the run token and enumerates ALL interleavings of 2 savers and all interleavings with <=2 (quick) / <=3 (thorough) preemptions of 3 savers; every saver's output of every schedule is reloaded and compared with its own workbook; deadlocks surface through a 20 s quiescence horizon, panics are verdicts; schedules are replayable and replay divergence is a machinery error.",
   note="Assumes shared state is touched only inside lock-protected sections between hook points (checked: every lock site in /repo/src must be preceded by a hook call, else exit 2). Memory-ordering effects below lock granularity are not modelled."),
 "C18": dict(level="exploration", engine="E1", design="3 C18",
   technique="complete enumeration of the date domain (every day 1900-01-01..9999-12-31 x times of day, every second of representative days) against an independent civil-calendar algorithm",
   text="All 2,958,465 days x 5 times of day and every second of 8 representative days are converted to serials and back and compared with an independent days-from-civil reference (with the 1900 leap-day offset); serials must be strictly increasing; formatted display of date formats is checked on a stated subset (quick) / every day (thorough).",
   note="Trusted: the harness's own civil-calendar arithmetic (no chrono). Serial 60, serials < 1 and the 1904 system are out of scope."),
 "C19": dict(level="exploration", engine="E1", design="3 C19",
   technique="bounded-exhaustive enumeration of decimal values (<=3/4 significant digits x exponents, carry/tie families to 15 digits) x format patterns against an exact string big-decimal reference",
   text="Every +-d.ddd x 10^e value built from its decimal string x 14 fixed-decimal/thousands/percent patterns + General + every built-in format id is formatted through to_formatted_string and get_formatted_value and compared with exact half-away-from-zero decimal rounding on the shortest representation (reference cross-checked with Python decimal).",
   note="Trusted: harness/src/c19_ref.rs (string big-decimal). Known findings are partitioned by disjoint shape tags so that sub-families that are correct today stay sensitive."),
 "C20": dict(level="exploration", engine="E1", design="3 C20",
   technique="bounded-exhaustive enumeration of 3x3 sheet shapes x special values x all 60 option combinations; oracle = own per-encoding decoder + RFC-4180 parser must recover the grid",
   text="All 512 presence patterns of a 3x3 grid, each special value (delimiter, quotes, CR/LF, edge blanks, non-ASCII) at each position with neighbours absent/present, all ordered pairs of special values, multi-sheet workbooks with non-first active sheet, each exported under every encoding x trim x wrap combination; the decoded and parsed CSV must equal the grid of the active sheet.",
   note="Trusted: encoding_rs decoders (the library uses its encoders), the harness's UTF-16 decoder and RFC-4180 parser (self-checked before every run)."),
 "C17": dict(level="exploration", engine="E1", design="3 C17",
   technique="bounded-exhaustive enumeration (complete finite domain) with independent reference codec",
   text="Complete enumeration of the finite codec domains (all columns, all 1-3 letter names, every row x boundary columns x lock patterns, all range shapes over boundary corners, all legal sheet names of <=3 atoms) against an independent base-26/quoting reference; the domain is finite, so exhaustion settles the property inside the stated sheet-name bound.",
   note="Trusted: the harness's 10-line bijective base-26 numeral and its quoted-address parser. Sheet names beyond 3 atoms only via five 31-character boundary names."),
}

# spaces added after the first registration (see DESIGN 10.6)
CHECKS["C01"]["text"] += " Added: cells that reach their place through move/copy/insert/remove (built), and every sequence of 2 (thorough 3) writes into the SAME cell with and without a save+reload between the writes, where the reloaded content must also equal that of a workbook given only the last value (overwrite / history-independent)."
CHECKS["C03"]["text"] += " Added generator families: pretty-printed XML (white space between tags), shared-formula blocks at the grid edges with the master not top-left, optional r attributes on <row>/<c>, main namespace bound to a prefix (known finding C03-K6)."
CHECKS["C04"]["text"] += " Added initial states: loaded workbooks with a shared-formula group and with <cols> entries that leave a gap left of existing entries (the edit position 'first column without an entry left of one' is enumerated for every source)."
CHECKS["C05"]["text"] += " Added: style objects moved between reloaded workbooks (transfer) and two cells sharing one style of which one is edited in place after a reload, compared with a twin workbook given the final styles directly (edit-after-load)."
CHECKS["C06"]["text"] += " Added: every ordered pair (loaded kind, kind added after a reload, on the same or another sheet), and sheet removal by name / of a middle sheet."
CHECKS["C08"]["text"] += " Added: reversed-corner ranges, shared-formula groups whose children hold only view text, defined names and chart series as reference carriers."
CHECKS["C13"]["text"] += " Added: two overlapping path saves to different destinations with the same stem (save A suspended at the package writer's hook points after it created its temporary file, save B run to completion there), both judged by the same oracle."
CHECKS["C09"]["text"] += " Added: the translate clause on shared-formula children as the reader leaves them (masters of the whole quick grammar, children read back from a saved file)."
CHECKS["C02"]["text"] += " Added: every corpus file opened lazily, first or last sheet materialised and edited, decoded package compared with an eagerly loaded twin."
CHECKS["C11"]["text"] += " Added operation: fork (a clone of the lazily opened workbook is fully loaded, saved and dropped; clones share the loaded string table, the original must not notice)."
CHECKS["C19"]["text"] += " Added: every text also as the cached result of a formula and as the reader leaves it."
CHECKS["C01"]["text"] += " Added values: text-then-formula cells, font-less rich texts whose run keys collide."
CHECKS["C02"]["text"] += " Added: chart and picture features in the lattice (2^13 subsets), second-session and post-ops spaces, corpus files in a second session."
CHECKS["C03"]["text"] += " Added generator cases: r-less rows behind cell-less rows, linked picture, family `multi` (several sheets over one string table with duplicate and unused entries)."
CHECKS["C04"]["text"] += " Added: style / hyperlink / new-number-format edits; the dump covers pictures, charts and embedded objects."
CHECKS["C05"]["text"] += " Added: second-session and overwrite-same-attribute spaces."
CHECKS["C06"]["text"] += " Added kind: links on the corner cells of merged blocks; annotations are added in a scrambled order."
CHECKS["C07"]["text"] += " Added: one-axis ranges (C:D, 3:4) in the reference model and the annotated seed."
CHECKS["C08"]["text"] += " Added: string literals outside ASCII; qualified intersections in the core formulas."
CHECKS["C09"]["text"] += " Added clauses: identity under edits on another sheet (formula on the sheet its qualified references name) and under inserts along the axis its references do not have; string literals outside ASCII."
CHECKS["C10"]["text"] += " Added space `magnitudes`: cells at rows beyond 16384 / 65536 / 10^6 and column 16000 under a 10-operation alphabet."
CHECKS["C13"]["text"] += " Added: destinations that are symbolic links / hard-linked files; a healthy save after every faulted sink case."
CHECKS["C14"]["text"] += " Added: the second set_password save of every case reads its source from a named pipe."
CHECKS["C15"]["text"] += " Added: a foreign verifier (SHA-256, 1000 spins) planted before set_password."
CHECKS["C17"]["text"] += " Added space range-history: a merged / conditional-format / auto-filter range printed, moved by a structural edit and printed again."
CHECKS["C18"]["text"] += " Added formats: conditional two-section codes after a time-of-day prelude, codes with quoted literals in front / side by side / at the end."
CHECKS["C20"]["text"] += " Added: every case starts with an export into a writer that refuses every byte."
CHECKS["C20"]["text"] += " Added: every presence pattern with one more cell that was written and removed again (the highest used row/column is that of what is left)."
CHECKS["C07"]["text"] += " Added seeded states: the dense and the annotated sheet as the reader leaves them (saved and loaded)."
CHECKS["C16"]["text"] += " Added configurations: lazily opened workbooks that are never touched before the savers start."
CHECKS["C17"]["text"] += " Added space: every ordered pair of texts parsed into the SAME Coordinate / Range / Address object (fresh-object twin)."
CHECKS["C17"]["text"] += " Added clause: Worksheet::set_style_by_range as a public consumer of whole-row / whole-column range corners."
CHECKS["C12"]["text"] += " Added space formula-text: the history tree with a marker that reaches its cell as the cached text of a formula (a t=str cell whose <v> is the text itself and which must not add a shared string)."
CHECKS["C13"]["text"] += " The overlap space also suspends the password savers inside helper::crypt::encrypt (compound file created / completely written), has an encrypted save among the B saves, and reports any save of the pair that fails (nothing is injected there)."
CHECKS["C14"]["text"] += " Added space overlap: save A suspended at either hook point inside helper::crypt::encrypt, save B (another entry point, another password, another package, same directory) run to completion there on the same thread; both files judged with every clause for their OWN password and package (3 x 2 x 3 cases, deterministic)."
CHECKS["C16"]["text"] += " Iterative context bounding: a first space explores every completely-explored configuration with at most 2 preemptions; when it reports violations the complete pass is not run (recorded in caps_hit), so a change that multiplies the scheduling points is still answered in seconds."
CHECKS["C20"]["text"] += " Added: every text-bearing special value also as a rich text of one and two runs, as the cached text of a formula and through auto-typed set_value."
CHECKS["C01"]["text"] += " Added space annotated: every core16 value at off-diagonal / diagonal positions with one annotation the reader applies in a pass of its own (hyperlink, comment, validation, conditional format, merged block), with and without a cell at the transposed position."
CHECKS["C03"]["text"] += " The attr family also carries white space written as character references (&#10; &#9; &#13;&#10;) in the table-column, defined-name and cell-string channels."
CHECKS["C05"]["text"] += " Rotation values 1, 45, 90, 180 and the sentinel 255."
CHECKS["C06"]["text"] += " Added space protection-fields: every subset of the 13 workbook-protection fields (8191 cases, each field with its own value) and every single field, pair and all 21 fields of the sheet protection."
CHECKS["C07"]["text"] += " Row and column dimensions of the seeds carry styles of their own (with and without a height / width); the reference grid relocates the style with the dimension and the observation reads it back; cells that are set, moved or copied keep their own style."
CHECKS["C10"]["text"] += " The alphabet includes the degenerate calls move_range / copy_range by (0,0), insert_new_row(p, 0) and remove_column(p, 0)."
CHECKS["C11"]["text"] += " Added initial file foreign:multi[shared-pivot-cache] (two sheets whose pivot tables share one cache definition, its .rels and its records); the validator now resolves every r:* attribute of every part against that part's own relationships."
CHECKS["C12"]["text"] += " Added space retyped: the characters 2024 as text (set_value_string) and through the auto-typing setter (the cell then holds a number: the string must leave the package)."
CHECKS["C15"]["text"] += " The base password alphabet includes a password with white space at both ends (blank in front, CR LF behind)."
CHECKS["C14"]["text"] += " The base password alphabet includes a password with white space at both ends."
CHECKS["C16"]["text"] += " Added configuration: a lazily opened workbook whose loaded sheet has a chart over two unloaded sheets, saved by two clones with DIFFERENT sheet lists (one removed the first sheet); oracle: every part except sharedStrings.xml and the sheet parts is byte-identical to the solo save of the same workbook."
CHECKS["C20"]["text"] += " Added sheets with 1..6 cells whose text no legacy encoding can represent (the replacement is not pinned; structure and all other fields are)."
CHECKS["C01"]["text"] += " Text atoms include strings that look like the OOXML _xHHHH_ escape (_x0041_, _x000D_, _x005F_)."
CHECKS["C02"]["text"] += " Every third conditional-format rule of the builders has an empty differential format (dxfId must stay inside the dxfs table)."
CHECKS["C03"]["text"] += " The style family has <numFmt> elements on ids the library has built-in codes for (14, 44)."
CHECKS["C04"]["text"] += " Added loaded special: conditional-format rules whose formula is a bare reference to a sheet whose name contains an apostrophe."
CHECKS["C05"]["text"] += " Added space edit-between-saves: edit-after-load without the reload (the object that has just been saved is edited in place and saved again)."
CHECKS["C06"]["text"] += " Added space edit-loaded: the first / last loaded item removed, the list reversed, the first rule restyled (merges, names, comments, validations, conditional formats) before saving again; every conditional-format rule of the dump carries a format tag (bold, background, font colour)."
CHECKS["C07"]["text"] += " Every seed has a third sheet whose title differs from the first sheet's only in case."
CHECKS["C10"]["text"] += " The alphabet has set_cell with a cell whose coordinate was given as text with $ markers; a stored cell's coordinate must carry none."
CHECKS["C11"]["text"] += " Added operation copy_sheet_after_read_only_access (read_sheet, get_sheet(i).clone(), edit the owned copy, add_sheet)."
CHECKS["C13"]["text"] += " A complete xlsx must END with its end-of-central-directory record (the zip reader alone would accept a package followed by the tail of a longer stale file)."
CHECKS["C15"]["text"] += " Added cases object-replaced: a separate protection object with the case's password replaces one that already verified another password (set_sheet_protection / set_workbook_protection)."
CHECKS["C18"]["text"] += " Added sub-second instants (x.4, x.5, x.6, x.9 of the last second of every hour, half past) of the representative days: the displayed instant lies within one second of the serial's."
CHECKS["C20"]["text"] += " Every export is repeated through a healthy sink that accepts 7 bytes per call and must deliver the same bytes."
for _c in ("C17","C18","C19","C20"):
    CHECKS[_c]["text"] += " SUPPLEMENTARY (never part of the exhaustive claim): spaces named <id>~par run 4 consecutive cases at the same time on free-running threads - sampled interleavings, absolute oracles, so a report is a real wrong result while a clean pass proves nothing; it exists because a lock or cache introduced by a change carries no hook point for the cooperative scheduler."
for _c in ("C14","C15","C17","C18","C19","C20"):
    CHECKS[_c]["text"] += " Every case space is also run in DESCENDING case order (spaces named <id>~rev; quick tier of C18/C19: all but the largest space), so that library code with process-wide state (caches, memo tables, statics) meets every case after a different predecessor."
ENGINES=[
 {"name":"E4","path":"harness/src/c13.rs","serves_properties":["C13"],"kind_free_text":"fault and kill-point enumerator: failing io::Write sink, RLIMIT_FSIZE per byte in forked children, strace -e inject error/SIGKILL per syscall index"},
 {"name":"E2","path":"harness/src/e2.rs","serves_properties":["C04","C07","C08","C10","C11","C12"],"kind_free_text":"explicit-state breadth-first explorer over real library objects cloned per node, lock-step reference model / invariant per transition, run inside pool cases (hang/crash attribution)"},
 {"name":"E3","path":"harness/src/c16.rs","serves_properties":["C16"],"kind_free_text":"cooperative scheduler over real threads (hook H1 in /repo, cfg umya_verif), DFS over choice sequences, preemption bounding, replay with divergence detection"},
 {"name":"P","path":"pyref/xlsx_ref.py","serves_properties":["C02","C03","C05","C11"],"kind_free_text":"independent OPC/SpreadsheetML validator + decoder, Python stdlib only"},
 {"name":"E1","path":"harness/src/pool.rs","serves_properties":[k for k,v in CHECKS.items() if v["engine"].startswith("E1")],"kind_free_text":"bounded-exhaustive input enumerator: deterministic indexed case spaces sharded over worker processes with per-case watchdog (hang/crash attribution)"},
]
hook_commits=[l.strip() for l in open('/verif/hook_commits.txt')] if __import__('os').path.exists('/verif/hook_commits.txt') else []
m={"version":1,
 "setup_cmd":"./bin/setup",
 "hooks":{"guard":"--cfg umya_verif","enable":"RUSTFLAGS=\"--cfg umya_verif\" set by bin/build when compiling /verif/harness, which depends on /repo by path (rebuilds the library from the working tree)","baseline_off_cmd":"cd /repo && cargo test --workspace --no-fail-fast --offline","source_commits":hook_commits,"add_only":True},
 "engines":ENGINES,
 "checks":[],
 "not_applicable":[],
 "notes":"All checks: ./bin/check <id> <tier>; exit 0 held (KNOWN-FINDING lines for entries of known_findings.json), 1 + VIOLATION line, >=2 machinery failure. Replays: ./bin/check --replay <file>."}
for i in ids:
    if i in CHECKS:
        c=CHECKS[i]
        m["checks"].append({"property_id":i,"quick_cmd":f"./bin/check {i} quick","thorough_cmd":f"./bin/check {i} thorough",
          "evidence_file":f"/verif/evidence/{i}.json","replay_cmd_template":"./bin/check --replay {path}","engine":c["engine"],
          "level_claimed":{"category":c["level"],"text":c["text"],"design_ref":"DESIGN.md section "+c["design"]},
          "level_note":c["note"],"technique":c["technique"]})
    else:
        m["not_applicable"].append({"property_id":i,"reason":"check under construction (no claim yet); design in DESIGN.md section 3"})
json.dump(m,open('/verif/MANIFEST.json','w'),indent=1)
print("checks:",[c["property_id"] for c in m["checks"]])
