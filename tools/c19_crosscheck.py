#!/usr/bin/python3
"""Cross-check of the C19 reference (harness/src/c19_ref.rs) against Python's decimal module.
usage:  UV_C19_DUMP=/verif/.work/c19.dump <target>/release/uvcheck C19 quick ; tools/c19_crosscheck.py /verif/.work/c19.dump
Each dump line: value <TAB> pattern <TAB> expected <TAB> rounded-magnitude-is-zero"""
import sys
from decimal import Decimal, ROUND_HALF_UP, getcontext
getcontext().prec = 60
bad = n = 0
for line in open(sys.argv[1], encoding="utf-8"):
    val, pat, want, zero = line.rstrip("\n").split("\t")
    pct = pat.endswith("%")
    core = pat.rstrip("%")
    d = len(core.split(".")[1]) if "." in core else 0
    x = Decimal(val) * (100 if pct else 1)
    q = abs(x).quantize(Decimal(1).scaleb(-d), rounding=ROUND_HALF_UP)
    s = format(q, "f")
    ip, _, fp = s.partition(".")
    if core.startswith("#,"):
        ip = "{:,}".format(int(ip))
    txt = ip + ("." + fp if d else "") + ("%" if pct else "")
    if x < 0 and q != 0:
        txt = "-" + txt
    n += 1
    if txt != want or (q == 0) != (zero == "1"):
        bad += 1
        if bad <= 10:
            print("MISMATCH", val, pat, "reference:", want, "decimal:", txt)
print("%d reference values compared with decimal.quantize(ROUND_HALF_UP): %d mismatches" % (n, bad))
sys.exit(1 if bad else 0)
