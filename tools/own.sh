# source this: development build settings of the lead (everything except checks still being written by agents)
export UV_OWN="c01 c02 c03 c04 c05 c06 c07 c08 c09 c10 c12 c14 c15 c16 c17 c18 c19 c20 fgrammar pyref wbuild main common dump pool e1 e2"
export UV_TARGET=/verif/.target-me
export UV_OWN="$UV_OWN c11 c13"
