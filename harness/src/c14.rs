//! C14 — a file written with a password is an ECMA-376 agile-encryption compound file that an independent
//! implementation of MS-OFFCRYPTO decrypts, with that password only, to exactly the unencrypted package;
//! verifier and data-integrity HMAC verify; declared length = package length; random material is fresh.
use crate::common::*;
use crate::e1::*;
use crate::pool::*;
use serde_json::{json, Value};
use std::path::Path;

#[path = "c14_util.rs"]
pub mod util;
#[path = "c14_agile.rs"]
mod agile;

use util::*;

pub fn entry() -> crate::Entry {
    crate::Entry { id: "C14", run, space, replay }
}

const PROP: &str = "C14";

// -------------------------------------------------------------------------------------------------
// alphabets

const BASE_SIZES: [usize; 13] = [1000, 0, 1, 15, 16, 17, 4095, 4096, 4097, 8191, 8192, 8193, 12288];

fn thorough_sizes() -> Vec<usize> {
    let mut v: Vec<usize> = vec![1000];
    v.extend(0..=48);
    v.extend(4064..=4128);
    v.extend(8176..=8208);
    v.extend([12287, 12288, 12289, 16383, 16384, 16385, 65535, 65536, 65537, 1048575, 1048576, 1048577]);
    v
}

/// feature tag of a synthetic payload size; None for the baseline (1000: one segment, not block aligned)
fn size_tag(n: usize) -> Option<&'static str> {
    if n == 1000 {
        None
    } else if n == 0 {
        Some("size-0")
    } else if n % 4096 == 0 {
        Some("size-segment-multiple")
    } else if n % 4096 == 4095 {
        Some("size-segment-minus-1")
    } else if n % 4096 == 1 && n > 1 {
        Some("size-segment-plus-1")
    } else if n < 16 {
        Some("size-lt-block")
    } else if n % 16 == 0 {
        Some(if n < 4096 { "size-block-multiple" } else { "size-block-multiple-multi-segment" })
    } else if n < 4096 {
        Some("size-unaligned")
    } else {
        Some("size-unaligned-multi-segment")
    }
}

/// Deterministic, non-periodic-in-16 payload whose last byte is never zero (so that zero padding and the
/// payload can always be told apart).
fn synthetic(n: usize) -> Vec<u8> {
    let mut v: Vec<u8> = (0..n).map(|k| ((k.wrapping_mul(167).wrapping_add(13)) ^ ((k >> 8).wrapping_mul(31)) ^ (k >> 12)) as u8).collect();
    if let Some(l) = v.last_mut() {
        if *l == 0 {
            *l = 0xa5;
        }
    }
    v
}

fn build_book() -> umya_spreadsheet::Spreadsheet {
    let mut book = umya_spreadsheet::new_file();
    {
        let ws = book.get_sheet_mut(&0).expect("sheet 0");
        ws.get_cell_mut("A1").set_value("hello");
        ws.get_cell_mut("B2").set_value_number(42.5);
        ws.get_cell_mut("C3").set_value("密码 🔑");
        ws.get_cell_mut("D4").set_formula("SUM(B2:B2)");
    }
    let _ = book.new_sheet("Second");
    book.get_sheet_mut(&1).expect("sheet 1").get_cell_mut("A1").set_value_bool(true);
    book
}

#[derive(Clone, Copy, PartialEq, Eq, Debug)]
enum EntryPoint {
    SetPassword,
    Write,
    WriteLight,
}
impl EntryPoint {
    fn name(&self) -> &'static str {
        match self {
            EntryPoint::SetPassword => "set_password",
            EntryPoint::Write => "write_with_password",
            EntryPoint::WriteLight => "write_with_password_light",
        }
    }
}

#[derive(Clone, Copy, PartialEq, Eq, Debug)]
enum Payload {
    Synthetic(usize),
    /// the package write_writer produces for build_book()
    RealStd,
    /// the package write_writer_light produces for build_book()
    RealLight,
}

#[derive(Clone, Debug)]
struct Case {
    entry: EntryPoint,
    pw: Pw,
    payload: Payload,
}

impl Case {
    fn tags(&self) -> Vec<String> {
        let mut t: Vec<String> = vec![];
        match self.entry {
            EntryPoint::SetPassword => {}
            EntryPoint::Write => t.push("entry-write_with_password".into()),
            EntryPoint::WriteLight => t.push("entry-write_with_password_light".into()),
        }
        if let Some(p) = self.pw.tag {
            t.push(p.into());
        }
        match (self.entry, self.payload) {
            (EntryPoint::SetPassword, Payload::Synthetic(n)) => {
                if let Some(s) = size_tag(n) {
                    t.push(s.into());
                }
            }
            (EntryPoint::SetPassword, Payload::RealStd) => t.push("payload-real-package".into()),
            (EntryPoint::SetPassword, Payload::RealLight) => t.push("payload-real-package-light".into()),
            _ => {}
        }
        if t.is_empty() {
            t.push("baseline".into());
        }
        t
    }
    fn json(&self) -> Value {
        json!({"entry": self.entry.name(), "password": self.pw.text, "password_utf16_units": self.pw.text.encode_utf16().count(),
               "payload": match self.payload { Payload::Synthetic(n) => json!({"synthetic_bytes": n}), Payload::RealStd => json!("package of write_writer(build_book())"), Payload::RealLight => json!("package of write_writer_light(build_book())") }})
    }
}

fn passwords(tier: Tier) -> Vec<Pw> {
    let mut v = base_passwords();
    if tier == Tier::Thorough {
        v.extend(extra_passwords());
    }
    v
}

fn sizes(tier: Tier) -> Vec<usize> {
    if tier == Tier::Thorough {
        thorough_sizes()
    } else {
        BASE_SIZES.to_vec()
    }
}

/// simplest first: baseline password over all sizes, then every password over all sizes; then the real packages.
fn cases(tier: Tier) -> Vec<Case> {
    let mut v = vec![];
    // quick: stated passwords x stated sizes (full product).  thorough: stated passwords x extended sizes (full
    // product) plus extra passwords x stated sizes (full product); the full product extra passwords x extended sizes
    // (3444 cases, 37 CPU-minutes) was run once during construction and held.
    let n_base = base_passwords().len();
    for (k, pw) in passwords(tier).iter().enumerate() {
        let szs = if k < n_base { sizes(tier) } else { BASE_SIZES.to_vec() };
        for n in szs {
            v.push(Case { entry: EntryPoint::SetPassword, pw: pw.clone(), payload: Payload::Synthetic(n) });
        }
    }
    for pw in passwords(tier) {
        v.push(Case { entry: EntryPoint::SetPassword, pw: pw.clone(), payload: Payload::RealStd });
        v.push(Case { entry: EntryPoint::SetPassword, pw: pw.clone(), payload: Payload::RealLight });
        v.push(Case { entry: EntryPoint::Write, pw: pw.clone(), payload: Payload::RealStd });
        v.push(Case { entry: EntryPoint::WriteLight, pw: pw.clone(), payload: Payload::RealLight });
    }
    v
}

// -------------------------------------------------------------------------------------------------

fn guarded<T, F: FnOnce() -> T>(f: F) -> Result<T, String> {
    std::panic::catch_unwind(std::panic::AssertUnwindSafe(f)).map_err(|e| panic_msg(&e))
}

/// (name, inflated bytes) of every zip part, in archive order; None if not a readable zip.
pub fn zip_parts(bytes: &[u8]) -> Option<Vec<(String, Vec<u8>)>> {
    use std::io::Read;
    let mut z = zip::ZipArchive::new(std::io::Cursor::new(bytes)).ok()?;
    let mut out = vec![];
    for i in 0..z.len() {
        let mut f = z.by_index(i).ok()?;
        let mut v = Vec::new();
        f.read_to_end(&mut v).ok()?;
        out.push((f.name().to_string(), v));
    }
    Some(out)
}

struct Material {
    key_salt: Vec<u8>,
    package_salt: Vec<u8>,
    verifier_input: Vec<u8>,
    package_key: Vec<u8>,
    hmac_key: Vec<u8>,
}
impl Material {
    fn fields(&self) -> Vec<(&'static str, &'static str, &Vec<u8>)> {
        vec![
            ("random-16", "key-salt", &self.key_salt),
            ("random-16", "package-salt", &self.package_salt),
            ("random-16", "verifier-input", &self.verifier_input),
            ("package-key", "package-key", &self.package_key),
            ("hmac-key", "hmac-key", &self.hmac_key),
        ]
    }
}

struct Encrypt {
    tier: Tier,
    cases: Vec<Case>,
}

impl Encrypt {
    /// Oracle for one produced file.  `reference` = the unencrypted package.
    fn check_file(&self, path: &str, c: &Case, reference: &[u8], run: u32, case: &Value, tags: &[&str], sink: &mut Sink) -> Option<Material> {
        let mut case = case.clone();
        case["run"] = json!(run);
        let push = |sink: &mut Sink, clause: &str, symptom: &str, detail: String| {
            sink.violations.push(Violation::new(clause, symptom, tags, case.clone(), format!("run {}: {}", run, detail)));
        };
        macro_rules! tryf {
            ($e:expr) => {
                match $e {
                    Ok(x) => x,
                    Err(f) => {
                        push(sink, f.clause, &f.symptom, f.detail);
                        return None;
                    }
                }
            };
        }
        // container + descriptor
        sink.evaluations += 1;
        let cont = tryf!(agile::open_container(path));
        let info = tryf!(agile::parse_info(&cont.info));
        // right password: verifier
        sink.evaluations += 1;
        sink.beat.note(&format!("C14 oracle: key derivation, {}", path));
        let spun = agile::spun(&info, &c.pw.text);
        let (vin, ok) = tryf!(agile::verifier(&info, &spun));
        if !ok {
            push(sink, "verifier", "right-password-rejected", format!("H(decrypted verifierHashInput) != decrypted verifierHashValue for the password the file was written with ({} UTF-16 units)", c.pw.text.encode_utf16().count()));
        }
        // wrong passwords
        for w in wrong_passwords(&c.pw.text) {
            sink.evaluations += 1;
            sink.beat.note("C14 oracle: wrong password");
            let sw = agile::spun(&info, &w);
            match agile::verifier(&info, &sw) {
                Ok((_, true)) => push(sink, "wrong-password", "wrong-password-accepted", format!("the verifier accepts {:?} although the file was written with {:?}", w, c.pw.text)),
                _ => {}
            }
        }
        // package key, package
        let key = tryf!(agile::package_key(&info, &spun));
        let pk = tryf!(agile::decrypt_package(&info, &key, &cont.package));
        sink.evaluations += 1;
        let want_len = reference.len() as u64;
        let mut plain: &[u8] = &pk.padded;
        if pk.declared != want_len {
            let padded16 = (want_len + 15) / 16 * 16;
            let sym = if pk.declared == padded16 {
                "length-prefix-is-padded-length"
            } else if pk.declared == cont.package.len() as u64 {
                "length-prefix-is-stream-length"
            } else {
                "length-prefix-wrong"
            };
            push(sink, "length", sym, format!("EncryptedPackage declares {} bytes, the package has {}", pk.declared, want_len));
        }
        if pk.declared > pk.padded.len() as u64 {
            push(sink, "length", "stream-shorter-than-declared", format!("declared {} bytes but only {} encrypted bytes follow", pk.declared, pk.padded.len()));
        } else {
            plain = &pk.padded[..pk.declared as usize];
        }
        // plaintext
        sink.evaluations += 1;
        sink.obs(&format!("{}|{}|{}|{:016x}", c.entry.name(), c.pw.text, pk.declared, fnv(plain)));
        if plain != reference {
            // the statement speaks of the bytes of the package; for a real workbook accept the identical parts if the
            // writer itself is not byte-deterministic (never observed; counted)
            let mut partwise = false;
            if c.entry != EntryPoint::SetPassword {
                if let (Some(a), Some(b)) = (zip_parts(plain), zip_parts(reference)) {
                    partwise = a == b;
                }
            }
            if partwise {
                sink.count("real-package-equal-partwise-only", 1);
            } else {
                let common = plain.iter().zip(reference.iter()).take_while(|(a, b)| a == b).count();
                let sym = if plain.len() != reference.len() && common == plain.len().min(reference.len()) {
                    "plaintext-length-differs-only"
                } else if common < 16 {
                    "plaintext-differs-from-first-block"
                } else if common < 4096 {
                    "plaintext-differs-inside-first-segment"
                } else if common % 4096 < 16 {
                    "plaintext-differs-from-a-later-segment-start"
                } else {
                    "plaintext-differs-inside-a-later-segment"
                };
                let mut parts = String::new();
                if c.entry != EntryPoint::SetPassword {
                    if let (Some(a), Some(b)) = (zip_parts(plain), zip_parts(reference)) {
                        for ((na, da), (nb, db)) in a.iter().zip(b.iter()) {
                            if na != nb || da != db {
                                let k = da.iter().zip(db.iter()).take_while(|(x, y)| x == y).count();
                                parts = format!("; first differing part {:?}/{:?} at {}: got ...{:?} want ...{:?}", na, nb, k, String::from_utf8_lossy(&da[k.saturating_sub(40)..(k + 60).min(da.len())]), String::from_utf8_lossy(&db[k.saturating_sub(40)..(k + 60).min(db.len())]));
                                break;
                            }
                        }
                    }
                }
                push(sink, "plaintext", sym, format!("decrypted {} bytes, package {} bytes, first difference at offset {}{}", plain.len(), reference.len(), common, parts));
            }
        }
        // integrity
        sink.evaluations += 1;
        let integ = tryf!(agile::integrity(&info, &key, &cont.package, plain));
        if !integ.ok {
            push(sink, "integrity", integ.diagnosis, "HMAC over the whole EncryptedPackage stream (length prefix included) with the decrypted HMAC key != decrypted encryptedHmacValue".to_string());
        }
        Some(Material { key_salt: info.pw.salt.clone(), package_salt: info.key_data.salt.clone(), verifier_input: vin, package_key: key, hmac_key: integ.hmac_key })
    }
}

impl Space for Encrypt {
    fn len(&self) -> u64 {
        self.cases.len() as u64
    }
    fn describe(&self, i: u64) -> Value {
        self.cases[i as usize].json()
    }
    fn tags(&self, i: u64) -> Vec<String> {
        self.cases[i as usize].tags()
    }
    fn run(&self, i: u64, sink: &mut Sink) {
        let c = self.cases[i as usize].clone();
        let tags_owned = c.tags();
        let tags: Vec<&str> = tags_owned.iter().map(|s| s.as_str()).collect();
        let case = c.json();
        clear_record(PROP, self.tier, i);
        let dir = format!("{}/{}-{}", work_dir(PROP), self.tier.name(), i);
        let _ = std::fs::remove_dir_all(&dir);
        let _ = std::fs::create_dir_all(&dir);
        let mut mats: Vec<Material> = vec![];
        for run in 0..2u32 {
            sink.beat.note(&format!("C14 case {} run {}: {}", i, run, c.entry.name()));
            let out = format!("{}/out{}.xlsx", dir, run);
            let pw = c.pw.text.clone();
            // reference package + call
            let (reference, res): (Vec<u8>, Result<Result<(), String>, String>) = match c.entry {
                EntryPoint::SetPassword => {
                    let payload = match c.payload {
                        Payload::Synthetic(n) => Ok(synthetic(n)),
                        Payload::RealStd => crate::dump::save_bytes(&build_book(), false),
                        Payload::RealLight => crate::dump::save_bytes(&build_book(), true),
                    };
                    let payload = match payload {
                        Ok(p) => p,
                        Err(e) => {
                            // saving the plain workbook is not this property's subject
                            sink.count("reference-save-failed", 1);
                            sink.violations.push(Violation::new("entry", "reference-save-failed", &tags, case.clone(), e));
                            break;
                        }
                    };
                    let inp = format!("{}/in{}.bin", dir, run);
                    // the second save of every case reads its source from a NAMED PIPE fed by another thread: a legal source
                    // whose metadata says nothing about how many bytes will come
                    let mut feeder = None;
                    let _ = std::fs::remove_file(&inp);
                    let fifo_ok = run == 1 && {
                        let cp = std::ffi::CString::new(inp.clone()).unwrap();
                        unsafe { libc::mkfifo(cp.as_ptr(), 0o600) == 0 }
                    };
                    if fifo_ok {
                        sink.count("set_password_sources_that_are_named_pipes", 1);
                        let (p2, data) = (inp.clone(), payload.clone());
                        feeder = Some(std::thread::spawn(move || {
                            use std::io::Write;
                            if let Ok(mut f) = std::fs::OpenOptions::new().write(true).open(&p2) {
                                let _ = f.write_all(&data);
                            }
                        }));
                    } else if let Err(e) = std::fs::write(&inp, &payload) {
                        eprintln!("MACHINERY: cannot write {}: {}", inp, e);
                        std::process::exit(2);
                    }
                    let (a, b) = (inp.clone(), out.clone());
                    let r = guarded(move || umya_spreadsheet::writer::xlsx::set_password(Path::new(&a), Path::new(&b), &pw).map_err(|e| format!("{:?}", e)));
                    if let Some(h) = feeder {
                        // should the library never have opened the pipe, release the feeder (its open() waits for a reader)
                        use std::os::unix::fs::OpenOptionsExt;
                        let _ = std::fs::OpenOptions::new().read(true).custom_flags(libc::O_NONBLOCK).open(&inp);
                        let _ = h.join();
                    }
                    (payload, r)
                }
                EntryPoint::Write | EntryPoint::WriteLight => {
                    let light = c.entry == EntryPoint::WriteLight;
                    // reference from a separate, identically built workbook: a second save of the SAME object differs in
                    // sharedStrings.xml count= (shared-string table state, the subject of C12, not of this property)
                    let book = build_book();
                    let reference = match crate::dump::save_bytes(&build_book(), light) {
                        Ok(p) => p,
                        Err(e) => {
                            sink.count("reference-save-failed", 1);
                            sink.violations.push(Violation::new("entry", "reference-save-failed", &tags, case.clone(), e));
                            break;
                        }
                    };
                    let b = out.clone();
                    let r = guarded(move || {
                        let r = if light { umya_spreadsheet::writer::xlsx::write_with_password_light(&book, Path::new(&b), &pw) } else { umya_spreadsheet::writer::xlsx::write_with_password(&book, Path::new(&b), &pw) };
                        r.map_err(|e| format!("{:?}", e))
                    });
                    (reference, r)
                }
            };
            sink.evaluations += 1;
            match res {
                Err(m) => {
                    sink.violations.push(Violation::new("entry", &format!("panic:{}", panic_class(&m)), &tags, case.clone(), format!("run {}: {} panicked: {}", run, c.entry.name(), m)));
                    continue;
                }
                Ok(Err(e)) => {
                    sink.violations.push(Violation::new("entry", "call-failed", &tags, case.clone(), format!("run {}: {} returned {}", run, c.entry.name(), e)));
                    continue;
                }
                Ok(Ok(())) => {}
            }
            if c.entry != EntryPoint::SetPassword && Path::new(&format!("{}tmp", out)).exists() {
                sink.count("temp-file-left-behind", 1);
            }
            if let Some(m) = self.check_file(&out, &c, &reference, run, &case, &tags, sink) {
                mats.push(m);
            }
        }
        // freshness inside the case
        let mut items = vec![];
        for (r, m) in mats.iter().enumerate() {
            let f = m.fields();
            for (pool, name, v) in &f {
                items.push((pool.to_string(), name.to_string(), r as u32, hex(v)));
            }
            // three 16-byte values of one file
            sink.evaluations += 1;
            for a in 0..3 {
                for b in a + 1..3 {
                    if f[a].2 == f[b].2 {
                        sink.violations.push(Violation::new("fresh-within-file", &format!("same-value:{}={}", f[a].1, f[b].1), &tags, case.clone(), format!("run {}: {} and {} are both {}", r, f[a].1, f[b].1, hex(f[a].2))));
                    }
                }
            }
        }
        if mats.len() == 2 {
            let (f0, f1) = (mats[0].fields(), mats[1].fields());
            for k in 0..f0.len() {
                sink.evaluations += 1;
                if f0[k].2 == f1[k].2 {
                    sink.violations.push(Violation::new("fresh-between-saves", &format!("repeated:{}", f0[k].1), &tags, case.clone(), format!("two saves of the same input produced the same {}: {}", f0[k].1, hex(f0[k].2))));
                }
            }
        }
        write_record(PROP, self.tier, i, &items);
        let _ = std::fs::remove_dir_all(&dir);
    }
}

// -------------------------------------------------------------------------------------------------
/// One case, run after `encrypt`: all random material observed in this run (read from the records the cases left
/// under .work/C14/rand) is pairwise distinct within its pool.
struct Fresh {
    tier: Tier,
    n: u64,
}
impl Space for Fresh {
    fn len(&self) -> u64 {
        1
    }
    fn describe(&self, _i: u64) -> Value {
        json!({"kind": "freshness-across-run", "records": self.n, "note": "reads the records written by the cases of space `encrypt` in the same run (replay re-reads what is on disk)"})
    }
    fn tags(&self, _i: u64) -> Vec<String> {
        vec!["freshness".into()]
    }
    fn run(&self, _i: u64, sink: &mut Sink) {
        let f = check_freshness(PROP, self.tier, self.n);
        sink.count("freshness-records-read", f.records_read);
        sink.count("freshness-records-missing", f.records_missing);
        sink.count("freshness-values-compared", f.values);
        sink.evaluations += f.values;
        for h in &f.all_hex {
            sink.obs(h);
        }
        for (pool, fa, wa, fb, wb, hx) in f.repeats {
            let sym = if fa == fb { format!("repeated:{}", fa) } else { format!("same-value:{}={}", fa.clone().min(fb.clone()), fa.clone().max(fb.clone())) };
            sink.violations.push(Violation::new("fresh-across-run", &sym, &["freshness"], self.describe(0), format!("pool {}: {} of {} equals {} of {}: {}", pool, fa, wa, fb, wb, hx)));
        }
    }
}

// -------------------------------------------------------------------------------------------------
// Two encrypted saves that overlap in time, to DIFFERENT destinations in the same directory.
//
// Save A is suspended at a hook point inside helper::crypt::encrypt (13: A has just created its compound file,
// 14: A has written it completely and is about to return to the caller, who moves it into place); save B - another
// entry point, another password, another package - runs to completion right there, on the same thread; then A
// continues. Both files must satisfy every clause for their OWN password and their OWN package. This is the
// deterministic enumeration of "B ran inside A's create-to-rename window" (one suspension, B atomic): 3 x 2 x 3 cases.
const OV_ENTRIES: [EntryPoint; 3] = [EntryPoint::SetPassword, EntryPoint::Write, EntryPoint::WriteLight];
const OV_SITES: [(u32, &str); 2] = [(13, "A-has-created-its-compound-file"), (14, "A-has-written-its-compound-file")];

fn ov_book(who: usize) -> umya_spreadsheet::Spreadsheet {
    let mut book = build_book();
    if who == 1 {
        book.get_sheet_mut(&0).unwrap().get_cell_mut("F6").set_value("only in the workbook of save B");
    }
    book
}
fn ov_payload(who: usize) -> Vec<u8> {
    synthetic(if who == 0 { 5000 } else { 9001 })
}
fn ov_pw(who: usize) -> Pw {
    Pw { text: (if who == 0 { "password of A" } else { "the other password (B)" }).to_string(), tag: None }
}
/// performs one save; returns (reference package, result)
fn ov_save(entry: EntryPoint, who: usize, dir: &str) -> (Vec<u8>, Result<Result<(), String>, String>) {
    let out = format!("{}/out{}.xlsx", dir, ["A", "B"][who]);
    let pw = ov_pw(who).text;
    match entry {
        EntryPoint::SetPassword => {
            let payload = ov_payload(who);
            let inp = format!("{}/in{}.bin", dir, ["A", "B"][who]);
            std::fs::write(&inp, &payload).expect("write source");
            let r = guarded(move || umya_spreadsheet::writer::xlsx::set_password(Path::new(&inp), Path::new(&out), &pw).map_err(|e| format!("{:?}", e)));
            (payload, r)
        }
        _ => {
            let light = entry == EntryPoint::WriteLight;
            let reference = crate::dump::save_bytes(&ov_book(who), light).unwrap_or_default();
            let book = ov_book(who);
            let r = guarded(move || {
                let r = if light { umya_spreadsheet::writer::xlsx::write_with_password_light(&book, Path::new(&out), &pw) } else { umya_spreadsheet::writer::xlsx::write_with_password(&book, Path::new(&out), &pw) };
                r.map_err(|e| format!("{:?}", e))
            });
            (reference, r)
        }
    }
}
struct OvCtx {
    site: u32,
    fired: bool,
    entry_b: EntryPoint,
    dir: String,
    res_b: Option<(Vec<u8>, Result<Result<(), String>, String>)>,
}
static OV: std::sync::Mutex<Option<OvCtx>> = std::sync::Mutex::new(None);
fn ov_hook(site: u32) {
    let job = {
        let mut g = OV.lock().unwrap();
        match g.as_mut() {
            Some(c) if c.site == site && !c.fired => {
                c.fired = true;
                Some((c.entry_b, c.dir.clone()))
            }
            _ => None,
        }
    };
    if let Some((entry_b, dir)) = job {
        let r = ov_save(entry_b, 1, &dir);
        if let Some(c) = OV.lock().unwrap().as_mut() {
            c.res_b = Some(r);
        }
    }
}
struct Overlap {
    tier: Tier,
}
impl Overlap {
    fn locate(i: u64) -> (EntryPoint, (u32, &'static str), EntryPoint) {
        let b = OV_ENTRIES[(i % 3) as usize];
        let site = OV_SITES[((i / 3) % 2) as usize];
        (OV_ENTRIES[(i / 6) as usize], site, b)
    }
}
impl Space for Overlap {
    fn len(&self) -> u64 {
        18
    }
    fn describe(&self, i: u64) -> Value {
        let (a, site, b) = Self::locate(i);
        json!({"kind": "overlapping-encrypted-saves", "save_A": a.name(), "suspended_at": site.1, "save_B": b.name(), "destinations": "outA.xlsx and outB.xlsx in one directory"})
    }
    fn tags(&self, i: u64) -> Vec<String> {
        let (a, site, b) = Self::locate(i);
        vec!["overlap".into(), format!("A:{}", a.name()), format!("B:{}", b.name()), format!("at:{}", site.1)]
    }
    fn run(&self, i: u64, sink: &mut Sink) {
        let (a, site, b) = Self::locate(i);
        let tags_owned = self.tags(i);
        let tags: Vec<&str> = tags_owned.iter().map(|s| s.as_str()).collect();
        let case = self.describe(i);
        let dir = format!("{}/{}-overlap-{}", work_dir(PROP), self.tier.name(), i);
        let _ = std::fs::remove_dir_all(&dir);
        let _ = std::fs::create_dir_all(&dir);
        *OV.lock().unwrap() = Some(OvCtx { site: site.0, fired: false, entry_b: b, dir: dir.clone(), res_b: None });
        umya_spreadsheet::verif_hook::install(ov_hook);
        sink.beat.note(&format!("C14 overlap case {}", i));
        let (ref_a, res_a) = ov_save(a, 0, &dir);
        umya_spreadsheet::verif_hook::uninstall();
        let ctx = OV.lock().unwrap().take().unwrap();
        sink.evaluations += 1;
        let Some((ref_b, res_b)) = ctx.res_b else {
            sink.violations.push(Violation::new("harness", "suspension-point-not-reached", &tags, case.clone(), format!("save A ({}) never passed the hook point {} - the hook in helper::crypt::encrypt is gone", a.name(), site.0)));
            let _ = std::fs::remove_dir_all(&dir);
            return;
        };
        let helper = Encrypt { tier: self.tier, cases: vec![] };
        for (who, entry, reference, res) in [(0usize, a, ref_a, res_a), (1, b, ref_b, res_b)] {
            let name = ["A", "B"][who];
            match res {
                Err(m) => sink.violations.push(Violation::new("entry", &format!("panic:{}", panic_class(&m)), &tags, case.clone(), format!("save {} ({}) panicked: {}", name, entry.name(), m))),
                Ok(Err(e)) => sink.violations.push(Violation::new("entry", "call-failed", &tags, case.clone(), format!("save {} ({}) of two overlapping saves returned {}", name, entry.name(), e))),
                Ok(Ok(())) => {
                    let c = Case { entry, pw: ov_pw(who), payload: Payload::RealStd };
                    let mut cj = case.clone();
                    cj["checked_file"] = json!(format!("out{}.xlsx (save {})", name, name));
                    let _ = helper.check_file(&format!("{}/out{}.xlsx", dir, name), &c, &reference, who as u32, &cj, &tags, sink);
                }
            }
        }
        let mut left: Vec<String> = std::fs::read_dir(&dir).map(|d| d.filter_map(|e| e.ok()).map(|e| e.file_name().to_string_lossy().to_string()).collect()).unwrap_or_default();
        left.sort();
        sink.obs(&format!("overlap|{}|{}|{}|{:?}", a.name(), site.1, b.name(), left));
        for f in &left {
            if !["outA.xlsx", "outB.xlsx", "inA.bin", "inB.bin"].contains(&f.as_str()) {
                sink.violations.push(Violation::new("leftover", "temporary-file-left-behind", &tags, case.clone(), format!("after both saves returned Ok the directory holds {:?}", left)));
                break;
            }
        }
        let _ = std::fs::remove_dir_all(&dir);
    }
}

// -------------------------------------------------------------------------------------------------
pub fn space(tier: Tier, id: &str) -> Option<Box<dyn Space>> {
    if let Some(r) = reversed_of(id, |base| space(tier, base)) {
        return r;
    }
    match id {
        "encrypt" => Some(Box::new(Encrypt { tier, cases: cases(tier) })),
        "freshness" => Some(Box::new(Fresh { tier, n: cases(tier).len() as u64 })),
        "overlap" => Some(Box::new(Overlap { tier })),
        _ => None,
    }
}

fn replay(tier: Tier, case: &Value) -> Vec<Violation> {
    replay_e1(space(tier, case["_space"].as_str().unwrap_or("")), case)
}

fn run(ctx: &Ctx) -> i32 {
    if let Err(e) = agile::self_test() {
        eprintln!("MACHINERY: C14 oracle self-test failed: {}", e);
        return 2;
    }
    let ids = ["encrypt", "freshness", "encrypt~rev", "overlap"];
    let spaces = ids.iter().map(|id| (*id, space(ctx.tier, id).unwrap())).collect();
    let cs = cases(ctx.tier);
    let pws = passwords(ctx.tier);
    let szs = sizes(ctx.tier);
    let real = [crate::dump::save_bytes(&build_book(), false).map(|b| b.len()).unwrap_or(0), crate::dump::save_bytes(&build_book(), true).map(|b| b.len()).unwrap_or(0)];
    run_e1(
        ctx,
        E1Spec {
            spaces,
            cfg: PoolCfg { chunk: 1, case_timeout: std::time::Duration::from_secs(120), ..Default::default() },
            level: "exploration",
            rule: "full product password alphabet x synthetic payload sizes through writer::xlsx::set_password (file to file; in the thorough tier: the 7 stated passwords x all extended sizes and the extra passwords x the 13 stated sizes), plus every password x {real package, real light package} through set_password and through write_with_password / write_with_password_light on the workbook itself; every case performs the save twice (for set_password the second time from a named pipe fed by another thread). Each produced file is opened by the harness's own MS-OFFCRYPTO agile reader (cfb container parser + own descriptor parsing, key derivation, verifier, segment decryption, HMAC); clauses: container, descriptor, verifier (right password), wrong-password (password+'x', empty, password minus last char), length, plaintext, integrity, fresh-within-file, fresh-between-saves; the one-case space `freshness` checks pairwise distinctness of all salts/verifier inputs/package keys/HMAC keys over the whole run. Space `overlap`: save A (each entry point) suspended at each of the two hook points inside helper::crypt::encrypt (compound file created / completely written), save B (each entry point; another password, another package, same directory) run to completion there on the same thread, then A continues; both files are judged with every clause for their own password and package, and nothing else may be left in the directory. distinct_nontrivial = distinct (entry, password, declared length, hash of decrypted plaintext) observations plus distinct random values seen by `freshness`".into(),
            alphabets: json!({
                "passwords": pws.iter().map(|p| if p.text.chars().count() > 40 { format!("{} chars starting {:?}", p.text.chars().count(), p.text.chars().take(10).collect::<String>()) } else { p.text.clone() }).collect::<Vec<_>>(),
                "synthetic_sizes": szs,
                "real_package_bytes": {"write_writer": real[0], "write_writer_light": real[1]},
                "entry_points": ["set_password", "write_with_password", "write_with_password_light"],
                "saves_per_case": 2,
                "wrong_passwords_per_save": "password+'x'; '' if password non-empty; password minus its last char if >= 2 chars",
            }),
            bounds: json!({"cases": cs.len(), "max_password_chars": 255, "max_payload_bytes": szs.iter().max(), "spin_count": "as declared in the file (100000)"}),
            exhaustive: true,
            caps_hit: vec![],
            assumptions: vec![
                "oracle self-test before every run: key derivation, AES-CBC, integrity IVs and HMAC-key decryption reproduce the xlsx-populate interoperability vectors (the key-derivation vector was also recomputed with Python hashlib)".into(),
                "trusted base: cfb crate (compound-file parsing), quick-xml (tokenising), RustCrypto aes/cbc/sha2/hmac/base64 as primitives".into(),
                "freshness: only distinctness of the random values over the run is decided; a predictable generator would pass (getrandom is not behind a seam)".into(),
                "the reader accepts AES-128/192/256-CBC with SHA-256/384/512 as declared by the descriptor; other declared algorithms are reported as unsupported".into(),
                "the unencrypted package of write_with_password(_light) is taken to be what write_writer(_light) yields for a separate, identically constructed workbook (a second save of the same object differs in sharedStrings count=, which is C12's subject)".into(),
            ],
            min_distinct: cs.len() as u64,
        },
    )
}
