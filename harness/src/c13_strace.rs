//! C13 syscall-level injectors: the save runs in a traced child (`strace -e inject=...`).  The child is this very
//! binary started as a degenerate pool worker whose space id begins with `child:`; it brackets the save between
//! two marker system calls (openat of the non-existing `aux/.begin` / `aux/.end`) and reports through `aux/result`
//! AFTER the end marker.  A fault-free census run lists the system calls of the window with their per-name ordinal
//! since exec (that is how `when=<k>` counts); injection runs use exactly these ordinals, keep their own trace
//! log, and the harness verifies in that log that the injection hit the intended call inside the window.
use super::core::*;
use super::{push, Plan};
use crate::common::*;
use crate::pool::*;
use serde_json::{json, Value};
use std::path::Path;
use std::process::{Command, Stdio};
use std::time::{Duration, Instant};

const TRACE_SET: &str = "openat,open,creat,write,pwrite64,writev,rename,renameat,renameat2,unlink,unlinkat,close,fsync,fdatasync,ftruncate,fallocate,lseek,link,linkat,mkdir,rmdir";

#[derive(Clone, Debug)]
pub struct Sys {
    pub name: String,
    pub ordinal: u64,
    pub args: String,
    pub ret: String,
}
impl Sys {
    pub fn to_json(&self) -> Value {
        json!([self.name, self.ordinal, self.args, self.ret])
    }
    pub fn from_json(v: &Value) -> Option<Sys> {
        Some(Sys { name: v[0].as_str()?.to_string(), ordinal: v[1].as_u64()?, args: v[2].as_str()?.to_string(), ret: v[3].as_str()?.to_string() })
    }
    fn class(&self) -> &'static str {
        match self.name.as_str() {
            "openat" | "open" | "creat" => "create",
            "write" | "pwrite64" | "writev" => "write",
            "rename" | "renameat" | "renameat2" => "rename",
            "unlink" | "unlinkat" => "unlink",
            "close" => "close",
            "fsync" | "fdatasync" => "sync",
            "ftruncate" | "fallocate" => "resize",
            "lseek" => "seek",
            _ => "other",
        }
    }
    fn opens_for_writing(&self) -> bool {
        self.args.contains("O_CREAT") || self.args.contains("O_WRONLY") || self.args.contains("O_RDWR")
    }
}

fn errors_for(s: &Sys) -> &'static [&'static str] {
    match s.class() {
        "create" if s.opens_for_writing() => &["ENOSPC", "EACCES", "EIO"],
        "write" => &["ENOSPC", "EIO", "EINTR"],
        "rename" => &["EACCES", "EXDEV", "ENOSPC"],
        "close" => &["EIO"],
        "sync" => &["EIO"],
        "resize" => &["ENOSPC"],
        "unlink" => &["EACCES"],
        _ => &[],
    }
}
pub fn error_menu_json() -> Value {
    json!({"openat(create/write)": ["ENOSPC","EACCES","EIO"], "write/pwrite64": ["ENOSPC","EIO","EINTR"], "rename": ["EACCES","EXDEV","ENOSPC"], "close": ["EIO"], "fsync/fdatasync": ["EIO"], "ftruncate": ["ENOSPC"], "pairs": "write k ENOSPC + every unlink EACCES"})
}
pub fn bounds_json(tier: Tier) -> Value {
    let mut m = serde_json::Map::new();
    m.insert("plain and csv workloads".into(), json!("every syscall of the window x its whole errno menu x destination absent/old; pairs at every write; SIGKILL on entry of every window syscall and of the end marker"));
    for wl in WLS.iter().filter(|w| w.is_cfb()) {
        for pre in [Pre::Absent, Pre::Old] {
            let (k, e, o) = picks(tier, *wl, pre);
            let skipped = tier == Tier::Quick && pre == Pre::Absent;
            m.insert(format!("{}/{}", wl.name(), pre.name()), json!({"kill_points_among_state_changing_calls": format!("{:?}", k), "enospc_on_write": if skipped {"not run in quick".to_string()} else {format!("{:?}", e)}, "eio_eintr_and_pairs_on_write": if skipped {"not run in quick".to_string()} else {format!("{:?}", o)}, "non_write_calls": if skipped {"not run in quick"} else {"all, whole errno menu"}}));
        }
    }
    Value::Object(m)
}

fn parse_line(l: &str) -> Option<(String, String, String)> {
    let p = l.find('(')?;
    let name = &l[..p];
    if name.is_empty() || !name.chars().all(|c| c.is_ascii_alphanumeric() || c == '_') {
        return None;
    }
    let (args, ret) = match l.rfind(" = ") {
        Some(q) if q > p => {
            let a = l[p + 1..q].trim_end();
            (a.strip_suffix(')').unwrap_or(a), l[q + 3..].trim())
        }
        _ => (&l[p + 1..], "?"),
    };
    Some((name.to_string(), args.chars().take(160).collect(), ret.to_string()))
}

pub struct Trace {
    pub window: Vec<Sys>,
    pub end_marker: Option<Sys>,
    pub injected: Vec<(Sys, bool)>, // (call, inside window)
    pub killed: bool,
    pub saw_begin: bool,
}
pub fn parse_trace(text: &str) -> Trace {
    let mut counts: std::collections::BTreeMap<String, u64> = Default::default();
    let mut t = Trace { window: vec![], end_marker: None, injected: vec![], killed: false, saw_begin: false };
    let mut inside = false;
    for l in text.lines() {
        if l.starts_with("+++ killed by SIGKILL") {
            t.killed = true;
            continue;
        }
        let (name, args, ret) = match parse_line(l) {
            Some(x) => x,
            None => continue,
        };
        let n = counts.entry(name.clone()).or_insert(0);
        *n += 1;
        let s = Sys { name, ordinal: *n, args, ret };
        if s.args.contains("/aux/.begin\"") {
            inside = true;
            t.saw_begin = true;
            continue;
        }
        if s.args.contains("/aux/.end\"") {
            inside = false;
            t.end_marker = Some(s);
            continue;
        }
        if s.ret.contains("(INJECTED)") {
            t.injected.push((s.clone(), inside));
        }
        if inside {
            t.window.push(s);
        }
    }
    t
}

fn child_cmd(tier: Tier, wl: Wl, pre: Pre, cd: &CaseDir, log: &Path, injects: &[String]) -> Command {
    let exe = std::env::current_exe().expect("current_exe");
    let mut c = Command::new("strace");
    c.arg("-o").arg(log).arg("-e").arg(format!("trace={}", TRACE_SET));
    for i in injects {
        c.arg("-e").arg(format!("inject={}", i));
    }
    c.arg(exe).arg("--worker").arg("C13").arg(tier.name()).arg(format!("child:{}:{}:{}", wl.name(), pre.name(), cd.root.display()));
    c.args(["0", "1", "0", "1", "1"]).arg(cd.aux.join("prog")).arg(cd.aux.join("hash")).args(["1", "0"]);
    c.stdin(Stdio::null()).stdout(Stdio::null()).stderr(Stdio::piped());
    c
}

pub struct Traced {
    pub outcome: Option<Res>, // None: no result file (killed before reporting)
    pub signal: Option<i32>,
    pub trace: Trace,
    pub stderr: String,
    pub timed_out: bool,
}
fn run_traced(tier: Tier, wl: Wl, pre: Pre, cd: &CaseDir, injects: &[String]) -> Traced {
    use std::os::unix::process::ExitStatusExt;
    let log = cd.aux.join("trace.log");
    let mut child = match child_cmd(tier, wl, pre, cd, &log, injects).spawn() {
        Ok(c) => c,
        Err(e) => return Traced { outcome: Some(Res::Machinery(format!("cannot start strace: {}", e))), signal: None, trace: parse_trace(""), stderr: String::new(), timed_out: false },
    };
    let t0 = Instant::now();
    let mut timed_out = false;
    let status = loop {
        match child.try_wait() {
            Ok(Some(s)) => break Some(s),
            Ok(None) => {
                if t0.elapsed() > Duration::from_secs(60) {
                    timed_out = true;
                    let _ = child.kill();
                    break child.wait().ok();
                }
                std::thread::sleep(Duration::from_millis(2));
            }
            Err(_) => break None,
        }
    };
    let mut stderr = String::new();
    if let Some(mut e) = child.stderr.take() {
        use std::io::Read;
        let _ = e.read_to_string(&mut stderr);
    }
    let trace = parse_trace(&std::fs::read_to_string(&log).unwrap_or_default());
    let outcome = std::fs::read_to_string(cd.aux.join("result")).ok().map(|t| {
        let (k, rest) = t.split_once('\n').unwrap_or((&t, ""));
        match k {
            "ok" => Res::Ok,
            "err" => Res::Err(rest.to_string()),
            "panic" => {
                let (f, m) = rest.split_once('|').unwrap_or(("", rest));
                Res::Panic { file: f.to_string(), msg: m.to_string() }
            }
            _ => Res::Machinery(format!("bad result file {:?}", t)),
        }
    });
    Traced { outcome, signal: status.and_then(|s| s.signal()), trace, stderr: stderr.chars().take(300).collect(), timed_out }
}

// ---------------------------------------------------------------------------------------------
// the traced child

struct ChildSpace {
    wl: Wl,
    pre: Pre,
    root: std::path::PathBuf,
}
pub fn child_space(rest: &str) -> Option<Box<dyn Space>> {
    let mut it = rest.splitn(3, ':');
    let wl = Wl::parse(it.next()?)?;
    let pre = Pre::parse(it.next()?);
    let root = std::path::PathBuf::from(it.next()?);
    Some(Box::new(ChildSpace { wl, pre, root }))
}
impl Space for ChildSpace {
    fn len(&self) -> u64 {
        1
    }
    fn describe(&self, _i: u64) -> Value {
        json!({"child": self.wl.name(), "destination_before": self.pre.name()})
    }
    fn run(&self, _i: u64, _sink: &mut Sink) {
        let fx = Fx::new();
        let cd = CaseDir::at(&self.root);
        let (dest, src) = (cd.dest(self.wl), cd.src());
        let _ = std::fs::File::open(cd.aux.join(".begin"));
        let o = run_guarded(|| fx.do_save(self.wl, &dest, &src));
        let _ = std::fs::File::open(cd.aux.join(".end"));
        let text = match o {
            Res::Ok => "ok\n".to_string(),
            Res::Err(e) => format!("err\n{}", e),
            Res::Panic { file, msg } => format!("panic\n{}|{}", file, msg),
            other => format!("machinery\n{}", other.text()),
        };
        let _ = std::fs::write(cd.aux.join("result"), text);
    }
}

// ---------------------------------------------------------------------------------------------
// census

pub fn census(tier: Tier, fx: &Fx, p: &mut Plan) {
    let combos: Vec<(Wl, Pre)> = WLS.iter().flat_map(|w| [(*w, Pre::Absent), (*w, Pre::Old)]).collect();
    // prepare directories first (uses fx), then trace in parallel threads (no fork in this process from here on)
    let dirs: Vec<CaseDir> = combos
        .iter()
        .map(|(wl, pre)| {
            let cd = CaseDir::create(&format!("census-{}-{}", wl.name(), pre.name()));
            cd.prepare(fx, *wl, *pre);
            cd
        })
        .collect();
    let results: Vec<Traced> = std::thread::scope(|s| {
        let hs: Vec<_> = combos.iter().zip(dirs.iter()).map(|((wl, pre), cd)| s.spawn(move || run_traced(tier, *wl, *pre, cd, &[]))).collect();
        hs.into_iter().map(|h| h.join().expect("census thread")).collect()
    });
    p.strace_ok = true;
    for (((wl, pre), cd), r) in combos.iter().zip(dirs.iter()).zip(results.into_iter()) {
        let dest_ok = matches!(read_dest(&cd.dest(*wl)), Dest::File(b) if fx.is_complete_new(*wl, &b).is_ok());
        cd.remove();
        let good = r.outcome == Some(Res::Ok) && r.trace.saw_begin && r.trace.end_marker.is_some() && !r.trace.window.is_empty() && dest_ok;
        if !good {
            p.strace_ok = false;
            p.strace_note = format!("census of {}/{}: outcome {:?}, begin {}, end {}, window {}, dest complete {}, stderr {:?}", wl.name(), pre.name(), r.outcome.as_ref().map(|o| o.text()), r.trace.saw_begin, r.trace.end_marker.is_some(), r.trace.window.len(), dest_ok, r.stderr);
            p.windows.clear();
            return;
        }
        let mut w = r.trace.window;
        let mut e = r.trace.end_marker.unwrap();
        e.name = format!("{}", e.name);
        e.args = "END-MARKER".into();
        w.push(e);
        p.windows.insert(format!("{}/{}", wl.name(), pre.name()), w);
    }
}

// ---------------------------------------------------------------------------------------------
// injection spaces

#[derive(Clone, Debug)]
struct StCase {
    wl: Wl,
    pre: Pre,
    injects: Vec<String>,
    target: Sys,
    what: String,
    pos: String,
    errno: String,
}
pub struct StraceSpace {
    tier: Tier,
    fx: Fx,
    kill: bool,
    cases: Vec<StCase>,
}
/// Selection of injection points among the n candidate calls of one window.
#[derive(Clone, Copy, Debug, PartialEq)]
pub enum Pick {
    All,
    /// the first `edge`, the last `edge` and every `step`-th candidate
    Stride { step: usize, edge: usize },
}
fn pick<'a>(v: &[&'a Sys], p: Pick) -> Vec<&'a Sys> {
    match p {
        Pick::All => v.to_vec(),
        Pick::Stride { step, edge } => v.iter().enumerate().filter(|(i, _)| *i < edge || *i + edge >= v.len() || *i % step == 0).map(|(_, s)| *s).collect(),
    }
}
/// (kill points, ENOSPC-on-write points, other-errno-on-write points / pair points)
pub fn picks(tier: Tier, wl: Wl, pre: Pre) -> (Pick, Pick, Pick) {
    if !wl.is_cfb() {
        return (Pick::All, Pick::All, Pick::All);
    }
    match tier {
        Tier::Quick => (Pick::Stride { step: 256, edge: 16 }, Pick::Stride { step: 256, edge: 16 }, Pick::Stride { step: 2048, edge: 1 }),
        Tier::Thorough => {
            if pre == Pre::Old && wl == Wl::SetPw {
                // the in-place writer: every single call is a distinct destination state
                (Pick::All, Pick::Stride { step: 4, edge: 64 }, Pick::Stride { step: 64, edge: 8 })
            } else if pre == Pre::Old && wl == Wl::Pw {
                (Pick::Stride { step: 4, edge: 64 }, Pick::Stride { step: 4, edge: 64 }, Pick::Stride { step: 64, edge: 8 })
            } else {
                (Pick::Stride { step: 16, edge: 64 }, Pick::Stride { step: 16, edge: 64 }, Pick::Stride { step: 64, edge: 8 })
            }
        }
    }
}

impl StraceSpace {
    pub fn new(tier: Tier, fx: Fx, p: &Plan, kill: bool) -> StraceSpace {
        let mut cases = vec![];
        if p.strace_ok {
            for wl in WLS {
                for pre in [Pre::Absent, Pre::Old] {
                    let w = match p.windows.get(&format!("{}/{}", wl.name(), pre.name())) {
                        Some(w) => w,
                        None => continue,
                    };
                    let (pk_kill, pk_enospc, pk_other) = picks(tier, wl, pre);
                    let body: Vec<&Sys> = w.iter().filter(|s| s.args != "END-MARKER").collect();
                    if kill {
                        // the file system changes only in create/write/rename/unlink/resize calls: for the encrypted
                        // workloads (thousands of lseek+write pairs) kill points before lseek/close are equivalent to
                        // the kill point before the next changing call and are left out; small windows take every call
                        let cand: Vec<&Sys> = if wl.is_cfb() { body.iter().copied().filter(|s| !matches!(s.class(), "seek" | "close" | "sync")).collect() } else { body.clone() };
                        let mut pts = pick(&cand, pk_kill);
                        pts.extend(w.iter().filter(|s| s.args == "END-MARKER"));
                        for s in pts {
                            let pos = if s.args == "END-MARKER" { "kill-before:end".to_string() } else { format!("kill-before:{}", s.class()) };
                            cases.push(StCase { wl, pre, injects: vec![format!("{}:signal=KILL:when={}", s.name, s.ordinal)], target: s.clone(), what: "SIGKILL on entry".into(), pos, errno: "KILL".into() });
                        }
                        continue;
                    }
                    if tier == Tier::Quick && wl.is_cfb() && pre == Pre::Absent {
                        continue;
                    }
                    let writes: Vec<&Sys> = body.iter().copied().filter(|s| s.class() == "write").collect();
                    let others: Vec<&Sys> = body.iter().copied().filter(|s| s.class() != "write").collect();
                    let mut add = |s: &Sys, e: &str| {
                        cases.push(StCase { wl, pre, injects: vec![format!("{}:error={}:when={}", s.name, e, s.ordinal)], target: s.clone(), what: format!("{} returns {}", s.name, e), pos: format!("at:{}", s.class()), errno: e.to_string() });
                    };
                    for s in &others {
                        for e in errors_for(s) {
                            add(s, e);
                        }
                    }
                    for s in pick(&writes, pk_enospc) {
                        add(s, "ENOSPC");
                    }
                    for s in pick(&writes, pk_other) {
                        add(s, "EIO");
                        add(s, "EINTR");
                    }
                    for s in pick(&writes, pk_other) {
                        cases.push(StCase {
                            wl,
                            pre,
                            injects: vec![format!("{}:error=ENOSPC:when={}", s.name, s.ordinal), "unlink:error=EACCES".into(), "unlinkat:error=EACCES".into()],
                            target: s.clone(),
                            what: format!("{} returns ENOSPC and every unlink returns EACCES", s.name),
                            pos: "at:write+cleanup".into(),
                            errno: "ENOSPC+EACCES".into(),
                        });
                    }
                }
            }
        }
        StraceSpace { tier, fx, kill, cases }
    }
}
impl StraceSpace {
    /// did the injection do what the case says?  None = yes
    fn injection_problem(&self, c: &StCase, r: &Traced) -> Option<String> {
        let mut machinery: Option<String> = None;
        if r.timed_out {
            machinery = Some("traced child timed out".into());
        } else if self.kill {
            if !(r.trace.killed && r.signal == Some(libc::SIGKILL) && r.outcome.is_none() && r.trace.saw_begin) {
                machinery = Some(format!("kill did not happen as planned: killed {} signal {:?} result {:?} stderr {:?}", r.trace.killed, r.signal, r.outcome.as_ref().map(|o| o.text()), r.stderr));
            }
        } else {
            let hit = r.trace.injected.iter().any(|(s, inside)| *inside && s.name == c.target.name && s.ordinal == c.target.ordinal);
            if !hit || r.outcome.is_none() {
                machinery = Some(format!("injection did not hit the planned call: injected {:?}, result {:?}, signal {:?}, stderr {:?}", r.trace.injected.iter().map(|(s, i)| format!("{}#{} inside={}", s.name, s.ordinal, i)).collect::<Vec<_>>(), r.outcome.as_ref().map(|o| o.text()), r.signal, r.stderr));
            }
        }
        machinery
    }
}

impl Space for StraceSpace {
    fn len(&self) -> u64 {
        self.cases.len() as u64
    }
    fn describe(&self, i: u64) -> Value {
        let c = &self.cases[i as usize];
        json!({"injector": if self.kill {"strace-kill"} else {"strace-err"}, "workload": c.wl.name(), "api": c.wl.api(), "destination_before": c.pre.name(), "fault": c.what,
               "syscall": format!("{}({})", c.target.name, c.target.args), "ordinal_since_exec": c.target.ordinal, "strace_inject": c.injects})
    }
    fn tags(&self, i: u64) -> Vec<String> {
        let c = &self.cases[i as usize];
        vec![format!("{}/strace/{}", c.wl.name(), c.pos), format!("wl:{}", c.wl.name()), if self.kill { "inj:strace-kill".into() } else { "inj:strace-err".into() }, c.pos.clone(), format!("errno:{}", c.errno), format!("dest:{}", c.pre.name())]
    }
    fn run(&self, i: u64, sink: &mut Sink) {
        let c = &self.cases[i as usize];
        let tags = self.tags(i);
        let case = self.describe(i);
        sink.evaluations += 1;
        let before = if c.pre == Pre::Old { Before::Old } else { Before::Absent };
        let mut attempt = 0;
        let (r, d, ls, machinery) = loop {
            attempt += 1;
            let cd = CaseDir::create(if self.kill { "stk" } else { "ste" });
            cd.prepare(&self.fx, c.wl, c.pre);
            let r = run_traced(self.tier, c.wl, c.pre, &cd, &c.injects);
            let d = read_dest(&cd.dest(c.wl));
            let ls = listing(&cd.d);
            cd.remove();
            let m = self.injection_problem(c, &r);
            // a missed injection is a machinery problem (never seen; the process is deterministic): try once more
            if m.is_none() || attempt >= 2 {
                break (r, d, ls, m);
            }
            sink.count("strace:retries", 1);
        };
        if let Some(m) = machinery {
            sink.count("strace:machinery", 1);
            push(sink, Finding { clause: "harness", symptom: "injection-missed".into(), detail: m }, &tags, &case);
            return;
        }
        let o = r.outcome.clone().unwrap_or(Res::Signal(libc::SIGKILL));
        let (dclass, fs) = judge(&self.fx, c.wl, before, &o, &d, self.kill);
        sink.obs(&format!("strace|{}|{}|{}|{}|{}|{}|{:?}", c.wl.name(), c.pre.name(), c.what, c.target.ordinal, o.kind(), dclass, ls));
        sink.count(&format!("strace-{}:{}:{}", if self.kill { "kill" } else { "err" }, o.kind(), dclass), 1);
        for mut f in fs {
            f.detail = format!("{} at {}({}) [#{} since exec]: {}; directory afterwards {:?}", c.what, c.target.name, c.target.args, c.target.ordinal, f.detail, ls);
            push(sink, f, &tags, &case);
        }
    }
}
