//! Independent ECMA-376 agile-encryption reader, written from MS-OFFCRYPTO 2.3.4.10 - 2.3.4.15.
//! Trusted base: `cfb` (container parsing), `quick-xml` (XML tokenising), RustCrypto aes/cbc/sha2/hmac (primitives).
//! The protocol (key derivation order, block keys, IV derivation, padding, segmenting, length prefix, HMAC
//! coverage, verifier) is implemented here and never calls umya_spreadsheet::helper::crypt.
use super::util::*;
use aes::cipher::{block_padding::NoPadding, BlockDecryptMut, KeyIvInit};
use base64::{engine::general_purpose::STANDARD, Engine as _};
use quick_xml::events::{BytesStart, Event};
use quick_xml::Reader;
use std::collections::HashMap;
use std::io::Read;

pub const NS_ENCRYPTION: &str = "http://schemas.microsoft.com/office/2006/encryption";
pub const NS_PASSWORD: &str = "http://schemas.microsoft.com/office/2006/keyEncryptor/password";

// 2.3.4.13 / 2.3.4.14 block keys
const BK_VERIFIER_INPUT: [u8; 8] = [0xfe, 0xa7, 0xd2, 0x76, 0x3b, 0x4b, 0x9e, 0x79];
const BK_VERIFIER_VALUE: [u8; 8] = [0xd7, 0xaa, 0x0f, 0x6d, 0x30, 0x61, 0x34, 0x4e];
const BK_KEY_VALUE: [u8; 8] = [0x14, 0x6e, 0x0b, 0xe7, 0xab, 0xac, 0xd0, 0xd6];
const BK_HMAC_KEY: [u8; 8] = [0x5f, 0xb2, 0xad, 0x01, 0x0c, 0xb9, 0xe1, 0xf6];
const BK_HMAC_VALUE: [u8; 8] = [0xa0, 0x67, 0x7f, 0x02, 0xb2, 0x2c, 0x84, 0x33];
const SEGMENT: usize = 4096;

#[derive(Debug, Clone)]
pub struct Fail {
    pub clause: &'static str,
    pub symptom: String,
    pub detail: String,
}
fn fail<T>(clause: &'static str, symptom: &str, detail: String) -> Result<T, Fail> {
    Err(Fail { clause, symptom: symptom.to_string(), detail })
}

pub struct Container {
    pub info: Vec<u8>,
    pub package: Vec<u8>,
}

pub fn open_container(path: &str) -> Result<Container, Fail> {
    let mut comp = match cfb::open(path) {
        Ok(c) => c,
        Err(e) => return fail("container", "not-a-compound-file", format!("{}: {}", path, e)),
    };
    let mut read = |name: &str, symptom: &str| -> Result<Vec<u8>, Fail> {
        let mut s = match comp.open_stream(format!("/{}", name)) {
            Ok(s) => s,
            Err(e) => return fail("container", symptom, format!("stream {}: {}", name, e)),
        };
        let mut v = Vec::new();
        match s.read_to_end(&mut v) {
            Ok(_) => Ok(v),
            Err(e) => fail("container", "stream-unreadable", format!("stream {}: {}", name, e)),
        }
    };
    let info = read("EncryptionInfo", "missing-stream-EncryptionInfo")?;
    let package = read("EncryptedPackage", "missing-stream-EncryptedPackage")?;
    Ok(Container { info, package })
}

#[derive(Debug, Clone)]
pub struct Params {
    pub salt_size: usize,
    pub block_size: usize,
    pub key_bits: usize,
    pub hash_size: usize,
    pub hash: HashAlg,
    pub salt: Vec<u8>,
}

#[derive(Debug, Clone)]
pub struct Info {
    pub key_data: Params,
    pub enc_hmac_key: Vec<u8>,
    pub enc_hmac_value: Vec<u8>,
    pub pw: Params,
    pub spin_count: u32,
    pub enc_verifier_input: Vec<u8>,
    pub enc_verifier_value: Vec<u8>,
    pub enc_key_value: Vec<u8>,
}

fn attrs(e: &BytesStart) -> Result<HashMap<String, String>, Fail> {
    let mut m = HashMap::new();
    for a in e.attributes() {
        let a = match a {
            Ok(a) => a,
            Err(err) => return fail("descriptor", "xml-unparseable", format!("attribute: {}", err)),
        };
        let k = String::from_utf8_lossy(a.key.as_ref()).to_string();
        let v = match a.unescape_value() {
            Ok(v) => v.to_string(),
            Err(err) => return fail("descriptor", "xml-unparseable", format!("attribute value: {}", err)),
        };
        m.insert(k, v);
    }
    Ok(m)
}

fn need<'a>(m: &'a HashMap<String, String>, el: &str, k: &str) -> Result<&'a str, Fail> {
    match m.get(k) {
        Some(v) => Ok(v.as_str()),
        None => fail("descriptor", "missing-attribute", format!("<{}> has no attribute {}", el, k)),
    }
}
fn need_num(m: &HashMap<String, String>, el: &str, k: &str) -> Result<usize, Fail> {
    let s = need(m, el, k)?;
    match s.parse::<usize>() {
        Ok(n) => Ok(n),
        Err(_) => fail("descriptor", "attribute-not-a-number", format!("<{} {}={:?}>", el, k, s)),
    }
}
fn need_b64(m: &HashMap<String, String>, el: &str, k: &str) -> Result<Vec<u8>, Fail> {
    let s = need(m, el, k)?;
    match STANDARD.decode(s) {
        Ok(v) => Ok(v),
        Err(_) => fail("descriptor", "attribute-not-base64", format!("<{} {}={:?}>", el, k, s)),
    }
}

fn params(m: &HashMap<String, String>, el: &str) -> Result<Params, Fail> {
    let cipher = need(m, el, "cipherAlgorithm")?;
    let chaining = need(m, el, "cipherChaining")?;
    let hash_name = need(m, el, "hashAlgorithm")?;
    if cipher != "AES" || chaining != "ChainingModeCBC" {
        return fail("descriptor", "unsupported-algorithm", format!("<{}> cipher {} / {}: this reader implements AES + ChainingModeCBC", el, cipher, chaining));
    }
    let hash = match HashAlg::from_agile(hash_name) {
        Some(h) => h,
        None => return fail("descriptor", "unsupported-algorithm", format!("<{}> hashAlgorithm {:?}: this reader implements SHA256/SHA384/SHA512", el, hash_name)),
    };
    let p = Params {
        salt_size: need_num(m, el, "saltSize")?,
        block_size: need_num(m, el, "blockSize")?,
        key_bits: need_num(m, el, "keyBits")?,
        hash_size: need_num(m, el, "hashSize")?,
        hash,
        salt: need_b64(m, el, "saltValue")?,
    };
    if p.salt.len() != p.salt_size || p.salt_size == 0 {
        return fail("descriptor", "size-attribute-inconsistent", format!("<{}> saltSize {} but saltValue has {} bytes", el, p.salt_size, p.salt.len()));
    }
    if p.hash_size != hash.len() {
        return fail("descriptor", "size-attribute-inconsistent", format!("<{}> hashSize {} but {} yields {} bytes", el, p.hash_size, hash_name, hash.len()));
    }
    if p.block_size != 16 {
        return fail("descriptor", "size-attribute-inconsistent", format!("<{}> blockSize {} for AES", el, p.block_size));
    }
    if ![128, 192, 256].contains(&p.key_bits) {
        return fail("descriptor", "size-attribute-inconsistent", format!("<{}> keyBits {} for AES", el, p.key_bits));
    }
    Ok(p)
}

/// 2.3.4.10: version 4.4, flags 0x40, then the XML descriptor.
pub fn parse_info(raw: &[u8]) -> Result<Info, Fail> {
    if raw.len() < 8 {
        return fail("descriptor", "bad-version", format!("EncryptionInfo has {} bytes", raw.len()));
    }
    let major = u16::from_le_bytes([raw[0], raw[1]]);
    let minor = u16::from_le_bytes([raw[2], raw[3]]);
    let flags = u32::from_le_bytes([raw[4], raw[5], raw[6], raw[7]]);
    if major != 4 || minor != 4 || flags != 0x40 {
        return fail("descriptor", "bad-version", format!("version {}.{} flags {:#x}; agile encryption is 4.4 with flags 0x40", major, minor, flags));
    }
    let mut reader = Reader::from_reader(&raw[8..]);
    let mut buf = Vec::new();
    let mut ns: HashMap<String, String> = HashMap::new(); // prefix -> uri ("" = default)
    let mut key_data = None;
    let mut integrity = None;
    let mut enc_key = None;
    let mut root_seen = false;
    let mut encryptor_uri = None;
    loop {
        let ev = match reader.read_event_into(&mut buf) {
            Ok(ev) => ev,
            Err(e) => return fail("descriptor", "xml-unparseable", format!("{}", e)),
        };
        match ev {
            Event::Start(ref e) | Event::Empty(ref e) => {
                let qname = String::from_utf8_lossy(e.name().as_ref()).to_string();
                let m = attrs(e)?;
                for (k, v) in &m {
                    if k == "xmlns" {
                        ns.insert(String::new(), v.clone());
                    } else if let Some(p) = k.strip_prefix("xmlns:") {
                        ns.insert(p.to_string(), v.clone());
                    }
                }
                let (prefix, local) = match qname.find(':') {
                    Some(p) => (qname[..p].to_string(), qname[p + 1..].to_string()),
                    None => (String::new(), qname.clone()),
                };
                let uri = ns.get(&prefix).cloned().unwrap_or_default();
                if !root_seen {
                    root_seen = true;
                    if local != "encryption" || uri != NS_ENCRYPTION {
                        return fail("descriptor", "namespace", format!("root element {:?} in namespace {:?}", qname, uri));
                    }
                }
                match local.as_str() {
                    "keyData" if uri == NS_ENCRYPTION => key_data = Some(params(&m, "keyData")?),
                    "dataIntegrity" if uri == NS_ENCRYPTION => {
                        integrity = Some((need_b64(&m, "dataIntegrity", "encryptedHmacKey")?, need_b64(&m, "dataIntegrity", "encryptedHmacValue")?));
                    }
                    "keyEncryptor" if uri == NS_ENCRYPTION => encryptor_uri = m.get("uri").cloned(),
                    "encryptedKey" if uri == NS_PASSWORD => {
                        let p = params(&m, "encryptedKey")?;
                        let spin = need_num(&m, "encryptedKey", "spinCount")?;
                        if spin > 10_000_000 {
                            return fail("descriptor", "spin-count-out-of-range", format!("spinCount {} (the standard allows at most 10000000)", spin));
                        }
                        enc_key = Some((
                            p,
                            spin as u32,
                            need_b64(&m, "encryptedKey", "encryptedVerifierHashInput")?,
                            need_b64(&m, "encryptedKey", "encryptedVerifierHashValue")?,
                            need_b64(&m, "encryptedKey", "encryptedKeyValue")?,
                        ));
                    }
                    _ => {}
                }
            }
            Event::Eof => break,
            _ => {}
        }
        buf.clear();
    }
    let key_data = match key_data {
        Some(k) => k,
        None => return fail("descriptor", "missing-element", "no <keyData> in the encryption namespace".into()),
    };
    let (enc_hmac_key, enc_hmac_value) = match integrity {
        Some(x) => x,
        None => return fail("descriptor", "missing-element", "no <dataIntegrity> in the encryption namespace".into()),
    };
    let (pw, spin_count, enc_verifier_input, enc_verifier_value, enc_key_value) = match enc_key {
        Some(x) => x,
        None => return fail("descriptor", "missing-element", "no <encryptedKey> in the password key-encryptor namespace".into()),
    };
    if encryptor_uri.as_deref() != Some(NS_PASSWORD) {
        return fail("descriptor", "namespace", format!("keyEncryptor uri = {:?}", encryptor_uri));
    }
    Ok(Info { key_data, enc_hmac_key, enc_hmac_value, pw, spin_count, enc_verifier_input, enc_verifier_value, enc_key_value })
}

/// 2.3.4.11/2.3.4.12: truncate, or pad with 0x36, to `n` bytes.
fn fit(mut v: Vec<u8>, n: usize) -> Vec<u8> {
    v.resize(n, 0x36);
    v
}

fn aes_cbc_decrypt(key: &[u8], iv: &[u8], data: &[u8]) -> Result<Vec<u8>, String> {
    if data.len() % 16 != 0 {
        return Err(format!("ciphertext length {} is not a multiple of the block size", data.len()));
    }
    let mut buf = data.to_vec();
    let r = match key.len() {
        16 => cbc::Decryptor::<aes::Aes128>::new_from_slices(key, iv).map_err(|e| e.to_string())?.decrypt_padded_mut::<NoPadding>(&mut buf).map(|s| s.len()),
        24 => cbc::Decryptor::<aes::Aes192>::new_from_slices(key, iv).map_err(|e| e.to_string())?.decrypt_padded_mut::<NoPadding>(&mut buf).map(|s| s.len()),
        32 => cbc::Decryptor::<aes::Aes256>::new_from_slices(key, iv).map_err(|e| e.to_string())?.decrypt_padded_mut::<NoPadding>(&mut buf).map(|s| s.len()),
        n => return Err(format!("key of {} bytes", n)),
    };
    match r {
        Ok(_) => Ok(buf),
        Err(e) => Err(format!("{:?}", e)),
    }
}

/// The expensive part of 2.3.4.11 for one password: everything before the final H(h || blockKey).
pub fn spun(info: &Info, password: &str) -> Vec<u8> {
    spin_counter_first(info.pw.hash, &info.pw.salt, password, info.spin_count)
}

fn derived_key(info: &Info, spun: &[u8], block_key: &[u8]) -> Vec<u8> {
    fit(info.pw.hash.hash(&[spun, block_key]), info.pw.key_bits / 8)
}

/// 2.3.4.13: decrypt verifier input and value.  Ok((input, matches)).
pub fn verifier(info: &Info, spun: &[u8]) -> Result<(Vec<u8>, bool), Fail> {
    let iv = fit(info.pw.salt.clone(), info.pw.block_size);
    let k1 = derived_key(info, spun, &BK_VERIFIER_INPUT);
    let k2 = derived_key(info, spun, &BK_VERIFIER_VALUE);
    let input = match aes_cbc_decrypt(&k1, &iv, &info.enc_verifier_input) {
        Ok(v) => v,
        Err(e) => return fail("verifier", "verifier-undecryptable", format!("encryptedVerifierHashInput: {}", e)),
    };
    let value = match aes_cbc_decrypt(&k2, &iv, &info.enc_verifier_value) {
        Ok(v) => v,
        Err(e) => return fail("verifier", "verifier-undecryptable", format!("encryptedVerifierHashValue: {}", e)),
    };
    if input.len() < info.pw.salt_size || value.len() < info.pw.hash_size {
        return fail(
            "verifier",
            "verifier-too-short",
            format!("verifier input {} bytes (saltSize {}), verifier value {} bytes (hashSize {})", input.len(), info.pw.salt_size, value.len(), info.pw.hash_size),
        );
    }
    let input = input[..info.pw.salt_size].to_vec();
    let want = info.pw.hash.hash(&[&input]);
    Ok((input, want[..] == value[..info.pw.hash_size]))
}

/// 2.3.4.13: the intermediate (package) key.
pub fn package_key(info: &Info, spun: &[u8]) -> Result<Vec<u8>, Fail> {
    let iv = fit(info.pw.salt.clone(), info.pw.block_size);
    let k = derived_key(info, spun, &BK_KEY_VALUE);
    let v = match aes_cbc_decrypt(&k, &iv, &info.enc_key_value) {
        Ok(v) => v,
        Err(e) => return fail("package-key", "key-undecryptable", format!("encryptedKeyValue: {}", e)),
    };
    let n = info.key_data.key_bits / 8;
    if v.len() < n || info.pw.key_bits != info.key_data.key_bits {
        return fail("package-key", "key-size-inconsistent", format!("encryptedKeyValue holds {} bytes, keyData.keyBits {}, encryptedKey.keyBits {}", v.len(), info.key_data.key_bits, info.pw.key_bits));
    }
    Ok(v[..n].to_vec())
}

fn segment_iv(info: &Info, block_key: &[u8]) -> Vec<u8> {
    fit(info.key_data.hash.hash(&[&info.key_data.salt, block_key]), info.key_data.block_size)
}

pub struct Package {
    pub declared: u64,
    /// all decrypted bytes (padding included)
    pub padded: Vec<u8>,
}

/// 2.3.4.15: 8-byte LE StreamSize, then 4096-byte segments, IV = H(keyData.salt || LE32(segment)).
pub fn decrypt_package(info: &Info, key: &[u8], stream: &[u8]) -> Result<Package, Fail> {
    if stream.len() < 8 {
        return fail("length", "stream-shorter-than-prefix", format!("EncryptedPackage has {} bytes", stream.len()));
    }
    let declared = u64::from_le_bytes(stream[0..8].try_into().unwrap());
    let data = &stream[8..];
    if data.len() % info.key_data.block_size != 0 {
        return fail("length", "data-not-block-aligned", format!("{} encrypted bytes follow the length prefix; not a multiple of {}", data.len(), info.key_data.block_size));
    }
    let mut out = Vec::with_capacity(data.len());
    for (i, seg) in data.chunks(SEGMENT).enumerate() {
        let iv = segment_iv(info, &(i as u32).to_le_bytes());
        match aes_cbc_decrypt(key, &iv, seg) {
            Ok(p) => out.extend_from_slice(&p),
            Err(e) => return fail("plaintext", "segment-undecryptable", format!("segment {}: {}", i, e)),
        }
    }
    Ok(Package { declared, padded: out })
}

pub struct Integrity {
    pub hmac_key: Vec<u8>,
    pub ok: bool,
    /// when !ok: which wrong coverage reproduces the stored value, if any
    pub diagnosis: &'static str,
}

/// 2.3.4.14: HMAC key and value are encrypted with the package key and IVs derived from keyData.salt and the two
/// integrity block keys; the HMAC covers the whole EncryptedPackage stream, StreamSize included.
pub fn integrity(info: &Info, key: &[u8], stream: &[u8], plaintext: &[u8]) -> Result<Integrity, Fail> {
    let hs = info.key_data.hash_size;
    let hk = match aes_cbc_decrypt(key, &segment_iv(info, &BK_HMAC_KEY), &info.enc_hmac_key) {
        Ok(v) => v,
        Err(e) => return fail("integrity", "hmac-key-undecryptable", e),
    };
    let hv = match aes_cbc_decrypt(key, &segment_iv(info, &BK_HMAC_VALUE), &info.enc_hmac_value) {
        Ok(v) => v,
        Err(e) => return fail("integrity", "hmac-value-undecryptable", e),
    };
    if hk.len() < hs || hv.len() < hs {
        return fail("integrity", "hmac-fields-too-short", format!("hmac key {} bytes, value {} bytes, hashSize {}", hk.len(), hv.len(), hs));
    }
    let hk = hk[..hs].to_vec();
    let hv = &hv[..hs];
    let alg = info.key_data.hash;
    if alg.hmac(&hk, stream)[..] == *hv {
        return Ok(Integrity { hmac_key: hk, ok: true, diagnosis: "" });
    }
    let diagnosis = if stream.len() >= 8 && alg.hmac(&hk, &stream[8..])[..] == *hv {
        "hmac-excludes-length-prefix"
    } else if alg.hmac(&hk, plaintext)[..] == *hv {
        "hmac-over-plaintext"
    } else {
        "hmac-mismatch"
    };
    Ok(Integrity { hmac_key: hk, ok: false, diagnosis })
}

fn unhex(s: &str) -> Vec<u8> {
    (0..s.len() / 2).map(|i| u8::from_str_radix(&s[2 * i..2 * i + 2], 16).unwrap()).collect()
}

/// Known-answer self-test of this reader's building blocks against vectors that do not come from the code under
/// test's implementation: the xlsx-populate (JS) interoperability vectors quoted as data in /repo's unit test, the
/// first of which was also recomputed with Python hashlib (see the builder report).  A failure is a machinery error.
pub fn self_test() -> Result<(), String> {
    let key_salt = unhex("3aa973eec73c98c4710021730ef5b513");
    let spun = spin_counter_first(HashAlg::Sha512, &key_salt, "password", 100000);
    let k = fit(HashAlg::Sha512.hash(&[&spun, &BK_KEY_VALUE]), 32);
    if hex(&k) != "8d5869311b1c1fdb59a1de6fe1e6f2ce7dccd4deb198a6dfb1f7fb55bc03487d" {
        return Err(format!("key derivation known-answer failed: {}", hex(&k)));
    }
    let package_key = aes_cbc_decrypt(&k, &key_salt, &unhex("5017ddc6146e56dfbf76734b3e99b80f36a4c9a2e9eb21fe77695f73850cc452"))?;
    if hex(&package_key) != "cdf9defae2480933c503350e16334453d1cb8348bb2fea585db7f9e1f78fe9bf" {
        return Err(format!("AES-256-CBC known-answer failed: {}", hex(&package_key)));
    }
    let package_salt = unhex("4c251b321d85cecfcb6d952ba6d81846");
    let iv1 = fit(HashAlg::Sha512.hash(&[&package_salt, &BK_HMAC_KEY]), 16);
    let iv2 = fit(HashAlg::Sha512.hash(&[&package_salt, &BK_HMAC_VALUE]), 16);
    if hex(&iv1) != "ba1bf00eed82b07ee65e574eb1f46043" || hex(&iv2) != "088385b871292e7ed8414f173c5b6622" {
        return Err("integrity IV known-answer failed".into());
    }
    let hk = aes_cbc_decrypt(&package_key, &iv1, &unhex("b32b1cdc4ac1af244377c1eb57efd31a819f555a7204adcc0cfe364b394bbdb086a8daef4f4c512d52e3db6a54b1d45e1dd1dbfa3ddacc29fe35449ba5225dc7"))?;
    if hex(&hk) != "4c6e4db6d9a60e5d41c3ca639a682aaa71da7437202fe92ec5d814bd1e9e4e6a831aee889eae3bc18bc1bebedae1f73393fddfffd0a0b6c557485fefcdb5e98b" {
        return Err("HMAC-key decryption known-answer failed".into());
    }
    if fit(vec![1, 2, 3], 5) != vec![1, 2, 3, 0x36, 0x36] || fit(vec![1, 2, 3], 2) != vec![1, 2] {
        return Err("fit".into());
    }
    Ok(())
}
