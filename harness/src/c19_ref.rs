//! C19 reference: exact decimal rounding on decimal strings (no floating point), case-shape tags and the
//! symptom classifier.  A value is  (-1)^neg * M * 10^k  with M a decimal integer string without trailing
//! zeros (or "0").
use std::fmt::Write;

#[derive(Clone, Debug)]
pub struct Pat {
    pub code: &'static str,
    pub d: usize,
    pub thousands: bool,
    pub pct: bool,
}

pub const PATTERNS: [Pat; 14] = [
    Pat { code: "0", d: 0, thousands: false, pct: false },
    Pat { code: "0.0", d: 1, thousands: false, pct: false },
    Pat { code: "0.00", d: 2, thousands: false, pct: false },
    Pat { code: "0.000", d: 3, thousands: false, pct: false },
    Pat { code: "0.0000", d: 4, thousands: false, pct: false },
    Pat { code: "0.00000", d: 5, thousands: false, pct: false },
    Pat { code: "0.000000", d: 6, thousands: false, pct: false },
    Pat { code: "#,##0", d: 0, thousands: true, pct: false },
    Pat { code: "#,##0.0", d: 1, thousands: true, pct: false },
    Pat { code: "#,##0.00", d: 2, thousands: true, pct: false },
    Pat { code: "#,##0.000", d: 3, thousands: true, pct: false },
    Pat { code: "0%", d: 0, thousands: false, pct: true },
    Pat { code: "0.0%", d: 1, thousands: false, pct: true },
    Pat { code: "0.00%", d: 2, thousands: false, pct: true },
];

#[derive(Clone, Debug, PartialEq, Eq, Hash, PartialOrd, Ord)]
pub struct Val {
    pub neg: bool,
    pub m: String,
    pub k: i32,
}

impl Val {
    /// from a digit string that may carry trailing zeros / leading zeros
    pub fn new(neg: bool, digits: &str, k: i32) -> Val {
        let mut m = digits.trim_start_matches('0').to_string();
        let mut k = k;
        if m.is_empty() {
            return Val { neg, m: "0".into(), k: 0 };
        }
        while m.ends_with('0') {
            m.pop();
            k += 1;
        }
        Val { neg, m, k }
    }
    pub fn is_zero(&self) -> bool {
        self.m == "0"
    }
    /// positional decimal text as Rust's `Display for f64` prints the nearest double (no exponent form)
    pub fn text(&self) -> String {
        let mut s = String::new();
        if self.neg {
            s.push('-');
        }
        s.push_str(&unsigned_text(&self.m, self.k));
        s
    }
}

pub fn unsigned_text(m: &str, k: i32) -> String {
    if m == "0" {
        return "0".into();
    }
    if k >= 0 {
        format!("{}{}", m, "0".repeat(k as usize))
    } else {
        let point = m.len() as i32 + k;
        if point > 0 {
            format!("{}.{}", &m[..point as usize], &m[point as usize..])
        } else {
            format!("0.{}{}", "0".repeat((-point) as usize), m)
        }
    }
}

/// integer and fraction digit strings of M*10^k (fraction without trailing zeros, may be empty)
pub fn split_decimal(m: &str, k: i32) -> (String, String) {
    let t = unsigned_text(m, k);
    match t.split_once('.') {
        Some((a, b)) => (a.to_string(), b.to_string()),
        None => (t, String::new()),
    }
}

pub fn group3(int_digits: &str) -> String {
    let n = int_digits.len();
    let mut s = String::with_capacity(n + n / 3);
    for (i, c) in int_digits.chars().enumerate() {
        if i > 0 && (n - i) % 3 == 0 {
            s.push(',');
        }
        s.push(c);
    }
    s
}

fn pow10(e: u32) -> Option<u128> {
    10u128.checked_pow(e)
}

#[derive(Clone, Debug)]
pub struct Want {
    /// integer digits / fraction digits (exactly d) of the correctly rounded magnitude
    pub int: String,
    pub frac: String,
    /// same for truncation toward zero at d decimals
    pub trunc_int: String,
    pub trunc_frac: String,
    /// integer digits of floor and ceil of the scaled magnitude (for the percentage symptom)
    pub floor0: String,
    pub ceil0: String,
    /// exact tie at the rounding position
    pub tie: bool,
    /// rounded magnitude is zero (then the statement does not pin the sign)
    pub zero: bool,
    /// full expected text (sign kept unless the rounded magnitude is zero)
    pub text: String,
}

fn fmt_fixed(n: u128, d: usize) -> (String, String) {
    let p = pow10(d as u32).unwrap();
    let i = (n / p).to_string();
    let f = if d == 0 { String::new() } else { format!("{:0width$}", n % p, width = d) };
    (i, f)
}

/// Round |v| (times 100 for percentages) half away from zero to the pattern's decimals, exactly.
pub fn reference(v: &Val, pat: &Pat) -> Want {
    let m: u128 = v.m.parse().unwrap();
    let kk = v.k + if pat.pct { 2 } else { 0 };
    let t = kk + pat.d as i32;
    let (q, up, tie) = if t >= 0 {
        (m * pow10(t as u32).expect("magnitude bound"), false, false)
    } else {
        match pow10((-t) as u32) {
            Some(p) => {
                let r = m % p;
                (m / p, 2 * r >= p, 2 * r == p)
            }
            None => (0, false, false),
        }
    };
    let n = q + if up { 1 } else { 0 };
    let (int, frac) = fmt_fixed(n, pat.d);
    let (trunc_int, trunc_frac) = fmt_fixed(q, pat.d);
    // floor/ceil of the scaled magnitude at 0 decimals
    let (f0, c0) = if kk >= 0 {
        let x = m * pow10(kk as u32).unwrap();
        (x, x)
    } else {
        match pow10((-kk) as u32) {
            Some(p) => (m / p, m / p + if m % p != 0 { 1 } else { 0 }),
            None => (0, 1),
        }
    };
    let zero = n == 0;
    let mut text = String::new();
    if v.neg && !zero {
        text.push('-');
    }
    if pat.thousands {
        text.push_str(&group3(&int));
    } else {
        text.push_str(&int);
    }
    if pat.d > 0 {
        let _ = write!(text, ".{}", frac);
    }
    if pat.pct {
        text.push('%');
    }
    Want { int, frac, trunc_int, trunc_frac, floor0: f0.to_string(), ceil0: c0.to_string(), tie, zero, text }
}

/// The partition of cases by shape (exactly one shape tag per case), computed from the exact decimal
/// text of the value (of the value x 100 for percentages).
pub fn shape_tag(v: &Val, pat: &Pat, fmul_below_tie: bool) -> &'static str {
    let kk = v.k + if pat.pct { 2 } else { 0 };
    let (_, f) = if v.is_zero() { ("0".to_string(), String::new()) } else { split_decimal(&v.m, kk) };
    let d = pat.d;
    if pat.pct {
        let w = reference(v, pat);
        if f.is_empty() {
            return "pct:scaled-integer";
        }
        if d == 0 {
            let first = f.as_bytes()[0];
            if w.tie {
                return if fmul_below_tie { "pct:d0:tie:f64-product-below-tie" } else { "pct:d0:tie:f64-product-at-or-above-tie" };
            }
            return if first >= b'5' { "pct:d0:up" } else { "pct:d0:down" };
        }
        return if w.frac.bytes().all(|b| b == b'0') { "pct:d>0:rounded-fraction-zero" } else { "pct:d>0:rounded-fraction-nonzero" };
    }
    if f.is_empty() {
        return "num:integer";
    }
    if d == 0 {
        return if f.as_bytes()[0] >= b'5' { "num:d0:up" } else { "num:d0:down" };
    }
    if f.len() < d {
        return "num:frac<d";
    }
    if f.len() == d {
        return "num:frac=d";
    }
    let kept = &f[..d];
    let next = f.as_bytes()[d];
    if next < b'5' {
        return "num:frac>d:down";
    }
    if kept.bytes().all(|b| b == b'9') {
        return "num:frac>d:up:carry-out";
    }
    let inc = (kept.parse::<u64>().unwrap() + 1).to_string();
    if inc.len() < d {
        return "num:frac>d:up:leading-zero-stays";
    }
    "num:frac>d:up:plain"
}

/// parse "[-]int[,int]*[.frac][%]" ; None if the text has any other shape
pub fn parse_rendered(s: &str) -> Option<(bool, String, Option<String>, bool)> {
    let mut r = s;
    let neg = r.starts_with('-');
    if neg {
        r = &r[1..];
    }
    let pct = r.ends_with('%');
    if pct {
        r = &r[..r.len() - 1];
    }
    let (i, f) = match r.split_once('.') {
        Some((a, b)) => (a, Some(b)),
        None => (r, None),
    };
    if i.is_empty() || !i.bytes().all(|b| b.is_ascii_digit() || b == b',') || i.starts_with(',') || i.ends_with(',') {
        return None;
    }
    if let Some(f) = f {
        if !f.bytes().all(|b| b.is_ascii_digit()) {
            return None;
        }
    }
    Some((neg, i.to_string(), f.map(|x| x.to_string()), pct))
}

fn strip_lead(s: &str) -> &str {
    let t = s.trim_start_matches('0');
    if t.is_empty() {
        "0"
    } else {
        t
    }
}
fn dec_plus_one(s: &str) -> String {
    let mut v: Vec<u8> = s.bytes().collect();
    let mut i = v.len();
    loop {
        if i == 0 {
            v.insert(0, b'1');
            break;
        }
        i -= 1;
        if v[i] == b'9' {
            v[i] = b'0';
        } else {
            v[i] += 1;
            break;
        }
    }
    String::from_utf8(v).unwrap()
}

/// Symptom class of a wrong rendering: the '+'-joined list of discrepancy features (stable, no case data).
/// Returns None when `got` is acceptable (equal to the reference, or differing only in the sign of a zero).
pub fn symptom(got: &str, v: &Val, pat: &Pat, w: &Want) -> Option<String> {
    if got == w.text {
        return None;
    }
    let (neg, int_raw, frac, pct) = match parse_rendered(got) {
        Some(x) => x,
        None => return Some("not-decimal-text".into()),
    };
    let mut feats: Vec<&str> = vec![];
    let int_digits: String = int_raw.chars().filter(|c| *c != ',').collect();
    if !w.zero {
        if v.neg && !neg {
            feats.push("sign-lost");
        }
        if !v.neg && neg {
            feats.push("sign-added");
        }
    } else if !v.neg && neg {
        feats.push("sign-added");
    }
    if pat.pct && !pct {
        feats.push("percent-sign-missing");
    }
    if !pat.pct && pct {
        feats.push("percent-sign-added");
    }
    if pat.thousands {
        if int_raw != group3(&int_digits) {
            feats.push("separators-wrong");
        }
    } else if int_raw.contains(',') {
        feats.push("separators-added");
    }
    if int_digits.len() > 1 && int_digits.starts_with('0') {
        feats.push("integer-leading-zeros");
    }
    let gi = strip_lead(&int_digits).to_string();
    let had_point = frac.is_some();
    let gf = frac.unwrap_or_default();
    let d = pat.d;
    if d == 0 && had_point {
        feats.push("fraction-present");
    } else if gf.len() > d {
        if dec_plus_one(&gi) == w.int && gf == format!("1{}", "0".repeat(d)) {
            feats.push("carry-not-propagated");
        } else if gi == w.int && gf.starts_with(&w.frac) && gf[d..].bytes().all(|b| b == b'0') {
            feats.push("fraction-too-long:zeros-appended");
        } else {
            feats.push("fraction-too-long:digits-wrong");
        }
    } else if gf.len() < d {
        if gi == w.int && format!("{:0>width$}", gf, width = d) == w.frac && !gf.is_empty() {
            feats.push("fraction-leading-zeros-lost");
        } else {
            feats.push("fraction-too-short");
        }
    } else if gi != w.int || gf != w.frac {
        if pat.pct && d > 0 && gf.bytes().all(|b| b == b'0') && !w.frac.bytes().all(|b| b == b'0') && (gi == w.floor0 || gi == w.ceil0) {
            feats.push("rounded-to-integer-before-decimals");
        } else if gi == w.trunc_int && gf == w.trunc_frac {
            feats.push(if w.tie { "tie-rounded-toward-zero" } else { "truncated-not-rounded" });
        } else {
            feats.push("digits-wrong");
        }
    }
    if feats.is_empty() {
        // only the sign of a zero (not pinned by the statement) may differ
        let mut unsigned = String::new();
        unsigned.push_str(got.trim_start_matches('-'));
        if w.zero && unsigned == w.text.trim_start_matches('-') {
            return None;
        }
        return Some("text-differs".into());
    }
    Some(feats.join("+"))
}
