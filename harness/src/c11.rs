//! C11 — lazy loading is equivalent to eager loading for every access pattern (engine E2 + validator P).
//!
//! One node = a lazily opened workbook + its eagerly opened twin (same bytes), both real library objects,
//! stepped through the same history.  The explorer enumerates ALL histories over the alphabet below to the
//! stated depth; one pool case = (initial file, first operation).  `save` is an operation: it is evaluated
//! on every expanded state and its successor is the saved book (a save may change shared tables).
//! `Spreadsheet::clone` shares the shared-string table (an Arc), and a save may write to shared state (it grew
//! that table until the library's fix 5ef43dc), so a save is never executed on an object that other nodes were
//! cloned from: the node's history is replayed on fresh objects first (the replay recomputes every projection
//! and must reproduce the node's key, otherwise the run reports clause harness-replay).
use crate::common::*;
use crate::dump::*;
use crate::e1::*;
use crate::e2::{self, Machine};
use crate::pool::*;
use crate::pyref::with_py;
use crate::wbuild::*;
use serde_json::{json, Value};
use std::collections::{BTreeMap, BTreeSet};
use std::io::Read;
use std::sync::{Arc, OnceLock};
use umya_spreadsheet::*;

pub fn entry() -> crate::Entry {
    crate::Entry { id: "C11", run, space, replay }
}

// =================================================================================================
// initial files

const F_STYLES: u16 = 1;
const F_EXT: u16 = 2;
const F_INT: u16 = 4;
const F_COMMENTS: u16 = 8;
const F_MERGES: u16 = 16;
const F_VALID: u16 = 32;
const F_COND: u16 = 64;
const F_TABLE: u16 = 128;
const F_ALL: u16 = 255;
const FEATURE_NAMES: [&str; 8] = ["styles", "ext-links", "int-links", "comments", "merges", "validations", "cond-formats", "table"];

/// (name, per-sheet feature masks, defined names on first and last sheet)
const GEN: [(&str, &[u16], bool); 12] = [
    ("plain3", &[0, 0, 0], false),
    ("styles3", &[F_STYLES, F_STYLES, F_STYLES], false),
    ("comments-first3", &[F_COMMENTS, 0, 0], false),
    ("comments-last3", &[0, 0, F_COMMENTS], false),
    ("links3", &[F_EXT | F_INT, F_EXT, F_EXT | F_INT], false),
    ("tables3", &[F_TABLE, F_TABLE, 0], false),
    ("mixed3", &[F_COMMENTS | F_EXT, F_TABLE | F_STYLES, F_MERGES | F_VALID | F_COND], false),
    ("all3", &[F_ALL, F_ALL, F_ALL], true),
    ("sparse4", &[0, F_COMMENTS, 0, F_EXT], false),
    ("styled4", &[F_STYLES | F_COMMENTS, F_STYLES | F_EXT, F_STYLES | F_TABLE, F_STYLES | F_MERGES | F_VALID | F_COND], false),
    ("all4", &[F_ALL, F_ALL, F_ALL, F_ALL], true),
    ("tail4", &[F_TABLE, F_COMMENTS | F_STYLES, F_EXT | F_INT, 0], false),
];

const SHEET_NAMES: [&str; 4] = ["Sheet1", "Data 2", "Third", "Fourth & last"];

fn build_gen(k: usize) -> Spreadsheet {
    let (_, masks, names) = GEN[k];
    let mut b = new_file();
    for i in 1..masks.len() {
        b.new_sheet(SHEET_NAMES[i]).unwrap();
    }
    for (i, m) in masks.iter().enumerate() {
        let ws = b.get_sheet_mut(&i).unwrap();
        add_base_cells(ws, &format!("s{}", i + 1));
        if m & F_STYLES != 0 {
            add_styles(ws);
        }
        if m & F_EXT != 0 {
            add_ext_links(ws, 2 + i as u32, &|j| format!("https://example.com/s{}/page{}?x={}", i + 1, j, j * 7));
        }
        if m & F_INT != 0 {
            add_int_links(ws, 2, &|j| format!("Sheet1!B{}", j + i as u32));
        }
        if m & F_COMMENTS != 0 {
            add_comments(ws, 1 + (i as u32 % 2), &|j| if j % 2 == 0 { "Author A".into() } else { "Author B".into() }, &|j| format!("comment {} on sheet {}", j, i + 1));
        }
        if m & F_MERGES != 0 {
            add_merges(ws, 2);
        }
        if m & F_VALID != 0 {
            add_validations(ws, 2, &format!("pick one on {}", i + 1), "\"a,b,c\"");
        }
        if m & F_COND != 0 {
            add_cond_formats(ws, 2, &format!("{}", 20 + i));
        }
        if m & F_TABLE != 0 {
            add_table(ws, &format!("Table{}", i + 1), ["Col A", "Col B"]);
        }
    }
    if names {
        add_defined_names(&mut b, 0, "GlobalOne", "LocalOne");
        add_defined_names(&mut b, masks.len() - 1, "GlobalTwo", "LocalTwo");
    }
    b
}

/// What the ORIGINAL file says about one sheet (independent reading: zip + quick-xml).
#[derive(Clone, Debug)]
pub struct PartInfo {
    pub name: String,
    pub part: String,
    /// N of xl/worksheets/sheetN.xml
    pub part_no: Option<u32>,
    /// the part has a relationship part with at least one relationship
    pub has_rels: bool,
    /// N of every xl/tables/tableN.xml the sheet's relationship part points to
    pub table_parts: Vec<u32>,
    /// sheet names that the <c:f> references of the sheet's charts name (sheet -> drawing -> chart parts)
    pub chart_refs: Vec<String>,
}

/// Resolve a relationship target against the directory of the part that owns the relationship part.
fn resolve(dir: &str, target: &str) -> String {
    if let Some(abs) = target.strip_prefix('/') {
        return abs.to_string();
    }
    let mut segs: Vec<&str> = dir.split('/').filter(|x| !x.is_empty()).collect();
    for t in target.split('/') {
        match t {
            ".." => {
                segs.pop();
            }
            "." | "" => {}
            x => segs.push(x),
        }
    }
    segs.join("/")
}
fn rels_of(z: &mut zip::ZipArchive<std::io::Cursor<&[u8]>>, part: &str) -> Vec<(String, String)> {
    let file = part.rsplit('/').next().unwrap_or("");
    let dir = &part[..part.len() - file.len()];
    let rel_name = format!("{}_rels/{}.rels", dir, file);
    let xml = zip_read(z, &rel_name).unwrap_or_default();
    elements(&xml, b"Relationship")
        .iter()
        .filter(|e| xattr(e, b"TargetMode").as_deref() != Some("External"))
        .filter_map(|e| Some((xattr(e, b"Type")?, resolve(dir, &xattr(e, b"Target")?))))
        .collect()
}
fn texts_of(xml: &[u8], local: &[u8]) -> Vec<String> {
    let mut rd = quick_xml::Reader::from_reader(xml);
    let mut out = vec![];
    let mut inside = false;
    loop {
        match rd.read_event() {
            Ok(quick_xml::events::Event::Eof) | Err(_) => break,
            Ok(quick_xml::events::Event::Start(e)) => inside = e.local_name().as_ref() == local,
            Ok(quick_xml::events::Event::End(_)) => inside = false,
            Ok(quick_xml::events::Event::Text(t)) => {
                if inside {
                    if let Ok(c) = t.unescape() {
                        out.push(c.to_string());
                    }
                }
            }
            _ => {}
        }
    }
    out
}
fn chart_refs_of(z: &mut zip::ZipArchive<std::io::Cursor<&[u8]>>, sheet_part: &str) -> Vec<String> {
    let mut names = BTreeSet::new();
    for (ty, drawing) in rels_of(z, sheet_part) {
        if !ty.ends_with("/drawing") {
            continue;
        }
        for (ty2, chart) in rels_of(z, &drawing) {
            if !ty2.ends_with("/chart") {
                continue;
            }
            let xml = zip_read(z, &chart).unwrap_or_default();
            for f in texts_of(&xml, b"f") {
                if let Some(pos) = f.rfind('!') {
                    let n = f[..pos].trim_matches('\'').replace("''", "'");
                    names.insert(n);
                }
            }
        }
    }
    names.into_iter().collect()
}

fn zip_read(z: &mut zip::ZipArchive<std::io::Cursor<&[u8]>>, name: &str) -> Option<Vec<u8>> {
    let mut f = z.by_name(name).ok()?;
    let mut v = vec![];
    f.read_to_end(&mut v).ok()?;
    Some(v)
}
fn xattr(e: &quick_xml::events::BytesStart, key: &[u8]) -> Option<String> {
    for a in e.attributes().with_checks(false).flatten() {
        if a.key.as_ref() == key {
            return a.unescape_value().ok().map(|c| c.to_string());
        }
    }
    None
}
fn elements(xml: &[u8], local: &[u8]) -> Vec<quick_xml::events::BytesStart<'static>> {
    let mut rd = quick_xml::Reader::from_reader(xml);
    let mut out = vec![];
    loop {
        match rd.read_event() {
            Ok(quick_xml::events::Event::Eof) | Err(_) => break,
            Ok(quick_xml::events::Event::Start(e)) | Ok(quick_xml::events::Event::Empty(e)) => {
                if e.local_name().as_ref() == local {
                    out.push(e.into_owned());
                }
            }
            _ => {}
        }
    }
    out
}
pub fn sheet_parts(bytes: &[u8]) -> Vec<PartInfo> {
    let mut out = vec![];
    let mut z = match zip::ZipArchive::new(std::io::Cursor::new(bytes)) {
        Ok(z) => z,
        Err(_) => return out,
    };
    let wb = zip_read(&mut z, "xl/workbook.xml").unwrap_or_default();
    let rels = zip_read(&mut z, "xl/_rels/workbook.xml.rels").unwrap_or_default();
    let mut target: BTreeMap<String, String> = BTreeMap::new();
    for e in elements(&rels, b"Relationship") {
        if let (Some(id), Some(t)) = (xattr(&e, b"Id"), xattr(&e, b"Target")) {
            target.insert(id, t);
        }
    }
    for e in elements(&wb, b"sheet") {
        let name = xattr(&e, b"name").unwrap_or_default();
        let rid = xattr(&e, b"r:id").unwrap_or_default();
        let t = target.get(&rid).cloned().unwrap_or_default();
        let part = if let Some(abs) = t.strip_prefix('/') { abs.to_string() } else { format!("xl/{}", t) };
        let file = part.rsplit('/').next().unwrap_or("").to_string();
        let dir = part[..part.len() - file.len()].to_string();
        let part_no = file.strip_prefix("sheet").and_then(|r| r.strip_suffix(".xml")).and_then(|d| d.parse::<u32>().ok());
        let rel_name = format!("{}_rels/{}.rels", dir, file);
        let rel_elems = zip_read(&mut z, &rel_name).map(|x| elements(&x, b"Relationship")).unwrap_or_default();
        let has_rels = !rel_elems.is_empty();
        let table_parts = rel_elems
            .iter()
            .filter_map(|e| xattr(e, b"Target"))
            .filter_map(|t| t.rsplit('/').next().and_then(|f| f.strip_prefix("table")).and_then(|r| r.strip_suffix(".xml")).and_then(|d| d.parse::<u32>().ok()))
            .collect();
        let chart_refs = chart_refs_of(&mut z, &part);
        out.push(PartInfo { name, part, part_no, has_rels, table_parts, chart_refs });
    }
    out
}

pub struct Init {
    pub name: String,
    pub bytes: Arc<Vec<u8>>,
    pub parts: Vec<PartInfo>,
    pub tags: Vec<String>,
    pub nsheets: usize,
    /// number of tables per sheet (eager load)
    pub tables: Vec<usize>,
    /// cells + row entries + column entries of the eager load (deterministic size measure)
    pub weight: usize,
    /// validator problems (class:part family) of the ORIGINAL file: a byte-for-byte copy inherits them
    pub orig_problems: OnceLock<BTreeSet<String>>,
}
impl Init {
    fn new(name: String, bytes: Vec<u8>, parts: Vec<PartInfo>, tags: Vec<String>, eager: &Spreadsheet) -> Init {
        let sheets = eager.get_sheet_collection_no_check();
        let tables = sheets.iter().map(|w| w.get_tables().len()).collect();
        let weight = sheets.iter().map(|w| w.get_collection_to_hashmap().len() + w.get_row_dimensions().len() + w.get_column_dimensions().len()).sum();
        Init { name, nsheets: sheets.len(), bytes: Arc::new(bytes), parts, tags, tables, weight, orig_problems: OnceLock::new() }
    }
    fn orig_problems(&self) -> &BTreeSet<String> {
        self.orig_problems.get_or_init(|| with_py(|py| py.validate(&self.bytes)).into_iter().map(|(c, p, _)| format!("{}:{}", c, part_family(&p))).collect())
    }
}
const HEAVY: usize = 30_000;

fn gen_inits() -> Vec<Init> {
    let mut v = vec![];
    for k in 0..GEN.len() {
        let b = build_gen(k);
        let bytes = save_bytes(&b, false).unwrap_or_else(|e| {
            eprintln!("MACHINERY: C11 cannot save generated workbook {}: {}", GEN[k].0, e);
            std::process::exit(2);
        });
        let parts = sheet_parts(&bytes);
        let n = GEN[k].1.len();
        if parts.len() != n {
            eprintln!("MACHINERY: C11 generated workbook {} has {} sheet parts, expected {}", GEN[k].0, parts.len(), n);
            std::process::exit(2);
        }
        let mut tags = vec!["gen".to_string(), format!("gen:{}", GEN[k].0), format!("sheets:{}", n)];
        let union = GEN[k].1.iter().fold(0u16, |a, m| a | m);
        for (i, f) in FEATURE_NAMES.iter().enumerate() {
            if union & (1 << i) != 0 {
                tags.push(format!("file-has:{}", f));
            }
        }
        let eager = load_bytes(&bytes, true).unwrap_or_else(|e| {
            eprintln!("MACHINERY: C11 cannot load generated workbook {}: {}", GEN[k].0, e);
            std::process::exit(2);
        });
        v.push(Init::new(format!("gen:{}", GEN[k].0), bytes, parts, tags, &eager));
    }
    // files as OTHER producers write them (Python generator, family `multi`): several sheets over one shared-string
    // table with duplicate and unused entries - an unloaded sheet's indexes must be taken literally
    let mut k = 0u64;
    loop {
        let r = with_py(|py| py.call(json!({"op": "gen", "family": "multi", "index": k}), &[]));
        if r["ok"] != json!(true) {
            break;
        }
        use base64::Engine;
        let bytes = match base64::engine::general_purpose::STANDARD.decode(r["b64"].as_str().unwrap_or("")) {
            Ok(b) => b,
            Err(_) => break,
        };
        let label = r["label"].as_str().unwrap_or("multi").to_string();
        if let (Ok(_), Ok(eager)) = (load_bytes(&bytes, false), load_bytes(&bytes, true)) {
            let parts = sheet_parts(&bytes);
            let n = parts.len();
            v.push(Init::new(format!("foreign:{}", label), bytes, parts, vec!["gen".to_string(), "foreign-producer".to_string(), format!("foreign:{}", label), format!("sheets:{}", n)], &eager));
        }
        k += 1;
        if k >= r["family_size"].as_u64().unwrap_or(0) {
            break;
        }
    }
    v
}

/// Multi-sheet corpus files that both readers accept, smallest first.
fn corpus_all() -> &'static Vec<Arc<Init>> {
    static ALL: OnceLock<Vec<Arc<Init>>> = OnceLock::new();
    ALL.get_or_init(|| corpus_upto(u64::MAX))
}
/// The quick tier only looks at files of at most 64 KiB (loading the big ones costs seconds per worker).
fn corpus_quick() -> &'static Vec<Arc<Init>> {
    static Q: OnceLock<Vec<Arc<Init>>> = OnceLock::new();
    Q.get_or_init(|| corpus_upto(65_536))
}
fn corpus_upto(max_bytes: u64) -> Vec<Arc<Init>> {
    {
        let mut files: Vec<(u64, String)> = crate::c02::corpus_files().into_iter().map(|p| (std::fs::metadata(&p).map(|m| m.len()).unwrap_or(0), p)).collect();
        files.sort();
        let mut v = vec![];
        for (len, p) in files {
            if len > max_bytes {
                continue;
            }
            let bytes = match std::fs::read(&p) {
                Ok(b) => b,
                Err(_) => continue,
            };
            let parts = sheet_parts(&bytes);
            if parts.len() < 2 {
                continue;
            }
            // a corpus file the library cannot read at all is C03's business
            let lazy = match load_bytes(&bytes, false) {
                Ok(b) => b,
                Err(_) => continue,
            };
            let eager = match load_bytes(&bytes, true) {
                Ok(b) => b,
                Err(_) => continue,
            };
            let n = lazy.get_sheet_count();
            if n != parts.len() {
                continue;
            }
            let file = p.rsplit('/').next().unwrap_or("").to_string();
            let mut tags = vec!["corpus".to_string(), format!("corpus:{}", file), format!("sheets:{}", n.min(9))];
            if parts.iter().enumerate().any(|(i, q)| q.part_no != Some(i as u32 + 1)) {
                tags.push("orig-part-numbering-irregular".into());
            }
            v.push(Arc::new(Init::new(format!("corpus:{}", file), bytes, parts, tags, &eager)));
        }
        v
    }
}

fn inits_for(id: &str) -> &'static Vec<Arc<Init>> {
    static GENS: OnceLock<Vec<Arc<Init>>> = OnceLock::new();
    static SMALL: OnceLock<Vec<Arc<Init>>> = OnceLock::new();
    static NORMAL: OnceLock<Vec<Arc<Init>>> = OnceLock::new();
    static HEAVYS: OnceLock<Vec<Arc<Init>>> = OnceLock::new();
    static WIDE: OnceLock<Vec<Arc<Init>>> = OnceLock::new();
    static FEATURES: OnceLock<Vec<Arc<Init>>> = OnceLock::new();
    match id {
        "gen" => GENS.get_or_init(|| gen_inits().into_iter().map(Arc::new).collect()),
        // quick: the 3 smallest light multi-sheet files (<= 4 sheets) + the 3 smallest further ones in which a sheet has relationships
        "corpus-small" => SMALL.get_or_init(|| {
            let light: Vec<&Arc<Init>> = corpus_quick().iter().filter(|i| i.weight <= HEAVY && i.nsheets <= 4).collect();
            let mut v: Vec<Arc<Init>> = light.iter().take(3).map(|i| (*i).clone()).collect();
            for i in light.iter().skip(3).filter(|i| i.parts.iter().filter(|p| p.has_rels).count() >= 1).take(3) {
                v.push((*i).clone());
            }
            v
        }),
        // quick, smaller depth: the smallest file with a chart that refers to another sheet + the smallest with tables on two sheets
        "corpus-features" => FEATURES.get_or_init(|| {
            let light: Vec<&Arc<Init>> = corpus_quick().iter().filter(|i| i.weight <= HEAVY && i.nsheets <= 4).collect();
            let mut v: Vec<Arc<Init>> = vec![];
            if let Some(i) = light.iter().find(|i| i.parts.iter().any(|p| p.chart_refs.iter().any(|r| *r != p.name))) {
                v.push((*i).clone());
            }
            if let Some(i) = light.iter().find(|i| i.tables.iter().filter(|t| **t > 0).count() >= 2) {
                if !v.iter().any(|x| x.name == i.name) {
                    v.push((*i).clone());
                }
            }
            v
        }),
        "corpus" => NORMAL.get_or_init(|| corpus_all().iter().filter(|i| i.weight <= HEAVY).cloned().collect()),
        "corpus-big" => HEAVYS.get_or_init(|| corpus_all().iter().filter(|i| i.weight > HEAVY && i.nsheets <= 4).cloned().collect()),
        _ => WIDE.get_or_init(|| corpus_all().iter().filter(|i| i.weight > HEAVY && i.nsheets > 4).cloned().collect()),
    }
}

// =================================================================================================
// alphabet

#[derive(Clone, Debug, PartialEq)]
pub enum Op {
    Read(usize),
    ReadAll,
    MutText(usize),
    NameNum(usize),
    Rename(usize),
    WbInsert(usize),
    New,
    Remove(usize),
    /// a clone of the workbook is fully loaded, saved to a sink and dropped: the original must not notice
    Fork,
    /// sheet i is materialised READ-ONLY (read_sheet), copied with get_sheet(i).clone(), the copy is renamed and edited
    /// as an owned object and appended with add_sheet
    CopySheet(usize),
    Save,
}
impl Op {
    fn to_json(&self) -> Value {
        match self {
            Op::Read(i) => json!({"op": "read_sheet", "i": i}),
            Op::ReadAll => json!({"op": "read_sheet_collection"}),
            Op::MutText(i) => json!({"op": "get_sheet_mut+set_text+add_comment", "i": i, "cell": "A2", "text": EDIT_TEXT, "comment_at": "F6"}),
            Op::NameNum(i) => json!({"op": "get_sheet_by_name_mut+set_number_styled", "i": i, "cell": "C3", "number": 42.5}),
            Op::Rename(i) => json!({"op": "set_sheet_name", "i": i}),
            Op::WbInsert(i) => json!({"op": "insert_new_row(name_of(i),1,1)", "i": i}),
            Op::New => json!({"op": "new_sheet+cell"}),
            Op::Remove(i) => json!({"op": "remove_sheet", "i": i}),
            Op::Fork => json!({"op": "clone(); clone.read_sheet_collection(); save clone; drop clone"}),
            Op::CopySheet(i) => json!({"op": "read_sheet(i); c = get_sheet(i).clone(); c.set_name(..); c.A1 = text; add_sheet(c)", "i": i, "text": COPY_TEXT}),
            Op::Save => json!({"op": "save"}),
        }
    }
    fn name(&self) -> &'static str {
        match self {
            Op::Read(_) => "read_sheet",
            Op::ReadAll => "read_sheet_collection",
            Op::MutText(_) => "get_sheet_mut",
            Op::NameNum(_) => "get_sheet_by_name_mut",
            Op::Rename(_) => "set_sheet_name",
            Op::WbInsert(_) => "wb_insert_new_row",
            Op::New => "new_sheet",
            Op::Remove(_) => "remove_sheet",
            Op::Fork => "fork_clone",
            Op::CopySheet(_) => "copy_sheet_after_read_only_access",
            Op::Save => "save",
        }
    }
}
const EDIT_TEXT: &str = "lazy edit <&> text";
const NEW_TEXT: &str = "text of a new sheet";
const COPY_TEXT: &str = "edited in the copy";
const MAX_SHEETS: usize = 64;

fn ops_for(n: usize) -> Vec<Op> {
    let mut v = vec![];
    for i in 0..n {
        v.push(Op::Read(i));
    }
    v.push(Op::ReadAll);
    for i in 0..n {
        v.push(Op::MutText(i));
    }
    for i in 0..n {
        v.push(Op::NameNum(i));
    }
    for i in 0..n {
        v.push(Op::Rename(i));
    }
    for i in 0..n {
        v.push(Op::WbInsert(i));
    }
    if n < MAX_SHEETS {
        v.push(Op::New);
    }
    if n >= 2 {
        for i in 0..n {
            v.push(Op::Remove(i));
        }
    }
    v.push(Op::Fork);
    if n < MAX_SHEETS {
        v.push(Op::CopySheet(0));
        if n >= 2 {
            v.push(Op::CopySheet(n - 1));
        }
    }
    v.push(Op::Save);
    v
}

fn edit_style() -> Style {
    let mut s = Style::default();
    s.get_font_mut().set_italic(true);
    s.get_numbering_format_mut().set_format_code("0.000");
    s
}

fn sheet_names(b: &Spreadsheet) -> Vec<String> {
    b.get_sheet_collection_no_check().iter().map(|w| w.get_name().to_string()).collect()
}
fn fresh_name(b: &Spreadsheet, stem: &str) -> String {
    let names = sheet_names(b);
    let mut k = 1;
    loop {
        let c = format!("{}{}", stem, k);
        if !names.iter().any(|n| *n == c) {
            return c;
        }
        k += 1;
    }
}

/// Apply one non-save operation through the public API.  The returned string is the call's own outcome
/// (Ok/Err text), compared between the lazy book and the twin.
fn apply(b: &mut Spreadsheet, op: &Op) -> String {
    match op {
        Op::Read(i) => {
            b.read_sheet(*i);
            "ok".into()
        }
        Op::ReadAll => {
            b.read_sheet_collection();
            "ok".into()
        }
        Op::MutText(i) => match b.get_sheet_mut(i) {
            Some(ws) => {
                ws.get_cell_mut("A2").set_value_string(EDIT_TEXT);
                // the edit also needs a NEW numbered dependent part (comments + vmlDrawing): its name must not
                // collide with a part that a still unloaded sheet owns
                let mut c = Comment::default();
                c.new_comment("F6");
                c.set_author("lazy editor");
                c.set_text_string("note added to a materialised sheet");
                ws.add_comments(c);
                "ok".into()
            }
            None => "none".into(),
        },
        Op::NameNum(i) => {
            let name = sheet_names(b)[*i].clone();
            match b.get_sheet_by_name_mut(&name) {
                Some(ws) => {
                    let c = ws.get_cell_mut("C3");
                    c.set_value_number(42.5);
                    c.set_style(edit_style());
                    "ok".into()
                }
                None => "none".into(),
            }
        }
        Op::Rename(i) => {
            let n = fresh_name(b, "Ren ");
            match b.set_sheet_name(*i, n) {
                Ok(()) => "ok".into(),
                Err(e) => format!("err:{}", e),
            }
        }
        Op::WbInsert(i) => {
            let name = sheet_names(b)[*i].clone();
            b.insert_new_row(&name, &1, &1);
            "ok".into()
        }
        Op::New => {
            let n = fresh_name(b, "New");
            match b.new_sheet(n) {
                Ok(ws) => {
                    ws.get_cell_mut("A1").set_value_string(NEW_TEXT);
                    ws.get_cell_mut("B2").set_value_number(7);
                    "ok".into()
                }
                Err(e) => format!("err:{}", e),
            }
        }
        Op::Remove(i) => match b.remove_sheet(*i) {
            Ok(()) => "ok".into(),
            Err(e) => format!("err:{}", e),
        },
        Op::Fork => {
            let mut c = b.clone();
            c.read_sheet_collection();
            let mut sink = std::io::Cursor::new(Vec::new());
            let r = umya_spreadsheet::writer::xlsx::write_writer(&c, &mut sink);
            drop(c);
            match r {
                Ok(()) => "ok".into(),
                Err(e) => format!("err:{:?}", e),
            }
        }
        Op::CopySheet(i) => {
            b.read_sheet(*i);
            let n = fresh_name(b, "Copy");
            let mut c = match b.get_sheet(i) {
                Some(w) => w.clone(),
                None => return "none".into(),
            };
            c.set_name(n);
            // workbook-wide names live on the sheet object: a copy must not bring them a second time
            c.get_defined_names_mut().clear();
            c.get_cell_mut("A1").set_value_string(COPY_TEXT);
            match b.add_sheet(c) {
                Ok(_) => "ok".into(),
                Err(e) => format!("err:{}", e),
            }
        }
        Op::Save => "ok".into(),
    }
}

fn guarded<T>(f: impl FnOnce() -> T) -> Result<T, String> {
    std::panic::catch_unwind(std::panic::AssertUnwindSafe(f)).map_err(|e| panic_msg(&e))
}

/// Public way to learn whether sheet `i` is materialised: `get_sheet(&i)` is documented to assert on an
/// unloaded sheet.
fn is_materialised(b: &Spreadsheet, i: usize) -> bool {
    matches!(guarded(|| b.get_sheet(&i).is_some()), Ok(true))
}

// =================================================================================================
// reference model (bookkeeping of the history shape; the content oracle is the eager twin)

#[derive(Clone, Debug, PartialEq)]
struct MSheet {
    /// index in the original file (None: created by new_sheet)
    orig: Option<usize>,
    /// an accessor that is documented to materialise was called on it
    expect_mat: bool,
    renamed_while_unloaded: bool,
    edited: bool,
}

#[derive(Clone)]
pub struct St {
    lazy: Spreadsheet,
    twin: Spreadsheet,
    hist: Vec<Op>,
    model: Vec<MSheet>,
    removed: Vec<usize>,
    wb_insert: bool,
    saves: u32,
    save_sig: u64,
    key: u128,
    /// per current sheet: materialised in the lazy book (observed)
    mat: Vec<bool>,
    /// per current sheet: cached hash of the projection of the lazy book's sheet (None while unloaded) and of the twin's
    /// (the projections themselves are not kept: they are rebuilt when two hashes differ and a diff has to be shown)
    lp: Vec<Option<u128>>,
    tp: Vec<Option<u128>>,
}

fn diff_symptom(path: &str, left: &str, right: &str) -> String {
    let mut segs = vec![];
    for seg in path.split('/').filter(|s| !s.is_empty()).take(4) {
        let digits = seg.chars().filter(|c| c.is_ascii_digit()).count();
        let mut s: String = if digits >= 5 { "*".to_string() } else { seg.chars().map(|c| if c.is_ascii_digit() { '#' } else { c }).collect() };
        while s.contains("##") {
            s = s.replace("##", "#");
        }
        segs.push(s);
    }
    let kind = if left == "<absent>" {
        ":missing-in-lazy"
    } else if right == "<absent>" {
        ":extra-in-lazy"
    } else {
        ""
    };
    format!("/{}{}", segs.join("/"), kind)
}

fn part_family(p: &str) -> String {
    let mut s: String = p.chars().map(|c| if c.is_ascii_digit() { '#' } else { c }).collect();
    while s.contains("##") {
        s = s.replace("##", "#");
    }
    s
}

pub struct C11Machine<'a> {
    init: &'a Init,
    depth: usize,
    /// what is compared: FULL, or (heavy files) everything but styles
    opts: Opts,
    counters: std::cell::RefCell<BTreeMap<String, u64>>,
    /// false while a history is replayed silently (the cell stream was checked when the step was first taken)
    stream_check: std::cell::Cell<bool>,
    /// accumulated microseconds per phase (development aid; never part of a verdict)
    timers: std::cell::RefCell<BTreeMap<String, u64>>,
    obs: std::cell::RefCell<Vec<u64>>,
}

impl<'a> C11Machine<'a> {
    fn new(init: &'a Init, depth: usize) -> Self {
        let opts = if init.weight > HEAVY { Opts { styles: false, annotations: true, dims: true } } else { Opts::FULL };
        C11Machine { init, depth, opts, stream_check: std::cell::Cell::new(true), counters: Default::default(), timers: Default::default(), obs: Default::default() }
    }
    fn count(&self, k: &str) {
        *self.counters.borrow_mut().entry(k.to_string()).or_insert(0) += 1;
    }
    /// hash of the projection of one sheet (the projection itself is dropped)
    fn proj(&self, ws: &Worksheet) -> u128 {
        e2::key_of(&sheet_p(ws, self.opts).to_string())
    }
    fn time(&self, k: &str, t0: std::time::Instant) {
        *self.timers.borrow_mut().entry(k.to_string()).or_insert(0) += t0.elapsed().as_micros() as u64;
    }

    fn fresh(&self) -> Result<(Spreadsheet, Spreadsheet), String> {
        let lazy = load_bytes(&self.init.bytes, false)?;
        let twin = load_bytes(&self.init.bytes, true)?;
        Ok((lazy, twin))
    }

    fn init_state(&self) -> Result<St, String> {
        self.init_state_checked().map(|x| x.0)
    }

    /// Initial state plus the violations of its own observation (reported once per file, by the case of the first operation).
    fn init_state_checked(&self) -> Result<(St, Vec<Violation>), String> {
        let (lazy, twin) = self.fresh()?;
        let n = lazy.get_sheet_count();
        let model = (0..n).map(|i| MSheet { orig: Some(i), expect_mat: false, renamed_while_unloaded: false, edited: false }).collect();
        let mut s = St { lazy, twin, hist: vec![], model, removed: vec![], wb_insert: false, saves: 0, save_sig: 0, key: 0, mat: vec![], lp: vec![], tp: vec![] };
        let mut vs = vec![];
        self.observe(&mut s, &mut vs, true, &[]);
        Ok((s, vs))
    }

    /// Tags describing the shape of the history that led to `s` (all derived from state that is part of the key).
    fn shape_tags(&self, s: &St) -> Vec<String> {
        let mut t: BTreeSet<String> = BTreeSet::new();
        let n = s.model.len();
        let unloaded: Vec<usize> = (0..n).filter(|i| !s.mat.get(*i).copied().unwrap_or(true)).collect();
        if unloaded.is_empty() {
            t.insert("all-materialised".into());
        } else if unloaded.len() == n {
            t.insert("none-materialised".into());
            t.insert("some-unloaded".into());
        } else {
            t.insert("some-unloaded".into());
            t.insert("mixed-materialised-unloaded".into());
        }
        let part_no = |i: usize| s.model[i].orig.and_then(|o| self.init.parts.get(o)).and_then(|p| p.part_no);
        let has_rels = |i: usize| s.model[i].orig.and_then(|o| self.init.parts.get(o)).map(|p| p.has_rels).unwrap_or(false);
        let mut renumbered = false;
        for &i in &unloaded {
            if part_no(i) != Some(i as u32 + 1) {
                renumbered = true;
                t.insert("unloaded-sheet-renumbered".into());
                t.insert(if has_rels(i) { "unloaded-renumbered-sheet-has-rels" } else { "unloaded-renumbered-sheet-no-rels" }.into());
                if let Some(o) = s.model[i].orig {
                    if s.removed.iter().any(|r| *r < o) {
                        t.insert("removed-before-unloaded".into());
                    }
                }
            }
            if s.model[i].renamed_while_unloaded {
                t.insert("renamed-while-unloaded".into());
            }
            // another sheet now sits at the position whose part name this unloaded sheet's relationship part keeps
            if let Some(pn) = part_no(i) {
                let pos = pn as usize - 1;
                if pos != i && pos < n && has_rels(i) {
                    t.insert("unloaded-rels-name-taken-by-other-sheet".into());
                }
            }
        }
        if !renumbered && !unloaded.is_empty() {
            t.insert("unloaded-sheets-keep-their-number".into());
        }
        // the writer numbers the tables of materialised sheets 1,2,.. in sheet order; unloaded sheets keep their table parts
        let raw_tables: BTreeSet<u32> = unloaded.iter().filter_map(|&i| s.model[i].orig.and_then(|o| self.init.parts.get(o))).flat_map(|p| p.table_parts.iter().copied()).collect();
        let mut next = 0u32;
        for (i, ws) in s.twin.get_sheet_collection_no_check().iter().enumerate() {
            if s.mat.get(i).copied().unwrap_or(true) {
                for _ in 0..ws.get_tables().len() {
                    next += 1;
                    if raw_tables.contains(&next) {
                        t.insert("materialised-table-number-taken-by-unloaded-sheet".into());
                    }
                }
            }
        }
        // the chart writer reads the cells that a chart's series name, through the asserting accessor
        for i in 0..n {
            if !s.mat.get(i).copied().unwrap_or(true) {
                continue;
            }
            if let Some(p) = s.model[i].orig.and_then(|o| self.init.parts.get(o)) {
                for r in &p.chart_refs {
                    let target = self.init.parts.iter().position(|q| &q.name == r);
                    match target.and_then(|o| s.model.iter().position(|m| m.orig == Some(o))) {
                        Some(j) => {
                            if !s.mat.get(j).copied().unwrap_or(true) {
                                t.insert("materialised-chart-refers-to-unloaded-sheet".into());
                            }
                            if s.hist.iter().any(|o| matches!(o, Op::Rename(_))) && sheet_names(&s.twin).get(j).map(|x| x != r).unwrap_or(false) {
                                t.insert("chart-refers-to-renamed-sheet".into());
                            }
                        }
                        None => {
                            t.insert("chart-refers-to-removed-sheet".into());
                        }
                    }
                }
            }
        }
        if !s.removed.is_empty() {
            t.insert("removed-sheet".into());
        }
        if s.model.iter().any(|m| m.orig.is_none()) {
            t.insert("new-sheet".into());
            if !unloaded.is_empty() {
                t.insert("new-sheet-while-unloaded".into());
            }
        }
        if s.hist.iter().any(|o| matches!(o, Op::Rename(_))) {
            t.insert("renamed".into());
        }
        if s.model.iter().any(|m| m.edited) {
            t.insert("edited".into());
        }
        if s.wb_insert {
            t.insert("wb-insert".into());
        }
        if s.saves > 0 {
            t.insert("resaved".into());
        }
        if s.removed.is_empty() && !s.model.iter().any(|m| m.orig.is_none()) {
            t.insert("no-add-no-remove".into());
        }
        let mut v: Vec<String> = self.init.tags.clone();
        v.extend(t);
        v
    }

    fn viol(&self, s: &St, clause: &str, symptom: &str, extra: &[String], detail: String) -> Violation {
        let mut tags = self.shape_tags(s);
        tags.extend(extra.iter().cloned());
        Violation { clause: clause.into(), symptom: symptom.into(), tags, case: Value::Null, detail }
    }

    /// Observe the state: materialisation flags, clause sheet-list, clause materialised-equals-eager,
    /// clause materialised-on-access; computes the state key.  Projections are cached per sheet: with
    /// `full == false` only the sheets in `touched` (and sheets whose materialisation flag changed) are
    /// projected again; every save-expanded state is re-observed with `full == true` on fresh objects and
    /// must give the same key, which checks the caches.
    fn observe(&self, s: &mut St, out: &mut Vec<Violation>, full: bool, touched: &[usize]) {
        let ln = sheet_names(&s.lazy);
        let tn = sheet_names(&s.twin);
        let t0 = std::time::Instant::now();
        s.mat = (0..ln.len()).map(|i| is_materialised(&s.lazy, i)).collect();
        self.time("is_materialised", t0);
        if ln != tn {
            let sym = if ln.len() != tn.len() { "sheet-count" } else { "sheet-name-or-order" };
            out.push(self.viol(s, "sheet-list", sym, &[], format!("lazy sheets {:?}, eager twin sheets {:?}", ln, tn)));
        }
        let n = ln.len();
        let full = full || s.lp.len() != n || s.tp.len() != n;
        if full {
            s.lp = vec![None; n];
            s.tp = vec![None; n];
        }
        let mut keyparts: Vec<Value> = vec![];
        for i in 0..n {
            let redo = full || touched.contains(&i);
            // read_sheet on the (fully loaded) twin cannot change it: its cached projection stays
            let redo_twin = full || (touched.contains(&i) && !matches!(s.hist.last(), Some(Op::Read(_))));
            if redo_twin || s.tp[i].is_none() {
                s.tp[i] = s.twin.get_sheet_collection_no_check().get(i).map(|w| self.proj(w));
            }
            if !s.mat[i] {
                s.lp[i] = None;
            } else if redo || s.lp[i].is_none() {
                s.lp[i] = Some(self.proj(&s.lazy.get_sheet_collection_no_check()[i]));
            }
            let th = s.tp[i].unwrap_or(0);
            if s.mat[i] {
                let lh = s.lp[i].unwrap_or(0);
                if lh != th {
                    let lv = sheet_p(&s.lazy.get_sheet_collection_no_check()[i], self.opts);
                    let tv = s.twin.get_sheet_collection_no_check().get(i).map(|w| sheet_p(w, self.opts)).unwrap_or(Value::Null);
                    if let Some((path, l, r)) = first_diff(&lv, &tv) {
                        let sym = diff_symptom(&path, &l, &r);
                        out.push(self.viol(s, "materialised-equals-eager", &sym, &[], format!("sheet {} ({:?}) of the lazy book differs from the eager twin at {}: lazy {} / eager {}", i, ln[i], path, l, r)));
                    }
                }
                keyparts.push(json!({"mat": true, "twin": format!("{:032x}", th), "lazy": format!("{:032x}", lh)}));
            } else {
                if full && self.stream_check.get() {
                    // read-only access to an unloaded sheet: the cell stream must show the eager sheet's cells
                    // (values, formulas, styles; hyperlinks are not part of the stream)
                    self.check_cell_stream(s, i, &ln[i], out);
                }
                if s.model.get(i).map(|m| m.expect_mat).unwrap_or(false) {
                    out.push(self.viol(s, "materialised-on-access", "still-unloaded", &[], format!("sheet {} ({:?}) is still unloaded after a materialising accessor", i, ln[i])));
                }
                keyparts.push(json!({"mat": false, "twin": format!("{:032x}", th)}));
            }
        }
        let model: Vec<Value> = s.model.iter().map(|m| json!([m.orig, m.expect_mat, m.renamed_while_unloaded, m.edited])).collect();
        let k = json!({"names": ln, "sheets": keyparts, "model": model, "removed": s.removed, "wbins": s.wb_insert, "saves": s.saves, "save_sig": s.save_sig,
            "active": s.lazy.get_workbook_view().get_active_tab()});
        s.key = e2::key_of(&k.to_string());
    }

    fn check_cell_stream(&self, s: &St, i: usize, name: &str, out: &mut Vec<Violation>) {
        let o = Opts { styles: self.opts.styles, annotations: false, dims: false };
        let cells_json = |it: &mut dyn Iterator<Item = &Cell>| -> Value {
            let mut m = serde_json::Map::new();
            for c in it {
                if is_blank_cell(c) && !o.styles {
                    continue;
                }
                let co = c.get_coordinate();
                m.insert(ckey(*co.get_col_num(), *co.get_row_num()), cell_p(c, o));
            }
            Value::Object(m)
        };
        self.count("cell_streams_checked");
        match guarded(|| s.lazy.get_lazy_read_sheet_cells(&i).map(|cells| cells_json(&mut cells.iter_collection()))) {
            Err(p) => out.push(self.viol(s, "lazy-cell-stream-equals-eager", &format!("panic:{}", panic_class(&p)), &[], format!("get_lazy_read_sheet_cells({}) panicked: {}", i, p))),
            Ok(Err(e)) => out.push(self.viol(s, "lazy-cell-stream-equals-eager", "refused", &[], format!("get_lazy_read_sheet_cells({}) -> Err({})", i, e))),
            Ok(Ok(lv)) => {
                let tv = match s.twin.get_sheet_collection_no_check().get(i) {
                    Some(w) => cells_json(&mut w.get_cell_collection().into_iter()),
                    None => return,
                };
                if let Some((path, l, r)) = first_diff(&lv, &tv) {
                    out.push(self.viol(s, "lazy-cell-stream-equals-eager", &diff_symptom(&path, &l, &r), &[], format!("cell stream of unloaded sheet {} ({:?}) differs from the eager twin's cells at {}: stream {} / eager {}", i, name, path, l, r)));
                }
            }
        }
    }

    /// Returns (sheets whose projection must be refreshed, refresh everything).
    fn update_model(&self, s: &mut St, op: &Op, mat_before: &[bool]) -> (Vec<usize>, bool) {
        let mut touched = vec![];
        let mut full = false;
        match op {
            Op::Read(i) => {
                s.model[*i].expect_mat = true;
                touched.push(*i);
            }
            Op::ReadAll => {
                // the twin is untouched; newly materialised sheets of the lazy book have no cached projection yet
                for m in s.model.iter_mut() {
                    m.expect_mat = true;
                }
            }
            Op::MutText(i) | Op::NameNum(i) => {
                s.model[*i].expect_mat = true;
                s.model[*i].edited = true;
                touched.push(*i);
            }
            Op::Rename(i) => {
                touched.push(*i);
                if !mat_before[*i] {
                    s.model[*i].renamed_while_unloaded = true;
                }
            }
            Op::WbInsert(_) => {
                full = true;
                s.wb_insert = true;
                for m in s.model.iter_mut() {
                    m.edited = true;
                }
            }
            Op::New => {
                s.model.push(MSheet { orig: None, expect_mat: true, renamed_while_unloaded: false, edited: true });
                s.lp.push(None);
                s.tp.push(None);
                touched.push(s.model.len() - 1);
            }
            Op::Remove(i) => {
                let m = s.model.remove(*i);
                s.removed.push(m.orig.unwrap_or(usize::MAX - 1));
                if *i < s.lp.len() && s.lp.len() == s.tp.len() {
                    s.lp.remove(*i);
                    s.tp.remove(*i);
                }
            }
            Op::CopySheet(i) => {
                s.model[*i].expect_mat = true;
                touched.push(*i);
                s.model.push(MSheet { orig: None, expect_mat: true, renamed_while_unloaded: false, edited: true });
                s.lp.push(None);
                s.tp.push(None);
                touched.push(s.model.len() - 1);
            }
            Op::Fork | Op::Save => {}
        }
        (touched, full)
    }

    /// One non-save step on (lazy, twin) with the oracle.
    fn step_plain(&self, s: &St, op: &Op, out: &mut Vec<Violation>, check: bool) -> Option<St> {
        let t0 = std::time::Instant::now();
        let mut n = s.clone();
        self.time("clone", t0);
        n.hist.push(op.clone());
        let t0 = std::time::Instant::now();
        let rt = guarded(|| apply(&mut n.twin, op));
        let rl = guarded(|| apply(&mut n.lazy, op));
        self.time("apply", t0);
        match (&rl, &rt) {
            (Err(pl), Ok(_)) => {
                if check {
                    out.push(self.viol(s, "no-panic-lazy-only", &format!("panic:{}", panic_class(pl)), &[format!("op:{}", op.name())], format!("{} panicked on the lazy book only: {}", op.to_json(), pl)));
                }
                return None;
            }
            (Ok(_), Err(pt)) => {
                if check {
                    out.push(self.viol(s, "same-outcome", &format!("eager-only-panic:{}", panic_class(pt)), &[format!("op:{}", op.name())], format!("{} panicked on the eager twin only: {}", op.to_json(), pt)));
                }
                return None;
            }
            (Err(_), Err(_)) => {
                // the operation itself is broken in the same way without laziness: outside this property
                self.count(&format!("op_panics_on_both:{}", op.name()));
                return None;
            }
            (Ok(a), Ok(b)) => {
                if a != b {
                    if check {
                        out.push(self.viol(s, "same-outcome", "result-differs", &[format!("op:{}", op.name())], format!("{}: lazy returned {:?}, eager twin {:?}", op.to_json(), a, b)));
                    }
                    return None;
                }
                if a != "ok" {
                    self.count(&format!("op_refused_on_both:{}", op.name()));
                    return None;
                }
            }
        }
        let (touched, full) = self.update_model(&mut n, op, &s.mat);
        let mut vs = vec![];
        let t0 = std::time::Instant::now();
        self.observe(&mut n, &mut vs, full || !check, &touched);
        self.time(if check { "observe" } else { "observe_replay" }, t0);
        if check {
            for mut v in vs {
                v.tags.push(format!("op:{}", op.name()));
                out.push(v);
            }
        }
        Some(n)
    }

    /// Fresh objects for the history of `s` (no oracle: every step was checked when it was first taken).
    fn rebuild(&self, s: &St) -> Result<St, String> {
        self.stream_check.set(false);
        let r = self.rebuild_inner(s);
        self.stream_check.set(true);
        r
    }
    fn rebuild_inner(&self, s: &St) -> Result<St, String> {
        let mut cur = self.init_state()?;
        for op in &s.hist {
            let mut sink = vec![];
            let nx = if *op == Op::Save { self.do_save(&cur, &mut sink, false).map(|x| x.0) } else { self.step_plain(&cur, op, &mut sink, false) };
            cur = nx.ok_or_else(|| format!("replay of {:?} has no successor at {:?}", s.hist, op))?;
        }
        Ok(cur)
    }

    /// Save both books of `cur` IN PLACE (cur must be fresh, i.e. not shared with other nodes); returns the successor.
    fn do_save(&self, cur: &St, out: &mut Vec<Violation>, check: bool) -> Option<(St, Option<Vec<u8>>)> {
        let mut n = cur.clone(); // shares the tables with `cur`, which the caller drops
        n.hist.push(Op::Save);
        let lb = save_bytes(&n.lazy, false);
        let tb = save_bytes(&n.twin, false);
        let lbytes = match lb {
            Ok(b) => b,
            Err(e) => {
                if check {
                    let both = tb.is_err();
                    let clause = if both { "save-succeeds-also-eager" } else { "save-succeeds" };
                    out.push(self.viol(cur, clause, &format!("save-failed:{}", panic_class(&e)), &[], format!("saving the lazy book failed: {} (eager twin: {})", e, if both { "fails too" } else { "saves" })));
                }
                return None;
            }
        };
        if check {
            self.check_saved(cur, &lbytes, tb.as_ref().ok().map(|v| v.as_slice()), out);
        }
        n.saves += 1;
        n.save_sig = fnv(format!("{}:{:032x}", n.save_sig, cur.key).as_bytes());
        let mut vs = vec![];
        self.observe(&mut n, &mut vs, true, &[]);
        if check {
            for mut v in vs {
                v.tags.push("op:save".into());
                out.push(v);
            }
        }
        Some((n, Some(lbytes)))
    }

    fn check_saved(&self, cur: &St, lbytes: &[u8], tbytes: Option<&[u8]>, out: &mut Vec<Violation>) {
        self.count("saves_checked");
        // (2) independent validator; problems the eager twin's package has as well are reported under their own clause
        let lprob = with_py(|py| py.validate(lbytes));
        let tprob: BTreeSet<String> = match tbytes {
            Some(tb) => with_py(|py| py.validate(tb)).into_iter().map(|(c, p, _)| format!("{}:{}", c, part_family(&p))).collect(),
            None => BTreeSet::new(),
        };
        let mut seen = BTreeSet::new();
        for (class, part, msg) in lprob {
            let sym = format!("{}:{}", class, part_family(&part));
            if self.init.orig_problems().contains(&sym) && !tprob.contains(&sym) {
                // the original file has this problem and an unloaded sheet is copied byte for byte
                self.count("validator_problem_inherited_from_original_file");
                continue;
            }
            if seen.insert(sym.clone()) {
                let clause = if tprob.contains(&sym) { "package-valid-also-eager" } else { "package-valid" };
                out.push(self.viol(cur, clause, &sym, &[], format!("{}: {}", part, msg)));
            }
        }
        // (3) readable
        let lre = match load_bytes(lbytes, true) {
            Ok(b) => b,
            Err(e) => {
                let both = tbytes.map(|tb| load_bytes(tb, true).is_err()).unwrap_or(false);
                let clause = if both { "output-readable-also-eager" } else { "output-readable" };
                out.push(self.viol(cur, clause, &format!("reload-failed:{}", panic_class(&e)), &[], format!("the package saved from the lazy book cannot be loaded: {}", e)));
                return;
            }
        };
        // (4) content
        let tre = match tbytes.map(|tb| load_bytes(tb, true)) {
            Some(Ok(b)) => b,
            _ => {
                self.count("twin_save_or_reload_failed");
                return;
            }
        };
        let ln = sheet_names(&lre);
        let tn = sheet_names(&tre);
        self.obs.borrow_mut().push(fnv(format!("{:?}{:?}{:?}", ln, cur.mat, zip_names(lbytes)).as_bytes()));
        if ln != tn {
            let sym = if ln.len() != tn.len() { "sheet-count" } else { "sheet-name-or-order" };
            out.push(self.viol(cur, "saved-content-equals-eager", sym, &[], format!("reloaded lazy save has sheets {:?}, reloaded eager save {:?}", ln, tn)));
            return;
        }
        let mut seen = BTreeSet::new();
        for i in 0..ln.len() {
            let lh = self.proj(&lre.get_sheet_collection_no_check()[i]);
            let th = self.proj(&tre.get_sheet_collection_no_check()[i]);
            if lh == th {
                continue;
            }
            let lp = sheet_p(&lre.get_sheet_collection_no_check()[i], self.opts);
            let tp = sheet_p(&tre.get_sheet_collection_no_check()[i], self.opts);
            if let Some((path, l, r)) = first_diff(&lp, &tp) {
                let was_mat = cur.mat.get(i).copied().unwrap_or(true);
                if !was_mat {
                    // an unloaded sheet is copied byte for byte: it may keep MORE than the eager write/read round trip
                    // keeps.  "Same content as in the original" = the twin's in-memory sheet (eager load of the original).
                    if cur.tp.get(i).copied().flatten() == Some(lh) {
                        self.count("unloaded_sheet_equals_original_better_than_eager_roundtrip");
                        continue;
                    }
                }
                let status = if was_mat { "materialised-sheet" } else { "unloaded-sheet" };
                let sym = format!("{}:{}", status, diff_symptom(&path, &l, &r));
                if seen.insert(sym.clone()) {
                    out.push(self.viol(cur, "saved-content-equals-eager", &sym, &[], format!("sheet {} ({:?}, {} at save) after reload differs at {}: lazy save {} / eager save {}", i, ln[i], status, path, l, r)));
                }
            }
        }
        let o = Opts::FULL;
        let lb = book_level(&lre, o);
        let tb = book_level(&tre, o);
        if let Some((path, l, r)) = first_diff(&lb, &tb) {
            out.push(self.viol(cur, "saved-content-equals-eager", &format!("book:{}", diff_symptom(&path, &l, &r)), &[], format!("workbook level after reload differs at {}: lazy save {} / eager save {}", path, l, r)));
        }
    }
}

fn zip_names(bytes: &[u8]) -> Vec<String> {
    match zip::ZipArchive::new(std::io::Cursor::new(bytes)) {
        Ok(z) => z.file_names().map(|s| s.to_string()).collect::<BTreeSet<_>>().into_iter().collect(),
        Err(_) => vec![],
    }
}

fn book_level(b: &Spreadsheet, _o: Opts) -> Value {
    let mut dn: Vec<Value> = b.get_defined_names().iter().map(defined_name_p).collect();
    dn.sort_by_key(|v| v.to_string());
    json!({"active_tab": b.get_workbook_view().get_active_tab(), "defined_names": dn, "protection": b.get_workbook_protection().map(prot_book_p), "has_macros": b.get_has_macros()})
}

impl<'a> Machine for C11Machine<'a> {
    type S = St;
    type Op = Op;
    fn ops(&self, s: &St, _depth: usize) -> Vec<Op> {
        ops_for(s.model.len())
    }
    fn op_json(&self, op: &Op) -> Value {
        op.to_json()
    }
    fn key(&self, s: &St) -> u128 {
        s.key
    }
    fn step(&self, s: &St, op: &Op, out: &mut Vec<Violation>) -> Option<St> {
        if *op != Op::Save {
            return self.step_plain(s, op, out, true);
        }
        // save: replay the history on fresh objects (see module comment), check the replay reproduces the node
        let t0 = std::time::Instant::now();
        let fresh = self.rebuild(s);
        self.time("rebuild", t0);
        let fresh = match fresh {
            Ok(f) => f,
            Err(e) => {
                out.push(self.viol(s, "harness-replay", "replay-diverged", &[], e));
                return None;
            }
        };
        if fresh.key != s.key {
            out.push(self.viol(s, "harness-replay", "replay-key-differs", &[], format!("replaying {:?} on fresh objects gives another state key", s.hist)));
            return None;
        }
        let t0 = std::time::Instant::now();
        let r = self.do_save(&fresh, out, true).map(|x| x.0);
        self.time("save+check", t0);
        r
    }
}

// =================================================================================================
// pool space: one case = (initial file, first operation)

pub struct Hist {
    id: &'static str,
    depth: usize,
    cases: Vec<(usize, usize)>,
}
impl Hist {
    fn new(id: &'static str, depth: usize) -> Hist {
        let inits = inits_for(id);
        let mut cases = vec![];
        for (k, it) in inits.iter().enumerate() {
            for f in 0..ops_for(it.nsheets).len() {
                cases.push((k, f));
            }
        }
        Hist { id, depth, cases }
    }
}
impl Space for Hist {
    fn len(&self) -> u64 {
        self.cases.len() as u64
    }
    fn describe(&self, i: u64) -> Value {
        let (k, f) = self.cases[i as usize];
        let it = &inits_for(self.id)[k];
        json!({"init": it.name, "first_op": ops_for(it.nsheets)[f].to_json(), "depth": self.depth})
    }
    fn tags(&self, i: u64) -> Vec<String> {
        let (k, f) = self.cases[i as usize];
        let it = &inits_for(self.id)[k];
        let mut t = it.tags.clone();
        t.push(format!("op:{}", ops_for(it.nsheets)[f].name()));
        t
    }
    fn run(&self, i: u64, sink: &mut Sink) {
        let (k, f) = self.cases[i as usize];
        let it = &inits_for(self.id)[k];
        let m = C11Machine::new(it, self.depth);
        let init = match m.init_state_checked() {
            Ok((s, vs)) => {
                if f == 0 {
                    sink.evaluations += 1;
                    for mut v in vs {
                        v.case = json!({"init": {"init": it.name}, "path": [], "ipath": [], "extra": null});
                        sink.violations.push(v);
                    }
                }
                s
            }
            Err(e) => {
                sink.violations.push(Violation::new("harness-replay", "init-unreadable", &[], self.describe(i), e));
                return;
            }
        };
        let st = e2::bfs(&m, init, json!({"init": it.name}), Some(f), self.depth, 2_000_000, sink);
        for (k, n) in m.counters.borrow().iter() {
            sink.count(k, *n);
        }
        if std::env::var("UV_C11_CLASSES").is_ok() {
            // development aid: complete list of (clause, symptom, cause tags) classes in the evidence counters
            const CAUSES: [&str; 9] = ["unloaded-renumbered-sheet-has-rels", "materialised-table-number-taken-by-unloaded-sheet", "materialised-chart-refers-to-unloaded-sheet", "chart-refers-to-renamed-sheet", "chart-refers-to-removed-sheet", "removed-sheet", "renamed", "new-sheet", "wb-insert"];
            let keys: Vec<String> = sink.violations.iter().map(|v| format!("class|{}|{}|{:?}", v.clause, v.symptom, CAUSES.iter().filter(|c| v.tags.iter().any(|t| t == *c)).collect::<Vec<_>>())).collect();
            for k in keys {
                sink.count(&k, 1);
            }
        }
        for h in m.obs.borrow().iter() {
            sink.hashes.push(*h);
        }
        if sink.sample_this {
            sink.samples.push(json!({"case": self.describe(i), "states": st.states, "transitions": st.transitions, "per_depth": st.per_depth}));
        }
    }
}

fn space_cfg(tier: Tier, id: &str) -> Option<Hist> {
    match (tier, id) {
        (Tier::Quick, "gen") => Some(Hist::new("gen", 3)),
        (Tier::Quick, "corpus-small") => Some(Hist::new("corpus-small", 3)),
        (Tier::Quick, "corpus-features") => Some(Hist::new("corpus-features", 2)),
        (Tier::Thorough, "gen") => Some(Hist::new("gen", 4)),
        (Tier::Thorough, "corpus") => Some(Hist::new("corpus", 3)),
        (Tier::Thorough, "corpus-big") => Some(Hist::new("corpus-big", 2)),
        (Tier::Thorough, "corpus-big-wide") => Some(Hist::new("corpus-big-wide", 1)),
        _ => None,
    }
}

pub fn space(tier: Tier, id: &str) -> Option<Box<dyn Space>> {
    space_cfg(tier, id).map(|h| Box::new(h) as Box<dyn Space>)
}

fn replay(tier: Tier, case: &Value) -> Vec<Violation> {
    let id = case["_space"].as_str().unwrap_or("");
    let h = match space_cfg(tier, id).or_else(|| space_cfg(Tier::Quick, id)).or_else(|| space_cfg(Tier::Thorough, id)) {
        Some(h) => h,
        None => {
            eprintln!("replay: unknown space {:?}", id);
            return vec![];
        }
    };
    let name = case["init"]["init"].as_str().unwrap_or("");
    let it = match inits_for(h.id).iter().find(|i| i.name == name) {
        Some(i) => i,
        None => {
            eprintln!("replay: unknown initial file {:?}", name);
            return vec![];
        }
    };
    let ipath: Vec<u32> = case["ipath"].as_array().map(|a| a.iter().filter_map(|x| x.as_u64().map(|y| y as u32)).collect()).unwrap_or_default();
    let m = C11Machine::new(it, h.depth);
    let (init, init_vs) = match m.init_state_checked() {
        Ok(x) => x,
        Err(e) => {
            eprintln!("replay: {}", e);
            return vec![];
        }
    };
    if ipath.is_empty() {
        return init_vs;
    }
    let n = ipath.len();
    e2::replay_path(&m, init, &ipath).into_iter().filter(|v| v.case["path"].as_array().map(|p| p.len()) == Some(n)).collect()
}

/// Development aid (UV_C11_PROBE=<space>): sizes and timings of the initial files, one case per file.
fn probe(id: &str) -> i32 {
    if id == "list" {
        for it in corpus_all().iter() {
            println!("{} sheets={} bytes={} weight={} tables={:?} rels={:?}", it.name, it.nsheets, it.bytes.len(), it.weight, it.tables, it.parts.iter().map(|p| (p.part_no, p.has_rels)).collect::<Vec<_>>());
        }
        return 0;
    }
    let h = Hist::new(Box::leak(id.to_string().into_boxed_str()), std::env::var("UV_C11_DEPTH").ok().and_then(|d| d.parse().ok()).unwrap_or(2));
    for it in inits_for(h.id) {
        let t0 = std::time::Instant::now();
        let m = C11Machine::new(it, h.depth);
        let init = m.init_state().unwrap();
        let t_init = t0.elapsed();
        let t1 = std::time::Instant::now();
        let c = init.clone();
        let t_clone = t1.elapsed();
        drop(c);
        let mut sink = Sink::new();
        let t2 = std::time::Instant::now();
        let nops = ops_for(it.nsheets).len();
        let st = e2::bfs(&m, init, json!({"init": it.name}), Some(nops - 1), h.depth, 2_000_000, &mut sink);
        println!("{} sheets={} bytes={} parts={:?} init={:?} clone={:?} bfs(first=save,depth={})={:?} states={} trans={} viol={} counters={:?}", it.name, it.nsheets, it.bytes.len(), it.parts.iter().map(|p| (p.part_no, p.has_rels)).collect::<Vec<_>>(), t_init, t_clone, h.depth, t2.elapsed(), st.states, st.transitions, sink.violations.len(), m.counters.borrow());
        println!("   timers(us)={:?}", m.timers.borrow());
        let mut classes: BTreeMap<(String, String), (u64, String, Vec<String>)> = BTreeMap::new();
        for v in &sink.violations {
            let e = classes.entry((v.clause.clone(), v.symptom.clone())).or_insert((0, format!("{} :: {}", v.case["path"], v.detail.chars().take(300).collect::<String>()), v.tags.clone()));
            e.0 += 1;
        }
        for ((c, s), (n, d, t)) in classes {
            println!("   {} | {} x{} tags={:?}\n      {}", c, s, n, t, d);
        }
    }
    0
}

/// Development aid (UV_C11_REPRO=1): the minimal direct reproductions of the recorded findings.
fn repro() -> i32 {
    fn parts_of(bytes: &[u8]) -> Vec<String> {
        let mut v = vec![];
        if let Ok(mut z) = zip::ZipArchive::new(std::io::Cursor::new(bytes)) {
            for i in 0..z.len() {
                if let Ok(f) = z.by_index(i) {
                    if f.name().contains("worksheets") || f.name().contains("tables") || f.name().contains("comments") {
                        v.push(f.name().to_string());
                    }
                }
            }
        }
        v.sort();
        v
    }
    // K1: corpus file, lazy, remove_sheet(0), save, reload
    let data = std::fs::read(format!("{}/tests/test_files/aaa.xlsx", repo_root())).unwrap();
    let mut b = load_bytes(&data, false).unwrap();
    b.remove_sheet(0).unwrap();
    let out = save_bytes(&b, false).unwrap();
    println!("K1 aaa.xlsx lazy, remove_sheet(0), save: parts {:?}", parts_of(&out));
    println!("   reload: {:?}", load_bytes(&out, true).map(|b| sheet_names(&b)));
    println!("   validator: {:?}", with_py(|py| py.validate(&out)).iter().take(4).collect::<Vec<_>>());
    let mut e = load_bytes(&data, true).unwrap();
    e.remove_sheet(0).unwrap();
    let out = save_bytes(&e, false).unwrap();
    println!("   same on the eager book: reload {:?}, validator {:?}", load_bytes(&out, true).map(|b| sheet_names(&b)), with_py(|py| py.validate(&out)).len());
    // K1 on a generated file: comments on the last of three sheets
    let g = save_bytes(&build_gen(3), false).unwrap();
    let mut b = load_bytes(&g, false).unwrap();
    b.remove_sheet(0).unwrap();
    let out = save_bytes(&b, false).unwrap();
    println!("K1 comments-last3 lazy, remove_sheet(0), save: parts {:?}", parts_of(&out));
    let r = load_bytes(&out, true).unwrap();
    println!("   reloaded comments per sheet: {:?} (original: [0, 0, 1])", r.get_sheet_collection_no_check().iter().map(|w| w.get_comments().len()).collect::<Vec<_>>());
    // K2: tables on sheets 1 and 2; materialise only sheet 2; save
    let g = save_bytes(&build_gen(5), false).unwrap();
    let mut b = load_bytes(&g, false).unwrap();
    b.read_sheet(1);
    let out = save_bytes(&b, false).unwrap();
    let r = load_bytes(&out, true).unwrap();
    println!("K2 tables3 lazy, read_sheet(1), save: parts {:?}", parts_of(&out));
    println!("   reloaded tables per sheet: {:?} (original: [[Table1],[Table2],[]])", r.get_sheet_collection_no_check().iter().map(|w| w.get_tables().iter().map(|t| t.get_name().to_string()).collect::<Vec<_>>()).collect::<Vec<_>>());
    0
}

fn run(ctx: &Ctx) -> i32 {
    quiet_panics();
    if let Ok(id) = std::env::var("UV_C11_PROBE") {
        return probe(&id);
    }
    if std::env::var("UV_C11_REPRO").is_ok() {
        return repro();
    }
    let thorough = ctx.tier == Tier::Thorough;
    let ids: Vec<&'static str> = if thorough { vec!["gen", "corpus", "corpus-big", "corpus-big-wide"] } else { vec!["gen", "corpus-small", "corpus-features"] };
    let spaces: Vec<(&'static str, Box<dyn Space>)> = ids.iter().map(|id| (*id, space(ctx.tier, id).unwrap())).collect();
    let files: BTreeMap<&str, Vec<Value>> = ids.iter().map(|id| (*id, inits_for(id).iter().map(|i| json!({"file": i.name, "sheets": i.nsheets, "bytes": i.bytes.len(), "sheet_parts": i.parts.iter().map(|p| json!([p.part, p.has_rels])).collect::<Vec<_>>() })).collect())).collect();
    let bounds: Value = ids.iter().map(|id| (id.to_string(), json!(format!("all histories of length <= {} from every initial file of this space", space_cfg(ctx.tier, id).unwrap().depth)))).collect::<serde_json::Map<String, Value>>().into();
    run_e1(
        ctx,
        E1Spec {
            spaces,
            cfg: PoolCfg { chunk: 1, case_timeout: std::time::Duration::from_secs(300), keep_per_class: 2, ..Default::default() },
            level: "model_checking",
            rule: "breadth-first enumeration of ALL operation histories up to the stated depth from every initial file opened lazily (read_reader(..,false)); one pool case = (file, first operation). A node carries the real lazy Spreadsheet and its eager twin (read_reader(..,true) of the same bytes), both cloned from the parent and stepped with the same operation. After every step: same call outcome, no panic on the lazy book only, equal sheet lists, every materialised sheet of the lazy book has the same FULL projection (dump::sheet_p) as the twin's sheet, accessed sheets are materialised. `save` is an operation evaluated on every expanded state (so every state of depth < D is saved, and histories continue after a save): the history is replayed on fresh objects (clones share the string table), both books are written to memory, the lazy package must be written, pass the independent Python validator, reload eagerly, and its reload must equal the reload of the twin's package sheet by sheet (FULL projection; an unloaded sheet may alternatively equal the eager load of the original exactly) and at workbook level. Two nodes are merged iff sheet names, per-sheet materialised flag, the twin's FULL projection of every sheet (and the lazy one where it differs), the history-shape model (origin of every sheet, accessed/renamed-while-unloaded/edited flags, removed originals, number and positions of earlier saves) are equal. states = distinct keys; distinct_nontrivial additionally counts distinct (sheet list, materialised set, part-name list of the written package) of checked saves".into(),
            alphabets: json!({
                "operations(n sheets)": "read_sheet(i), read_sheet_collection, get_sheet_mut(i)+set text A2, get_sheet_by_name_mut(name i)+set styled number C3, set_sheet_name(i, fresh), insert_new_row(name i,1,1), new_sheet(fresh)+2 cells, remove_sheet(i) (n>=2), save  = 6n+3 operations",
                "generated_files": GEN.iter().map(|g| json!({"name": g.0, "sheet_features": g.1.iter().map(|m| (0..8).filter(|k| m & (1 << k) != 0).map(|k| FEATURE_NAMES[k]).collect::<Vec<_>>()).collect::<Vec<_>>(), "defined_names": g.2})).collect::<Vec<_>>(),
                "initial_files": files,
            }),
            bounds,
            exhaustive: true,
            caps_hit: vec![],
            assumptions: vec![
                "content oracle = the library's own eager reader on the same bytes executing the same history (the property is an equivalence between the two loading modes); validity oracle = /verif/pyref/xlsx_ref.py".into(),
                "whether a sheet is materialised is observed through the public get_sheet(&i), which is documented to assert on an unloaded sheet; get_sheet/get_sheet_collection are therefore not operations of the alphabet".into(),
                "validator problems and save/reload failures that the eager twin's package shows as well are reported under separate clauses (*-also-eager): they are not caused by lazy loading".into(),
                "histories in which an operation panics or is refused on both books are not extended (counted)".into(),
                "standard writer only (write_writer); the light writer differs in compression only".into(),
                format!("corpus files whose eager load has more than {} cells+row entries+column entries (spaces corpus-big, corpus-big-wide) are compared without cell/row/column styles (dump Opts styles=false) and explored to a smaller depth; all other files use the FULL projection", HEAVY),
                "only hashes of sheet projections are kept in a node; the projections are rebuilt when two hashes differ".into(),
            ],
            min_distinct: 200,
        },
    )
}
