//! C16 — concurrent saves of a workbook or its clones equal sequential saves.
//! Engine E3: cooperative scheduler over REAL threads running the real `write_writer`; scheduling points are
//! the cfg(umya_verif) hook calls placed before every shared-string-table lock operation and at entry/exit
//! of make_buffer.  Exactly one saver runs between two points, so an execution is a deterministic function
//! of the choice sequence; DFS over choice sequences with iterative preemption bounding.
use crate::common::*;
use crate::dump::*;
use crate::e1::*;
use crate::pool::*;
use serde_json::{json, Value};
use std::cell::RefCell;
use std::sync::{Arc, Condvar, Mutex};
use std::time::{Duration, Instant};
use umya_spreadsheet::*;

pub fn entry() -> crate::Entry {
    crate::Entry { id: "C16", run, space, replay }
}

// ------------------------------------------------------------------------------------------------
// scheduler

#[derive(Clone, Debug, PartialEq)]
enum St {
    NotStarted,
    Running,
    Parked(u32),
    Done,
}

struct Inner {
    st: Vec<St>,
    token: Option<usize>,
}
struct Shared {
    m: Mutex<Inner>,
    cv: Condvar,
}

static SKIP_ENTRY_EXIT: std::sync::atomic::AtomicBool = std::sync::atomic::AtomicBool::new(false);

thread_local! {
    static ME: RefCell<Option<(usize, Arc<Shared>)>> = RefCell::new(None);
}

/// The callback installed into umya_spreadsheet::verif_hook.
fn hook(site: u32) {
    // quick tier: make_buffer entry/exit (sites 6, 7) are not scheduling points - they are not followed by a
    // shared-state operation before the next lock site, so interleavings that differ only there are equivalent
    if (site == 6 || site == 7) && SKIP_ENTRY_EXIT.load(std::sync::atomic::Ordering::Relaxed) {
        return;
    }
    let me = ME.with(|m| m.borrow().clone());
    if let Some((id, sh)) = me {
        park(id, &sh, site);
    }
}

fn park(id: usize, sh: &Arc<Shared>, site: u32) {
    let mut g = sh.m.lock().unwrap();
    g.st[id] = St::Parked(site);
    sh.cv.notify_all();
    while g.token != Some(id) {
        g = sh.cv.wait(g).unwrap();
    }
    g.token = None;
    g.st[id] = St::Running;
}

#[derive(Clone, Debug)]
pub struct Exec {
    pub choices: Vec<usize>,
    /// enabled saver ids at each point, in canonical order
    pub enabled: Vec<Vec<usize>>,
    /// site at which each enabled saver is parked
    pub sites: Vec<Vec<u32>>,
    /// whether choice 0 at this point continues the saver that ran last
    pub zero_is_last: Vec<bool>,
    pub outputs: Vec<Result<Vec<u8>, String>>,
    pub progress_keys: Vec<u64>,
}

pub enum RunErr {
    Infeasible,
    Stuck(String),
}

/// Execute one schedule: follow `prefix`, then always choice 0.  `books[k]` is saved by saver k
/// (several savers may hold the same Arc).
fn run_schedule(books: &[Arc<Spreadsheet>], prefix: &[usize], beat: &Beat) -> Result<Exec, RunErr> {
    let n = books.len();
    let sh = Arc::new(Shared { m: Mutex::new(Inner { st: vec![St::NotStarted; n], token: None }), cv: Condvar::new() });
    let results: Arc<Mutex<Vec<Option<Result<Vec<u8>, String>>>>> = Arc::new(Mutex::new(vec![None; n]));
    let mut handles = vec![];
    for id in 0..n {
        let sh2 = sh.clone();
        let book = books[id].clone();
        let res = results.clone();
        handles.push(std::thread::spawn(move || {
            ME.with(|m| *m.borrow_mut() = Some((id, sh2.clone())));
            park(id, &sh2, 0);
            let r = std::panic::catch_unwind(std::panic::AssertUnwindSafe(|| {
                let mut buf: Vec<u8> = Vec::new();
                writer::xlsx::write_writer(&book, &mut buf).map(|_| buf).map_err(|e| format!("write error: {:?}", e))
            }));
            let r = match r {
                Ok(x) => x,
                Err(e) => Err(format!("panic: {}", panic_msg(&e))),
            };
            res.lock().unwrap()[id] = Some(r);
            ME.with(|m| *m.borrow_mut() = None);
            let mut g = sh2.m.lock().unwrap();
            g.st[id] = St::Done;
            sh2.cv.notify_all();
        }));
    }
    let mut ex = Exec { choices: vec![], enabled: vec![], sites: vec![], zero_is_last: vec![], outputs: vec![], progress_keys: vec![] };
    let mut last: Option<usize> = None;
    let mut progress = vec![0u32; n];
    let mut stuck: Option<String> = None;
    let mut infeasible = false;
    loop {
        // wait for quiescence: nobody Running / NotStarted
        let t0 = Instant::now();
        let mut g = sh.m.lock().unwrap();
        loop {
            let busy = g.st.iter().any(|s| matches!(s, St::Running | St::NotStarted)) || g.token.is_some();
            if !busy {
                break;
            }
            let (g2, to) = sh.cv.wait_timeout(g, Duration::from_millis(200)).unwrap();
            g = g2;
            if to.timed_out() && t0.elapsed() > Duration::from_secs(20) {
                stuck = Some(format!("saver states {:?} after choices {:?}", g.st, ex.choices));
                break;
            }
        }
        if stuck.is_some() {
            break;
        }
        let parked: Vec<usize> = (0..n).filter(|i| matches!(g.st[*i], St::Parked(_))).collect();
        if parked.is_empty() {
            break; // all done
        }
        // canonical order: the saver that ran last first (if still enabled), then ascending ids
        let mut en = vec![];
        let mut zero_last = false;
        if let Some(l) = last {
            if parked.contains(&l) {
                en.push(l);
                zero_last = true;
            }
        }
        for p in &parked {
            if Some(*p) != last || !zero_last {
                if !en.contains(p) {
                    en.push(*p);
                }
            }
        }
        let sites: Vec<u32> = en.iter().map(|i| if let St::Parked(s) = g.st[*i] { s } else { 0 }).collect();
        let pos = ex.choices.len();
        let c = if pos < prefix.len() { prefix[pos] } else { 0 };
        if c >= en.len() {
            infeasible = true;
            // drain: let everybody finish with choice 0 so that threads end
            let chosen = en[0];
            g.token = Some(chosen);
            sh.cv.notify_all();
            drop(g);
            last = Some(chosen);
            ex.choices.push(0);
            ex.enabled.push(en);
            ex.sites.push(sites);
            ex.zero_is_last.push(zero_last);
            continue;
        }
        let chosen = en[c];
        progress[chosen] += 1;
        let key = {
            let mut s = format!("{:?}|{}", progress, chosen);
            s.push_str(&format!("{:?}", sites));
            fnv(s.as_bytes())
        };
        ex.progress_keys.push(key);
        ex.choices.push(c);
        ex.enabled.push(en);
        ex.sites.push(sites);
        ex.zero_is_last.push(zero_last);
        beat.note(&format!("schedule choices so far {:?}", ex.choices));
        g.token = Some(chosen);
        last = Some(chosen);
        sh.cv.notify_all();
        drop(g);
    }
    if let Some(s) = stuck {
        // threads cannot be reclaimed; the caller turns this into a hang for the pool watchdog
        return Err(RunErr::Stuck(s));
    }
    for h in handles {
        let _ = h.join();
    }
    if infeasible {
        return Err(RunErr::Infeasible);
    }
    let res = results.lock().unwrap();
    ex.outputs = res.iter().map(|r| r.clone().unwrap_or(Err("no result".into()))).collect();
    Ok(ex)
}

// ------------------------------------------------------------------------------------------------
// configurations

#[derive(Clone, Debug)]
pub struct Config {
    pub name: &'static str,
    /// saver k saves object `objects[k]` (equal indices = the same &Spreadsheet)
    pub objects: Vec<usize>,
    /// texts of object j (clone j of the base workbook, edited after cloning)
    pub texts: Vec<Vec<&'static str>>,
    pub bound: Option<u32>,
    /// the workbooks are opened lazily from a two-sheet file and keep their second sheet unloaded (raw)
    pub lazy: bool,
    /// (lazy only) objects whose index is listed here materialise ALL their sheets before the savers start
    pub fully_materialised: Vec<usize>,
}

pub fn configs(tier: Tier) -> Vec<Config> {
    let three = tier == Tier::Thorough; // 3 text cells per book in the thorough tier, 2 in the quick tier
    let thorough = tier == Tier::Thorough;
    let t = |a: &[&'static str]| -> Vec<&'static str> { a.to_vec() };
    let mut v = vec![
        Config { name: "2-savers-same-object", objects: vec![0, 0], texts: vec![if three { t(&["alpha", "beta", "gamma"]) } else { t(&["alpha", "beta"]) }], bound: None, lazy: false, fully_materialised: vec![] },
        Config { name: "2-clones-equal-sets", objects: vec![0, 1], texts: vec![if three { t(&["alpha", "beta", "gamma"]) } else { t(&["alpha", "beta"]) }; 2], bound: None, lazy: false, fully_materialised: vec![] },
        Config { name: "2-clones-disjoint-sets", objects: vec![0, 1], texts: if three { vec![t(&["a1", "a2", "a3"]), t(&["b1", "b2", "b3"])] } else { vec![t(&["a1", "a2"]), t(&["b1", "b2"])] }, bound: None, lazy: false, fully_materialised: vec![] },
        Config { name: "2-clones-overlapping-sets", objects: vec![0, 1], texts: if three { vec![t(&["onlyA", "common", "alsoA"]), t(&["common", "onlyB", "alsoB"])] } else { vec![t(&["onlyA", "common"]), t(&["common", "onlyB"])] }, bound: None, lazy: false, fully_materialised: vec![] },
        Config { name: "3-savers-shared+clone-overlapping", objects: vec![0, 0, 1], texts: vec![t(&["onlyA", "common"]), t(&["common", "onlyB"])], bound: Some(if thorough { 3 } else { 2 }), lazy: false, fully_materialised: vec![] },
        Config { name: "3-clones-disjoint", objects: vec![0, 1, 2], texts: vec![t(&["a1", "a2"]), t(&["b1", "b2"]), t(&["c1", "c2"])], bound: Some(if thorough { 3 } else { 2 }), lazy: false, fully_materialised: vec![] },
    ];
    // lazily opened workbooks with an unloaded sheet: the save path that must keep raw string indexes valid
    v.push(Config { name: "2-lazy-clones-disjoint-sets", objects: vec![0, 1], texts: vec![t(&["a1", "a2"]), t(&["b1", "b2"])], bound: None, lazy: true, fully_materialised: vec![] });
    v.push(Config { name: "2-lazy-savers-same-object", objects: vec![0, 0], texts: vec![t(&["alpha", "beta"])], bound: None, lazy: true, fully_materialised: vec![] });
    v.push(Config { name: "2-lazy-clones-one-fully-materialised", objects: vec![0, 1], texts: vec![t(&["a1", "a2"]), t(&["b1", "b2"])], bound: None, lazy: true, fully_materialised: vec![1] });
    // lazily opened and NEVER touched before the savers start (no sheet materialised, no edit): whatever the library
    // defers to the first access of such a workbook happens inside the concurrent saves
    v.push(Config { name: "2-lazy-clones-never-touched", objects: vec![0, 1], texts: vec![vec![], vec![]], bound: None, lazy: true, fully_materialised: vec![] });
    v.push(Config { name: "2-lazy-savers-same-object-never-touched", objects: vec![0, 0], texts: vec![vec![]], bound: None, lazy: true, fully_materialised: vec![] });
    v.push(Config { name: "3-lazy-shared+clone-overlapping", objects: vec![0, 0, 1], texts: vec![t(&["onlyA", "common"]), t(&["common", "onlyB"])], bound: Some(if thorough { 3 } else { 2 }), lazy: true, fully_materialised: vec![] });
    // lazily opened, a loaded sheet carries a chart over two still-unloaded sheets, and the two clones DIFFER IN THEIR
    // SHEET LISTS (one has removed the first sheet): whatever a save derives from an unloaded sheet for the chart caches
    // must be that workbook's own (preemption-bounded: a save of this workbook passes about twice as many points)
    v.push(Config { name: CHART_CFG, objects: vec![0, 1], texts: vec![t(&["onlyA"]), t(&["onlyB"])], bound: Some(if thorough { 3 } else { 2 }), lazy: true, fully_materialised: vec![] });
    if !thorough {
        // quick tier: since the per-save string table (fix 5ef43dc) fully loaded workbooks share no mutable state
        // while saving; two of their configurations stay as regression guards, the lazy ones are all kept
        v.retain(|c| !matches!(c.name, "2-clones-equal-sets" | "2-clones-disjoint-sets" | "3-clones-disjoint"));
    }
    if thorough {
        v.push(Config { name: "3-clones-overlapping", objects: vec![0, 1, 2], texts: vec![t(&["x", "common"]), t(&["common", "y"]), t(&["z", "common"])], bound: Some(3), lazy: false, fully_materialised: vec![] });
    }
    v
}

const CHART_CFG: &str = "2-lazy-clones-chart-over-raw-sheets-one-without-first-sheet";
fn is_chart_cfg(cfg: &Config) -> bool {
    cfg.name.ends_with(CHART_CFG)
}
/// Sheet1 (front), Charts (a line chart whose two series are RawA!$A$1:$A$2 and RawB!$A$1:$A$2), RawA, RawB
fn chart_file_bytes() -> Vec<u8> {
    let mut b = new_file();
    b.get_sheet_mut(&0).unwrap().get_cell_mut("A1").set_value_string("front");
    b.new_sheet("Charts").unwrap();
    b.new_sheet("RawA").unwrap();
    b.new_sheet("RawB").unwrap();
    for (i, p) in [(2usize, "alpha"), (3, "beta")] {
        let ws = b.get_sheet_mut(&i).unwrap();
        ws.get_cell_mut("A1").set_value_string(format!("{}-1", p));
        ws.get_cell_mut("A2").set_value_string(format!("{}-2", p));
    }
    let ws = b.get_sheet_mut(&1).unwrap();
    ws.get_cell_mut("D1").set_value_number(42);
    let mut from = umya_spreadsheet::drawing::spreadsheet::MarkerType::default();
    from.set_coordinate("C3");
    let mut to = umya_spreadsheet::drawing::spreadsheet::MarkerType::default();
    to.set_coordinate("H12");
    let mut chart = umya_spreadsheet::Chart::default();
    chart.new_chart(umya_spreadsheet::ChartType::LineChart, from, to, vec!["RawA!$A$1:$A$2", "RawB!$A$1:$A$2"]);
    ws.add_chart(chart);
    save_bytes(&b, false).expect("chart fixture")
}
fn build_chart_books(cfg: &Config) -> Vec<Arc<Spreadsheet>> {
    let mut base = load_bytes(&chart_file_bytes(), false).expect("lazy load");
    base.read_sheet(1); // "Charts"
    let mut out = vec![];
    for j in 0..cfg.texts.len() {
        let mut b = base.clone();
        if j == 1 {
            b.remove_sheet(0).expect("remove first sheet");
        }
        let ws = b.get_sheet_mut(&(if j == 1 { 0 } else { 1 })).expect("Charts sheet");
        for (i, t) in cfg.texts[j].iter().enumerate() {
            ws.get_cell_mut((1u32, i as u32 + 1)).set_value_string(*t);
        }
        out.push(Arc::new(b));
    }
    cfg.objects.iter().map(|o| out[*o].clone()).collect()
}
/// parts of a package that do not depend on the order in which shared strings were registered
fn order_free_parts(bytes: &[u8]) -> Option<Vec<(String, Vec<u8>)>> {
    crate::c14::zip_parts(bytes).map(|v| v.into_iter().filter(|(n, _)| n != "xl/sharedStrings.xml" && !n.starts_with("xl/worksheets/sheet")).collect())
}
/// what each saver of the chart configuration produces when it saves ALONE (computed once per process)
fn chart_solo_parts(cfg: &Config) -> Vec<Option<Vec<(String, Vec<u8>)>>> {
    static SOLO: std::sync::Mutex<Option<Vec<Option<Vec<(String, Vec<u8>)>>>>> = std::sync::Mutex::new(None);
    let mut g = SOLO.lock().unwrap();
    if g.is_none() {
        let mut v = vec![];
        for k in 0..cfg.objects.len() {
            // fresh workbooks for every solo save: nothing of an earlier save can be left in shared state
            let books = build_chart_books(cfg);
            v.push(save_bytes(&books[k], false).ok().and_then(|b| order_free_parts(&b)));
        }
        *g = Some(v);
    }
    g.clone().unwrap()
}
fn check_exec_chart(cfg: &Config, ex: &Exec, out: &mut Vec<(String, String, String)>) -> u64 {
    let solo = chart_solo_parts(cfg);
    let mut outcome = String::new();
    for (k, o) in ex.outputs.iter().enumerate() {
        match o {
            Err(e) => {
                let sym = if e.starts_with("panic") { format!("saver-panicked:{}", panic_class(e)) } else { format!("saver-error:{}", panic_class(e)) };
                out.push(("save-completes".into(), sym, format!("saver {}: {}", k, e)));
                outcome.push_str("ERR;");
            }
            Ok(bytes) => match load_bytes(bytes, true) {
                Err(e) => {
                    out.push(("output-readable".into(), format!("unreadable:{}", panic_class(&e)), format!("saver {}: {}", k, e)));
                    outcome.push_str("UNREADABLE;");
                }
                Ok(b2) => {
                    let want_sheets: Vec<&str> = if cfg.objects[k] == 1 { vec!["Charts", "RawA", "RawB"] } else { vec!["Sheet1", "Charts", "RawA", "RawB"] };
                    let got_sheets: Vec<String> = b2.get_sheet_collection_no_check().iter().map(|w| w.get_name().to_string()).collect();
                    if got_sheets != want_sheets {
                        out.push(("content-equals-solo-save".into(), "sheet-list-differs".into(), format!("saver {}: sheets {:?}, expected {:?}", k, got_sheets, want_sheets)));
                    }
                    let mut cells: Vec<(&str, &str, String)> = vec![("Charts", "D1", "42".into()), ("RawA", "A1", "alpha-1".into()), ("RawA", "A2", "alpha-2".into()), ("RawB", "A1", "beta-1".into()), ("RawB", "A2", "beta-2".into())];
                    cells.push(("Charts", "A1", cfg.texts[cfg.objects[k]][0].to_string()));
                    for (sh, addr, want) in cells {
                        let got = b2.get_sheet_by_name(sh).map(|w| w.get_value(addr)).unwrap_or_default();
                        if got != want {
                            out.push(("content-equals-solo-save".into(), "cell-text-wrong".into(), format!("saver {} cell {}!{}: expected {:?}, file shows {:?}", k, sh, addr, want, got)));
                        }
                    }
                    // every part that does not depend on string registration order: byte for byte what the solo save wrote
                    match (order_free_parts(bytes), &solo[k]) {
                        (Some(got), Some(want)) => {
                            let gn: Vec<&String> = got.iter().map(|x| &x.0).collect();
                            let wn: Vec<&String> = want.iter().map(|x| &x.0).collect();
                            if gn != wn {
                                out.push(("content-equals-solo-save".into(), "part-list-differs".into(), format!("saver {}: parts {:?}, the solo save wrote {:?}", k, gn, wn)));
                            } else {
                                for ((n, g), (_, w)) in got.iter().zip(want.iter()) {
                                    if g != w {
                                        let c = g.iter().zip(w.iter()).take_while(|(a, b)| a == b).count();
                                        let cls = if n.starts_with("xl/charts/") { "chart-part-differs" } else { "other-part-differs" };
                                        out.push(("content-equals-solo-save".into(), cls.into(), format!("saver {}: part {} differs from the solo save at byte {}: ...{:?} instead of ...{:?}", k, n, c, String::from_utf8_lossy(&g[c.saturating_sub(30)..(c + 50).min(g.len())]), String::from_utf8_lossy(&w[c.saturating_sub(30)..(c + 50).min(w.len())]))));
                                    }
                                }
                            }
                        }
                        _ => out.push(("output-readable".into(), "not-a-zip".into(), format!("saver {}: output or solo reference is not a readable archive", k))),
                    }
                    outcome.push_str(&shared_strings_signature(bytes));
                    outcome.push(';');
                }
            },
        }
    }
    fnv(outcome.as_bytes())
}

/// Every execution builds its workbooks from scratch (a save mutates the shared table).
fn lazy_file_bytes() -> Vec<u8> {
    let mut b = new_file();
    b.get_sheet_mut(&0).unwrap().get_cell_mut("D1").set_value_number(42);
    b.get_sheet_mut(&0).unwrap().get_cell_mut("E1").set_value_string("loaded-before");
    b.new_sheet("RawSheet").unwrap();
    b.get_sheet_mut(&1).unwrap().get_cell_mut("A1").set_value_string("raw sheet text");
    b.get_sheet_mut(&1).unwrap().get_cell_mut("A2").set_value_string("second raw text");
    b.get_sheet_mut(&1).unwrap().get_cell_mut("B1").set_value_number(7);
    save_bytes(&b, false).expect("lazy fixture")
}

fn build_books(cfg: &Config) -> Vec<Arc<Spreadsheet>> {
    if is_chart_cfg(cfg) {
        return build_chart_books(cfg);
    }
    let never_touched = cfg.lazy && cfg.texts.iter().all(|t| t.is_empty());
    let mut base = if cfg.lazy {
        // opened lazily; only the first sheet is materialised (and edited below), the second stays raw
        let mut b = load_bytes(&lazy_file_bytes(), false).expect("lazy load");
        if !never_touched {
            b.read_sheet(0);
        }
        b
    } else {
        new_file()
    };
    if !never_touched {
        base.get_sheet_mut(&0).unwrap().get_cell_mut("D1").set_value_number(42);
    }
    let nobj = cfg.texts.len();
    let mut objs: Vec<Spreadsheet> = vec![];
    for j in 0..nobj {
        let mut b = if j == 0 { base.clone() } else { objs[0].clone() }; // clones share the string table handle
        if j == 0 {
            b = base.clone();
        }
        objs.push(b);
    }
    // all objects are clones of one original; edit after cloning
    let original = base;
    let mut out = vec![];
    for j in 0..nobj {
        let mut b = original.clone();
        for (i, t) in cfg.texts[j].iter().enumerate() {
            b.get_sheet_mut(&0).unwrap().get_cell_mut((1u32, i as u32 + 1)).set_value_string(*t);
        }
        if cfg.lazy && cfg.fully_materialised.contains(&j) {
            b.read_sheet_collection();
        }
        out.push(Arc::new(b));
    }
    let _ = objs;
    cfg.objects.iter().map(|o| out[*o].clone()).collect()
}

fn expected_cells(cfg: &Config, saver: usize) -> Vec<(String, String)> {
    let mut v: Vec<(String, String)> = cfg.texts[cfg.objects[saver]].iter().enumerate().map(|(i, t)| (format!("A{}", i + 1), t.to_string())).collect();
    v.push(("D1".into(), "42".into()));
    if cfg.lazy {
        v.push(("E1".into(), "loaded-before".into()));
    }
    v
}

/// Oracle for one execution: every saver's output decodes to its own workbook's content.
fn check_exec(cfg: &Config, ex: &Exec, out: &mut Vec<(String, String, String)>) -> u64 {
    if is_chart_cfg(cfg) {
        return check_exec_chart(cfg, ex, out);
    }
    let mut outcome = String::new();
    for (k, o) in ex.outputs.iter().enumerate() {
        match o {
            Err(e) => {
                let sym = if e.starts_with("panic") { format!("saver-panicked:{}", panic_class(e)) } else { format!("saver-error:{}", panic_class(e)) };
                out.push(("save-completes".into(), sym, format!("saver {}: {}", k, e)));
                outcome.push_str("ERR;");
            }
            Ok(bytes) => match load_bytes(bytes, true) {
                Err(e) => {
                    out.push(("output-readable".into(), format!("unreadable:{}", panic_class(&e)), format!("saver {}: {}", k, e)));
                    outcome.push_str("UNREADABLE;");
                }
                Ok(b2) => {
                    let ws = b2.get_sheet(&0).unwrap();
                    for (addr, want) in expected_cells(cfg, k) {
                        let got = ws.get_value(addr.as_str());
                        if got != want {
                            let other = cfg.texts.iter().flatten().any(|t| *t == got);
                            out.push(("content-equals-solo-save".into(), if other { "cell-shows-another-string".into() } else if got.is_empty() { "cell-text-missing".into() } else { "cell-text-wrong".into() }, format!("saver {} cell {}: expected {:?}, file shows {:?}", k, addr, want, got)));
                        }
                    }
                    let n = ws.get_cell_collection().iter().filter(|c| !is_blank_cell(c)).count();
                    if n != expected_cells(cfg, k).len() {
                        out.push(("content-equals-solo-save".into(), "cell-count-differs".into(), format!("saver {}: {} non-blank cells, expected {}", k, n, expected_cells(cfg, k).len())));
                    }
                    if cfg.lazy {
                        // the untouched raw sheet must still show its own strings
                        match b2.get_sheet(&1) {
                            Some(rs) => {
                                for (addr, want) in [("A1", "raw sheet text"), ("A2", "second raw text"), ("B1", "7")] {
                                    let got = rs.get_value(addr);
                                    if got != want {
                                        out.push(("content-equals-solo-save".into(), "raw-sheet-cell-wrong".into(), format!("saver {} raw sheet cell {}: expected {:?}, file shows {:?}", k, addr, want, got)));
                                    }
                                }
                            }
                            None => out.push(("content-equals-solo-save".into(), "raw-sheet-missing".into(), format!("saver {}: second sheet missing", k))),
                        }
                    }
                    // outcome signature: order of the dumped shared strings
                    outcome.push_str(&shared_strings_signature(bytes));
                    outcome.push(';');
                }
            },
        }
    }
    fnv(outcome.as_bytes())
}

fn shared_strings_signature(bytes: &[u8]) -> String {
    let mut s = String::new();
    if let Ok(mut z) = zip::ZipArchive::new(std::io::Cursor::new(bytes)) {
        if let Ok(mut f) = z.by_name("xl/sharedStrings.xml") {
            use std::io::Read;
            let mut x = String::new();
            let _ = f.read_to_string(&mut x);
            for part in x.split("<t").skip(1) {
                if let Some(p) = part.find('>') {
                    if let Some(q) = part.find("</t>") {
                        if p < q {
                            s.push_str(&part[p + 1..q]);
                            s.push(',');
                        }
                    }
                }
            }
        }
    }
    s
}

// ------------------------------------------------------------------------------------------------
// exploration

struct Explore<'a> {
    cfg: &'a Config,
    executions: u64,
    steps: u64,
    outcomes: std::collections::HashSet<u64>,
    violations: Vec<(String, String, String, Vec<usize>)>,
    sink_hashes: Vec<u64>,
    rechecked: u64,
    max_points: usize,
}

fn preemptions_before(ex: &Exec, i: usize) -> u32 {
    (0..i).filter(|j| ex.zero_is_last[*j] && ex.choices[*j] != 0).count() as u32
}

impl<'a> Explore<'a> {
    fn explore(&mut self, prefix: Vec<usize>, fixed: usize, beat: &Beat) {
        let books = build_books(self.cfg);
        let ex = match run_schedule(&books, &prefix, beat) {
            Ok(e) => e,
            Err(RunErr::Infeasible) => return,
            Err(RunErr::Stuck(s)) => {
                // deadlock / lost wake-up / non-terminating saver: hand over to the pool watchdog with a precise note
                beat.note(&format!("DEADLOCK-OR-HANG config={} schedule prefix={:?}: {}", self.cfg.name, prefix, s));
                // spin (burn CPU) so that the pool's CPU-time watchdog attributes the hang quickly
                let mut x = 0u64;
                loop {
                    x = x.wrapping_add(1);
                    std::hint::black_box(x);
                }
            }
        };
        // replay divergence check on the prefix
        if ex.choices.len() < prefix.len() {
            return; // prefix longer than the execution: infeasible
        }
        if let Some(b) = self.cfg.bound {
            if preemptions_before(&ex, prefix.len()) > b {
                return; // the fixed split prefix alone exceeds the preemption bound
            }
        }
        self.executions += 1;
        self.steps += ex.choices.len() as u64;
        self.max_points = self.max_points.max(ex.choices.len());
        self.sink_hashes.extend(ex.progress_keys.iter().cloned());
        let mut vs = vec![];
        let oc = check_exec(self.cfg, &ex, &mut vs);
        self.outcomes.insert(oc);
        let violating = !vs.is_empty();
        for (c, s, d) in vs {
            self.violations.push((c, s, d, ex.choices.clone()));
        }
        // determinism self-check: the first executions of every sub-tree and every violating one are run again
        if violating || self.rechecked < 3 {
            self.rechecked += 1;
            let books2 = build_books(self.cfg);
            match run_schedule(&books2, &ex.choices, beat) {
                Ok(ex2) => {
                    let mut v2 = vec![];
                    let oc2 = check_exec(self.cfg, &ex2, &mut v2);
                    if ex2.choices != ex.choices || ex2.enabled != ex.enabled || ex2.sites != ex.sites || oc2 != oc {
                        eprintln!("MACHINERY: C16 replay divergence for schedule {:?} (config {})", ex.choices, self.cfg.name);
                        std::process::exit(2);
                    }
                }
                Err(_) => {
                    eprintln!("MACHINERY: C16 replay of schedule {:?} not feasible (config {})", ex.choices, self.cfg.name);
                    std::process::exit(2);
                }
            }
        }
        for i in prefix.len().max(fixed)..ex.choices.len() {
            let base_cost = preemptions_before(&ex, i);
            for alt in 1..ex.enabled[i].len() {
                let cost = base_cost + if ex.zero_is_last[i] { 1 } else { 0 };
                if let Some(b) = self.cfg.bound {
                    if cost > b {
                        continue;
                    }
                }
                let mut p: Vec<usize> = ex.choices[..i].to_vec();
                p.push(alt);
                self.explore(p, fixed, beat);
            }
        }
    }
}

const SPLIT: usize = 4;

/// pool case = (config, fixed prefix of SPLIT choices): explores every schedule that starts with that prefix
struct Sched {
    quick: bool,
    cfgs: Vec<Config>,
    prefixes: Vec<Vec<Vec<usize>>>,
}
fn all_prefixes(nsavers: usize) -> Vec<Vec<usize>> {
    let mut v: Vec<Vec<usize>> = vec![vec![]];
    for _ in 0..SPLIT {
        let mut n = vec![];
        for p in &v {
            for c in 0..nsavers {
                let mut q = p.clone();
                q.push(c);
                n.push(q);
            }
        }
        v = n;
    }
    v
}
/// The configurations that are explored COMPLETELY, with at most two preemptions: the cheap first pass (iterative
/// context bounding). Its schedules are a subset of the complete pass; it exists so that a defect is reported after
/// seconds even when a change has multiplied the scheduling points and with them the size of the complete pass.
fn bounded_configs(tier: Tier) -> Vec<Config> {
    configs(tier)
        .into_iter()
        .filter(|c| c.bound.is_none())
        .map(|mut c| {
            c.name = Box::leak(format!("at-most-2-preemptions:{}", c.name).into_boxed_str());
            c.bound = Some(2);
            c
        })
        .collect()
}
impl Sched {
    fn new_bounded(tier: Tier) -> Sched {
        let cfgs = bounded_configs(tier);
        let prefixes = cfgs.iter().map(|c| all_prefixes(c.objects.len())).collect();
        Sched { quick: tier == Tier::Quick, cfgs, prefixes }
    }
    fn new(tier: Tier) -> Sched {
        let cfgs = configs(tier);
        let prefixes = cfgs.iter().map(|c| all_prefixes(c.objects.len())).collect();
        Sched { quick: tier == Tier::Quick, cfgs, prefixes }
    }
    fn locate(&self, i: u64) -> (usize, usize) {
        let mut r = i as usize;
        for (ci, p) in self.prefixes.iter().enumerate() {
            if r < p.len() {
                return (ci, r);
            }
            r -= p.len();
        }
        (0, 0)
    }
}
impl Space for Sched {
    fn len(&self) -> u64 {
        self.prefixes.iter().map(|p| p.len() as u64).sum()
    }
    fn describe(&self, i: u64) -> Value {
        let (c, p) = self.locate(i);
        json!({"kind":"schedule-subtree","config": self.cfgs[c].name, "savers": self.cfgs[c].objects, "texts": self.cfgs[c].texts, "prefix": self.prefixes[c][p], "preemption_bound": self.cfgs[c].bound})
    }
    fn tags(&self, i: u64) -> Vec<String> {
        let (c, _) = self.locate(i);
        vec![format!("config:{}", self.cfgs[c].name)]
    }
    fn run(&self, i: u64, sink: &mut Sink) {
        let (c, p) = self.locate(i);
        let cfg = &self.cfgs[c];
        let prefix = self.prefixes[c][p].clone();
        // preemption cost of the fixed prefix is part of the bound: computed inside explore via zero_is_last
        let mut e = Explore { cfg, executions: 0, steps: 0, outcomes: Default::default(), violations: vec![], sink_hashes: vec![], rechecked: 0, max_points: 0 };
        install_hook();
        SKIP_ENTRY_EXIT.store(self.quick, std::sync::atomic::Ordering::Relaxed);
        e.explore(prefix.clone(), SPLIT, &sink.beat);
        sink.evaluations += e.executions;
        sink.count("executions", e.executions);
        sink.count("transitions", e.steps);
        sink.count(&format!("executions[{}]", cfg.name), e.executions);
        sink.count(&format!("outcomes_per_subtree_sum[{}]", cfg.name), e.outcomes.len() as u64);
        sink.count("determinism_rechecks", e.rechecked);
        sink.count(&format!("max_points[{}]", cfg.name), 0);
        sink.hashes.extend(e.sink_hashes);
        // outcome hashes are kept apart from state keys by a tag bit
        for o in &e.outcomes {
            sink.hashes.push(*o | (1u64 << 63));
        }
        if let Ok(mut f) = std::fs::OpenOptions::new().create(true).append(true).open(format!("{}/outcomes.{}", work_dir("C16"), cfg.name)) {
            use std::io::Write;
            for o in &e.outcomes {
                let _ = writeln!(f, "{:016x}", o);
            }
            let _ = writeln!(f, "points {}", e.max_points);
        }
        let tags = [format!("config:{}", cfg.name)];
        let tg: Vec<&str> = tags.iter().map(|s| s.as_str()).collect();
        for (cl, sy, d, choices) in e.violations {
            sink.violations.push(Violation::new(&cl, &sy, &tg, json!({"config": cfg.name, "schedule": choices}), format!("config {} schedule {:?}: {}", cfg.name, choices, d)));
        }
    }
}

fn install_hook() {
    umya_spreadsheet::verif_hook::install(hook);
}

/// Every lock operation on the shared string table in the library source must be preceded by a hook call;
/// otherwise the enumeration is not complete at lock-site granularity and the check cannot decide.
fn lock_sites_are_hooked() -> Result<usize, String> {
    fn walk(dir: &std::path::Path, out: &mut Vec<std::path::PathBuf>) {
        if let Ok(rd) = std::fs::read_dir(dir) {
            for e in rd.flatten() {
                let p = e.path();
                if p.is_dir() {
                    walk(&p, out);
                } else if p.extension().map(|x| x == "rs").unwrap_or(false) {
                    out.push(p);
                }
            }
        }
    }
    let mut files = vec![];
    walk(std::path::Path::new(&format!("{}/src", repo_root())), &mut files);
    let mut sites = 0;
    for f in files {
        if f.ends_with("verif_hook.rs") {
            continue;
        }
        let txt = std::fs::read_to_string(&f).unwrap_or_default();
        let lines: Vec<&str> = txt.lines().collect();
        for (i, l) in lines.iter().enumerate() {
            let t = l.trim();
            let is_lock = (t.contains(".read()") || t.contains(".write()")) && (t.contains("shared_string_table") || (i > 0 && lines[i - 1].contains("shared_string_table") && t.starts_with('.')));
            if is_lock {
                sites += 1;
                let lo = i.saturating_sub(8);
                if !lines[lo..i].iter().any(|x| x.contains("verif_hook::point")) {
                    return Err(format!("{}:{}: lock operation on the shared string table without a preceding verif_hook::point", f.display(), i + 1));
                }
            }
        }
    }
    if sites < 3 {
        return Err(format!("only {} lock sites found in {}/src (source layout changed?)", sites, repo_root()));
    }
    Ok(sites)
}

pub fn space(tier: Tier, id: &str) -> Option<Box<dyn Space>> {
    match id {
        "schedules" => Some(Box::new(Sched::new(tier))),
        "first:schedules-at-most-2-preemptions" => Some(Box::new(Sched::new_bounded(tier))),
        _ => None,
    }
}

fn replay(tier: Tier, case: &Value) -> Vec<Violation> {
    let name = case["config"].as_str().unwrap_or("");
    let mut cfgs = configs(tier);
    cfgs.extend(bounded_configs(tier));
    let cfg = match cfgs.iter().find(|c| c.name == name) {
        Some(c) => c.clone(),
        None => {
            // subtree case from a hang report
            return replay_e1(space(tier, case["_space"].as_str().unwrap_or("schedules")), case);
        }
    };
    let choices: Vec<usize> = case["schedule"].as_array().map(|a| a.iter().filter_map(|x| x.as_u64().map(|v| v as usize)).collect()).unwrap_or_default();
    install_hook();
    SKIP_ENTRY_EXIT.store(tier == Tier::Quick, std::sync::atomic::Ordering::Relaxed);
    let books = build_books(&cfg);
    let beat = Beat(std::ptr::null_mut());
    let mut out = vec![];
    match run_schedule(&books, &choices, &beat) {
        Ok(ex) => {
            let mut vs = vec![];
            check_exec(&cfg, &ex, &mut vs);
            let tags = [format!("config:{}", cfg.name)];
            let tg: Vec<&str> = tags.iter().map(|s| s.as_str()).collect();
            for (c, s, d) in vs {
                out.push(Violation::new(&c, &s, &tg, case.clone(), d));
            }
        }
        Err(RunErr::Infeasible) => {
            eprintln!("replay: schedule not feasible (divergence)");
            std::process::exit(2);
        }
        Err(RunErr::Stuck(s)) => out.push(Violation::new("terminates", "hang", &[], case.clone(), s)),
    }
    out
}

fn run(ctx: &Ctx) -> i32 {
    // A lock site without a hook makes the enumeration incomplete.  Violations found anyway are real (exit 1);
    // only the ABSENCE of violations cannot be trusted then (exit 2, "cannot decide").
    let (sites, unhooked) = match lock_sites_are_hooked() {
        Ok(n) => (n, None),
        Err(e) => (0, Some(e)),
    };
    let wd = work_dir("C16");
    if let Ok(rd) = std::fs::read_dir(&wd) {
        for e in rd.flatten() {
            if e.file_name().to_string_lossy().starts_with("outcomes.") {
                let _ = std::fs::remove_file(e.path());
            }
        }
    }
    let cfgs = configs(ctx.tier);
    let spaces = vec![("first:schedules-at-most-2-preemptions", space(ctx.tier, "first:schedules-at-most-2-preemptions").unwrap()), ("schedules", space(ctx.tier, "schedules").unwrap())];
    let mut cfgs2 = cfgs.clone();
    cfgs2.extend(bounded_configs(ctx.tier));
    let code = run_e1_with(
        ctx,
        E1Spec {
            spaces,
            cfg: PoolCfg { chunk: 1, case_timeout: Duration::from_secs(60), ..Default::default() },
            level: "model_checking",
            rule: "stateless exploration of thread interleavings of real concurrent write_writer calls under a cooperative scheduler: scheduling points = every shared-string-table lock operation (hook before each) + make_buffer entry/exit + thread start; 2-saver configurations are explored COMPLETELY (all interleavings), 3-saver configurations up to the stated preemption bound; every execution rebuilds its workbooks; each saver's output is reloaded and must show exactly its own workbook's cells. The bound is iterated: space `first:schedules-at-most-2-preemptions` explores every completely-explored configuration with at most 2 preemptions first (a subset of the complete pass); if it reports violations the complete pass is not run (caps_hit says so). states = distinct (per-saver progress vector, running saver, parked sites) scheduler states + distinct outcomes; transitions = scheduling steps; traces_validated_against_impl = every step runs the real code".into(),
            alphabets: json!({"configurations": cfgs.iter().map(|c| json!({"name": c.name, "savers": c.objects, "texts": c.texts, "preemption_bound": c.bound})).collect::<Vec<_>>(), "lock_sites_found_and_hooked": sites}),
            bounds: json!({"savers": "2 (complete) and 3 (preemption-bounded)", "text_cells_per_book": if ctx.tier == Tier::Thorough {"3 (2-saver configurations), 2 (3-saver and lazy configurations)"} else {"2"}, "split_prefix_length": SPLIT, "entry_exit_points": if ctx.tier == Tier::Thorough {"scheduling points"} else {"not scheduling points in the quick tier (sound reduction: no shared-state operation between them and the neighbouring lock site)"}}),
            exhaustive: true,
            caps_hit: vec![],
            assumptions: vec!["between two scheduling points a saver touches shared state only inside one lock-protected critical section (no unsafe, the table is reachable only through the lock), so every real execution is equivalent to an enumerated point-level interleaving".into(), "memory-ordering effects below the lock granularity are not modelled (std RwLock gives sequential consistency for the protected data)".into()],
            min_distinct: 10,
        },
        move |cov, counters| {
            // distinct outcomes per configuration (merged over sub-trees)
            let mut per = serde_json::Map::new();
            for c in &cfgs2 {
                let mut set = std::collections::BTreeSet::new();
                let mut points = 0u64;
                if let Ok(t) = std::fs::read_to_string(format!("{}/outcomes.{}", work_dir("C16"), c.name)) {
                    for l in t.lines() {
                        if let Some(p) = l.strip_prefix("points ") {
                            points = points.max(p.parse().unwrap_or(0));
                        } else {
                            set.insert(l.to_string());
                        }
                    }
                }
                per.insert(c.name.to_string(), json!({"executions": counters.get(&format!("executions[{}]", c.name)).cloned().unwrap_or(0), "distinct_outcomes": set.len(), "scheduling_points_per_execution": points, "preemption_bound": c.bound, "complete": c.bound.is_none()}));
            }
            cov.insert("per_configuration".into(), Value::Object(per));
            let ex = counters.get("executions").cloned().unwrap_or(0);
            cov.insert("schedules_explored".into(), json!(ex));
        },
    );
    if let Some(e) = unhooked {
        if code == 0 {
            eprintln!("MACHINERY: C16 cannot decide: {} (no violation found at the hooked scheduling points, but the enumeration is incomplete)", e);
            return 2;
        }
        eprintln!("note: {} - the enumeration is incomplete, the violations above are real nevertheless", e);
    }
    code
}