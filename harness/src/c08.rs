//! C08 — references keep their target cells across row/column insert and remove.
//! Explicit exploration of edit histories over real workbooks in lock-step with the AST reference shifter
//! (engine: E1 spaces whose case = (formula, placement) and which loop over all histories).
use crate::c09::fgrammar::*;
use crate::common::*;
use crate::e1::*;
use crate::pool::*;
use serde_json::{json, Value};
use std::collections::BTreeMap;
use umya_spreadsheet::Spreadsheet;

pub fn entry() -> crate::Entry {
    crate::Entry { id: "C08", run, space, replay }
}

pub const SHEETS: [&str; 3] = ["Sheet1", "My Sheet", "It's"];
/// references sit at B2 / C3 / B2:C3 / B:C / 2:3
pub const CO: Coords = Coords { c1: 2, r1: 2, c2: 3, r2: 3 };
const PLAIN: &str = "Sheet1";
/// the formula cell (T50) lies behind every edit position, so it moves but is never deleted
const FCELL: (u32, u32) = (20, 50);
/// edit positions: before the reference, on it, +1 (inside the range / on its end), just behind it, far behind it
const POS: [u32; 5] = [1, 2, 3, 4, 9];
const NS: [u32; 2] = [1, 3];

fn guarded<T, F: FnOnce() -> T>(f: F) -> Result<T, String> {
    std::panic::catch_unwind(std::panic::AssertUnwindSafe(f)).map_err(|e| panic_msg(&e))
}

/// full alphabet: 3 sheets x {insert, remove} x {row, column} x 5 positions x 2 counts = 120 edits
fn edits_full() -> Vec<Edit> {
    let mut v = vec![];
    for sheet in SHEETS {
        for insert in [true, false] {
            for axis in [Axis::Row, Axis::Col] {
                for p in POS {
                    for n in NS {
                        v.push(Edit { sheet, axis, insert, p, n });
                    }
                }
            }
        }
    }
    v
}
/// medium alphabet (histories of length 2): 3 sheets x 2 x 2 x p in {2,3} x n in {1,3} = 48
fn edits_medium() -> Vec<Edit> {
    edits_full().into_iter().filter(|e| e.p == 2 || e.p == 3).collect()
}
/// small alphabet (histories of length 3..4): sheets {Sheet1, My Sheet} x 2 x 2 x p in {2,3} x n = 1 = 16
fn edits_small() -> Vec<Edit> {
    edits_full().into_iter().filter(|e| (e.p == 2 || e.p == 3) && e.n == 1 && e.sheet != "It's").collect()
}
fn edit_json(e: &Edit) -> Value {
    json!({"sheet": e.sheet, "op": if e.insert {"insert"} else {"remove"}, "axis": if e.axis == Axis::Row {"row"} else {"column"}, "p": e.p, "n": e.n})
}
fn apply(book: &mut Spreadsheet, e: &Edit) {
    match (e.insert, e.axis) {
        (true, Axis::Row) => book.insert_new_row(e.sheet, &e.p, &e.n),
        (true, Axis::Col) => book.insert_new_column_by_index(e.sheet, &e.p, &e.n),
        (false, Axis::Row) => book.remove_row(e.sheet, &e.p, &e.n),
        (false, Axis::Col) => book.remove_column_by_index(e.sheet, &e.p, &e.n),
    }
}
fn empty_book() -> Spreadsheet {
    let mut book = Spreadsheet::default();
    for s in SHEETS {
        let _ = book.new_sheet(s);
    }
    book
}
fn book_with_formula(text: &str, placement: &str) -> Spreadsheet {
    let mut book = empty_book();
    book.get_sheet_by_name_mut(placement).unwrap().get_cell_mut(FCELL).set_formula(text);
    book
}
/// the single formula cell of the placement sheet, wherever the edits moved it
fn read_formula(book: &Spreadsheet, placement: &str) -> Option<String> {
    let sheet = book.get_sheet_by_name(placement)?;
    let mut cells: Vec<&umya_spreadsheet::Cell> = sheet.get_cell_collection().into_iter().filter(|c| c.is_formula()).collect();
    cells.sort_by_key(|c| (*c.get_coordinate().get_row_num(), *c.get_coordinate().get_col_num()));
    cells.first().map(|c| c.get_formula().to_string())
}

struct Explorer<'a> {
    f0: &'a F,
    placement: &'static str,
    sink: &'a mut Sink,
    /// per clause: (conforming transitions, violating transitions)
    failed: BTreeMap<&'static str, (u64, u64)>,
    transitions: u64,
    panic_tags: BTreeMap<(&'static str, String), Vec<&'static str>>,
}
fn clause_of(e: &Edit) -> &'static str {
    if e.insert {
        "formula-insert"
    } else {
        "formula-remove"
    }
}
impl<'a> Explorer<'a> {
    fn case(&self, hist: &[Edit]) -> Value {
        json!({"formula": render(self.f0).text, "placement": self.placement, "history": hist.iter().map(edit_json).collect::<Vec<_>>()})
    }
    /// does the sub-formula `g` panic with the given class somewhere along `hist`?
    fn panics_along(g: &F, placement: &'static str, hist: &[Edit], class: &str) -> bool {
        let mut book = book_with_formula(&render(g).text, placement);
        for e in hist {
            let r = guarded(|| apply(&mut book, e));
            if let Err(m) = r {
                return panic_class(&m) == class;
            }
        }
        false
    }
    fn explore(&mut self, book: &Spreadsheet, model: &F, alphabet: &[Edit], depth_left: usize, hist: &mut Vec<Edit>) {
        let before = render(model);
        for e in alphabet {
            hist.push(e.clone());
            if hist.len() <= 2 {
                // liveness for the watchdog: deep cases run for many seconds
                self.sink.beat.note(&format!("{} @ {} after {} edits", before.text, self.placement, hist.len()));
            }
            self.transitions += 1;
            self.sink.evaluations += 1;
            let clause = clause_of(e);
            let mut b2 = book.clone();
            let placement = self.placement;
            let r = guarded(move || {
                apply(&mut b2, e);
                let t = read_formula(&b2, placement);
                (b2, t)
            });
            let model2 = shift_formula(model, self.placement, e);
            match r {
                Err(msg) => {
                    let class = panic_class(&msg);
                    let tags = match self.panic_tags.get(&(clause, class.clone())) {
                        Some(t) => t.clone(),
                        None => {
                            let healthy = healthy_leaf(CO);
                            let h = hist.clone();
                            // blame through sub-formulas of the ORIGINAL formula replayed along the same history
                            let t = attribute(self.f0, &healthy, &|g: &F| Self::panics_along(g, placement, &h, &class));
                            self.panic_tags.insert((clause, class.clone()), t.clone());
                            t
                        }
                    };
                    self.failed.entry(clause).or_insert((0, 0)).1 += 1;
                    self.sink.violations.push(Violation::new(clause, &format!("panic:{}", class), &tags, self.case(hist), format!("{:?} on {:?} after {:?}: panic {}", before.text, self.placement, edit_json(e), msg)));
                }
                Ok((_, None)) => {
                    self.failed.entry(clause).or_insert((0, 0)).1 += 1;
                    self.sink.violations.push(Violation::new(clause, "formula-cell-vanished", &formula_tags(self.f0), self.case(hist), format!("no formula cell left on {:?} after {:?}", self.placement, edit_json(e))));
                }
                Ok((b2, Some(got))) => {
                    self.sink.obs(&format!("{}\u{1}{}", self.placement, got));
                    let exp = render(&model2);
                    match compare_axis(&exp, &before, &got, "deleted-target-not-REF", Some(e.axis)) {
                        Some(d) => {
                            self.failed.entry(clause).or_insert((0, 0)).1 += 1;
                            self.sink.violations.push(Violation::new(clause, &d.symptom, &d.tags, self.case(hist), format!("{:?} on {:?}, {}: {}", before.text, self.placement, edit_json(e), d.detail)));
                        }
                        None => {
                            self.failed.entry(clause).or_insert((0, 0)).0 += 1;
                            // conforming transition: extend the history (a diverged state is not extended)
                            if depth_left > 1 {
                                self.explore(&b2, &model2, alphabet, depth_left - 1, hist);
                            }
                        }
                    }
                }
            }
            hist.pop();
        }
    }
}

/// plan of one (formula, placement) case: list of (alphabet, depth)
fn run_case(f: &F, placement: &'static str, plan: &[(Vec<Edit>, usize)], sink: &mut Sink) {
    let text = render(f).text;
    sink.beat.note(&format!("{} @ {}", text, placement));
    let book = match guarded(|| book_with_formula(&text, placement)) {
        Ok(b) => b,
        Err(m) => {
            sink.violations.push(Violation::new("formula-insert", &format!("panic:{}", panic_class(&m)), &formula_tags(f), json!({"formula": text, "placement": placement, "history": []}), format!("set_formula panicked: {}", m)));
            return;
        }
    };
    let tags = formula_tags(f);
    let mut ex = Explorer { f0: f, placement, sink, failed: BTreeMap::new(), transitions: 0, panic_tags: BTreeMap::new() };
    for (alphabet, depth) in plan {
        let mut hist = vec![];
        ex.explore(&book, f, alphabet, *depth, &mut hist);
    }
    let failed = ex.failed.clone();
    let tr = ex.transitions;
    sink.count("transitions", tr);
    for c in ["formula-insert", "formula-remove"] {
        let (good, bad) = failed.get(c).cloned().unwrap_or((0, 0));
        for t in &tags {
            sink.count(&format!("clean|{}|{}", c, t), good);
            sink.count(&format!("failing|{}|{}", c, t), bad);
        }
    }
    sink.count("formula-placements", 1);
}

// ---- spaces -----------------------------------------------------------------------------------------------
/// 4-leaf alphabet of the quick tier's wrapped / 3-leaf / chain sections: relative references only (the `$` forms are
/// covered in the 1- and 2-leaf sections; they are known not to move, which would blanket the deeper sections)
fn core4() -> Vec<Leaf> {
    let s = ref_shapes(CO);
    vec![
        Leaf::Ref(Ref { q: Qual::None, k: s[0] }),
        Leaf::Ref(Ref { q: Qual::None, k: s[4] }),
        Leaf::Ref(Ref { q: Qual::Plain(PLAIN), k: RK::Cell { c: p(CO.c2, false), r: p(CO.r2, false) } }),
        literal_leaves()[1].clone(),
    ]
}
fn in_reduced(l: &Leaf) -> bool {
    reduced_leaves(CO, PLAIN).contains(l)
}
/// histories of length 2 over the medium alphabet: quick = bare leaves; thorough = every formula with <= 2 leaves
/// and at most one combinator whose leaves are all in the reduced alphabet (a bare leaf may be any leaf)
fn depth2_eligible(f: &F, deep: bool) -> bool {
    match f {
        F::L(_) => true,
        _ if !deep => false,
        _ => children(f).iter().all(|c| matches!(c, F::L(l) if in_reduced(l))),
    }
}

struct Formulas {
    en: Enumerator,
    deep: bool,
    full: Vec<Edit>,
    medium: Vec<Edit>,
    small: Vec<Edit>,
}
/// quick tier: the wrapped / 3-leaf / chain sections meet only the 16-edit alphabet
const QUICK_SMALL_SECTIONS: [&str; 4] = ["unary(unary(leaf))", "unary-around-binary", "three-leaves", "depth-6-chains"];
impl Formulas {
    fn item(&self, i: u64) -> Option<(F, &'static str, &'static str)> {
        match self.en.get(i / 3) {
            Some((sec, Some(f))) => Some((f, SHEETS[(i % 3) as usize], sec)),
            _ => None,
        }
    }
}
impl Space for Formulas {
    fn len(&self) -> u64 {
        self.en.len() * 3
    }
    fn describe(&self, i: u64) -> Value {
        match self.item(i) {
            Some((f, p, _)) => json!({"kind": "formula-placement", "formula": render(&f).text, "placement": p}),
            None => json!({"kind": "skipped-ill-formed"}),
        }
    }
    fn tags(&self, i: u64) -> Vec<String> {
        self.item(i).map(|(f, _, _)| formula_tags(&f).iter().map(|s| s.to_string()).collect()).unwrap_or_default()
    }
    fn run(&self, i: u64, sink: &mut Sink) {
        match self.item(i) {
            None => sink.count("skipped-ill-formed", 1),
            Some((f, p, sec)) => {
                if self.deep && sec == "three-leaves" && (i / 3) % 3 != i % 3 {
                    // thorough tier: a 3-leaf formula is placed on ONE sheet (rotating with its index)
                    sink.count("placements-not-taken-for-3-leaf-formulas", 1);
                    return;
                }
                let first = if !self.deep && QUICK_SMALL_SECTIONS.contains(&sec) {
                    self.small.clone()
                } else if self.deep && (sec == "three-leaves" || sec == "unary-around-binary") {
                    self.medium.clone()
                } else {
                    self.full.clone()
                };
                let mut plan = vec![(first, 1)];
                if depth2_eligible(&f, self.deep) {
                    plan.push((self.medium.clone(), 2));
                    sink.count("formula-placements-with-length-2-histories", 1);
                }
                run_case(&f, p, &plan, sink);
            }
        }
    }
}

/// ~40 formula core explored to depth 3 (quick) / 4 (thorough) over the small alphabet
fn core_formulas() -> Vec<F> {
    let red = reduced_leaves(CO, PLAIN);
    let n = red.len();
    let mut v: Vec<F> = red.iter().map(|l| F::L(l.clone())).collect();
    let ops = [0usize, 1, 2, 5, 6, 7, 11];
    for k in 0..n {
        v.push(F::Bin(ops[k % ops.len()], false, Box::new(F::L(red[k].clone())), Box::new(F::L(red[(k + 1) % n].clone()))));
    }
    for k in 0..n {
        v.push(F::Call("SUM", false, vec![F::L(red[k].clone()), F::L(red[(k + 5) % n].clone())]));
    }
    v.push(F::Call("IF", false, vec![F::Bin(9, false, Box::new(F::L(red[0].clone())), Box::new(F::L(red[8].clone()))), F::L(red[3].clone()), F::L(red[6].clone())]));
    v.push(F::Isect(Box::new(F::L(red[3].clone())), Box::new(F::L(red[4].clone()))));
    // intersections / unions with a sheet-qualified reference on either side: after an edit that deletes its target the
    // formula contains Sheet!#REF! next to a significant blank or a comma, and must survive the NEXT edit
    for q in [6usize, 7] {
        v.push(F::Isect(Box::new(F::L(red[0].clone())), Box::new(F::L(red[q].clone()))));
        v.push(F::Isect(Box::new(F::L(red[q].clone())), Box::new(F::L(red[2].clone()))));
        v.push(F::Union(Box::new(F::L(red[1].clone())), Box::new(F::L(red[q].clone()))));
    }
    v.push(F::Union(Box::new(F::L(red[1].clone())), Box::new(F::L(red[5].clone()))));
    v.push(F::Un(Un::Neg, Box::new(F::Un(Un::Paren, Box::new(F::Bin(2, true, Box::new(F::L(red[2].clone())), Box::new(F::L(red[6].clone()))))))));
    v
}
struct Core {
    forms: Vec<F>,
    small: Vec<Edit>,
    depth: usize,
}
impl Space for Core {
    fn len(&self) -> u64 {
        self.forms.len() as u64 * 3
    }
    fn describe(&self, i: u64) -> Value {
        json!({"kind": "core-formula-placement", "formula": render(&self.forms[(i / 3) as usize]).text, "placement": SHEETS[(i % 3) as usize], "depth": self.depth})
    }
    fn tags(&self, i: u64) -> Vec<String> {
        formula_tags(&self.forms[(i / 3) as usize]).iter().map(|s| s.to_string()).collect()
    }
    fn run(&self, i: u64, sink: &mut Sink) {
        run_case(&self.forms[(i / 3) as usize], SHEETS[(i % 3) as usize], &[(self.small.clone(), self.depth)], sink);
    }
}

struct Bracket {
    forms: Vec<F>,
    placements: usize,
    full: Vec<Edit>,
}
impl Space for Bracket {
    fn len(&self) -> u64 {
        (self.forms.len() * self.placements) as u64
    }
    fn describe(&self, i: u64) -> Value {
        json!({"kind": "bracket-formula-placement", "formula": render(&self.forms[i as usize / self.placements]).text, "placement": SHEETS[i as usize % self.placements]})
    }
    fn tags(&self, i: u64) -> Vec<String> {
        formula_tags(&self.forms[i as usize / self.placements]).into_iter().filter(|t| *t == "structured-ref" || *t == "external-ref").map(|s| s.to_string()).collect()
    }
    fn run(&self, i: u64, sink: &mut Sink) {
        run_case(&self.forms[i as usize / self.placements], SHEETS[i as usize % self.placements], &[(self.full.clone(), 1)], sink);
    }
}

#[path = "c08_names.rs"]
mod names;

/// Shared-formula groups: a master cell with the group's text and two children that only carry the expanded
/// view text (what the reader produces for <f t="shared" si=..>).  Every cell of the group must follow the
/// same rules as an ordinary formula, also when the group lives on a sheet OTHER than the edited one.
struct SharedGroups {
    cases: Vec<(&'static str, Qual)>,
    full: Vec<Edit>,
}
impl SharedGroups {
    fn master(q: &Qual) -> F {
        // <q>B2*2
        F::Bin(2, false, Box::new(F::L(Leaf::Ref(Ref { q: q.clone(), k: RK::Cell { c: p(2, false), r: p(2, false) } }))), Box::new(F::L(Leaf::Lit { text: "2", tag: "num-int", kind: LitKind::Num })))
    }
    fn build(placement: &str, q: &Qual) -> (Spreadsheet, Vec<F>) {
        let mut book = empty_book();
        let m = Self::master(q);
        let mut forms = vec![];
        let ws = book.get_sheet_by_name_mut(placement).unwrap();
        for k in 0..3u32 {
            let f = translate_formula(&m, 0, k as i64);
            let mut obj = umya_spreadsheet::CellFormula::default();
            obj.set_formula_type(umya_spreadsheet::CellFormulaValues::Shared);
            obj.set_shared_index(0);
            if k == 0 {
                obj.set_text(render(&f).text);
            } else {
                obj.set_text_view(render(&f).text);
            }
            let c = ws.get_cell_mut((FCELL.0, FCELL.1 + k));
            c.get_cell_value_mut().set_formula_obj(obj);
            forms.push(f);
        }
        (book, forms)
    }
}
impl Space for SharedGroups {
    fn len(&self) -> u64 {
        self.cases.len() as u64
    }
    fn describe(&self, i: u64) -> Value {
        let (pl, q) = &self.cases[i as usize];
        json!({"kind": "shared-formula-group", "placement": pl, "master": render(&Self::master(q)).text, "cells": "T50 (master), T51, T52 (children with view text only)", "edits": self.full.len()})
    }
    fn tags(&self, i: u64) -> Vec<String> {
        let (_, q) = &self.cases[i as usize];
        let mut t = vec!["shared-formula-group".to_string(), "ref-rel".to_string()];
        if let Some(x) = q.tag() {
            t.push(x.to_string());
        }
        t
    }
    fn run(&self, i: u64, sink: &mut Sink) {
        let (placement, q) = self.cases[i as usize].clone();
        let (book, forms) = match guarded(|| Self::build(placement, &q)) {
            Ok(x) => x,
            Err(m) => {
                sink.violations.push(Violation::new("formula-insert", &format!("panic:{}", panic_class(&m)), &["shared-formula-group"], self.describe(i), m));
                return;
            }
        };
        for e in &self.full {
            sink.evaluations += 1;
            sink.count("transitions", 1);
            let clause = clause_of(e);
            let mut b2 = book.clone();
            let r = guarded(move || {
                apply(&mut b2, e);
                let sheet = b2.get_sheet_by_name(placement).unwrap();
                let mut cells: Vec<&umya_spreadsheet::Cell> = sheet.get_cell_collection().into_iter().filter(|c| c.is_formula()).collect();
                cells.sort_by_key(|c| (*c.get_coordinate().get_row_num(), *c.get_coordinate().get_col_num()));
                cells.iter().map(|c| c.get_formula().to_string()).collect::<Vec<String>>()
            });
            let case = json!({"kind": "shared-formula-group", "placement": placement, "master": render(&forms[0]).text, "history": [edit_json(e)]});
            match r {
                Err(m) => sink.violations.push(Violation::new(clause, &format!("panic:{}", panic_class(&m)), &["shared-formula-group", "ref-rel"], case, m)),
                Ok(got) => {
                    sink.obs(&format!("{}\u{1}{:?}", placement, got));
                    // group cells that were themselves removed by the edit are not expected back
                    let own_removed = |k: u32| -> bool { !e.insert && e.sheet == placement && if e.axis == Axis::Row { FCELL.1 + k >= e.p && FCELL.1 + k < e.p + e.n } else { FCELL.0 >= e.p && FCELL.0 < e.p + e.n } };
                    let survivors: Vec<usize> = (0..3usize).filter(|k| !own_removed(*k as u32)).collect();
                    if got.len() != survivors.len() {
                        sink.violations.push(Violation::new(clause, "group-cell-count", &["shared-formula-group"], case.clone(), format!("{} formula cells after {:?}, expected {}", got.len(), edit_json(e), survivors.len())));
                        continue;
                    }
                    for (gi, k) in survivors.iter().enumerate() {
                        let before = render(&forms[*k]);
                        let exp = render(&shift_formula(&forms[*k], placement, e));
                        if let Some(d) = compare_axis(&exp, &before, &got[gi], "deleted-target-not-REF", Some(e.axis)) {
                            let mut tags = d.tags.clone();
                            tags.push(if *k == 0 { "shared-master" } else { "shared-child" });
                            sink.violations.push(Violation::new(clause, &d.symptom, &tags, case.clone(), format!("group cell #{} {:?} on {:?}, {}: {}", k, before.text, placement, edit_json(e), d.detail)));
                        }
                    }
                }
            }
        }
    }
}

pub fn space(tier: Tier, id: &str) -> Option<Box<dyn Space>> {
    let deep = tier == Tier::Thorough;
    match id {
        "shared" => Some(Box::new(SharedGroups {
            cases: vec![("Sheet1", Qual::None), ("Sheet1", Qual::Plain("Sheet1")), ("My Sheet", Qual::Plain("Sheet1")), ("My Sheet", Qual::None), ("It's", Qual::Plain("Sheet1"))],
            full: edits_full(),
        })),
        "formulas" => Some(Box::new(Formulas { en: main_space(CO, PLAIN, deep, core4()), deep, full: edits_full(), medium: edits_medium(), small: edits_small() })),
        "core" => Some(Box::new(Core { forms: core_formulas(), small: edits_small(), depth: if deep { 4 } else { 3 } })),
        "names" => Some(Box::new(names::Names::new(deep))),
        "bracket" => {
            let en = bracket_space(CO, deep);
            let mut forms = vec![];
            for j in 0..en.len() {
                if let Some((_, Some(f))) = en.get(j) {
                    forms.push(f);
                }
            }
            Some(Box::new(Bracket { forms, placements: if deep { 3 } else { 1 }, full: edits_full() }))
        }
        _ => None,
    }
}

fn replay(tier: Tier, case: &Value) -> Vec<Violation> {
    replay_e1(space(tier, case["_space"].as_str().unwrap_or("")), case)
}

fn run(ctx: &Ctx) -> i32 {
    let deep = ctx.tier == Tier::Thorough;
    let main = main_space(CO, PLAIN, deep, core4());
    let br = bracket_space(CO, deep);
    if let Err(e) = crate::c09::validate_all(&[&main, &br]) {
        eprintln!("MACHINERY: C08 own lexer failed its round trip: {}", e);
        return 2;
    }
    // every expected rendering the shifter can produce for a leaf must lex as intended, too
    for l in full_leaves(CO, PLAIN) {
        if let Leaf::Ref(r) = &l {
            for e in edits_full() {
                for own in SHEETS {
                    if let Err(m) = validate_lexer(&render(&F::L(shift_ref(r, own, &e)))) {
                        eprintln!("MACHINERY: C08 own lexer failed on a shifted reference: {}", m);
                        return 2;
                    }
                }
            }
        }
    }
    let sections: Vec<Value> = main.summary().into_iter().chain(br.summary()).map(|(n, c)| json!({"section": n, "index_range": c})).collect();
    let only = std::env::var("UV_SPACES").unwrap_or_default(); // development knob: run a subset of the spaces
    let ids: Vec<&'static str> = ["formulas", "core", "names", "bracket", "shared"].into_iter().filter(|id| only.is_empty() || only.split(',').any(|x| x == *id)).collect();
    let spaces = ids.iter().map(|id| (*id, space(ctx.tier, id).unwrap())).collect();
    run_e1(
        ctx,
        E1Spec {
            spaces,
            cfg: PoolCfg { chunk: if deep { 4 } else { 1 }, case_timeout: std::time::Duration::from_secs(3), keep_per_class: 2, ..Default::default() },
            level: "model_checking",
            rule: "workbook with sheets Sheet1 / My Sheet / It's; case = (formula of the harness grammar, sheet holding it at T50); from the initial state every history of workbook-level edits (Spreadsheet::insert_new_row / insert_new_column_by_index / remove_row / remove_column_by_index by sheet name) up to the stated length is executed on a clone of the real workbook in lock-step with the AST reference shifter (a reference = set of cells on a sheet; survivors translated, bounding box, #REF! when none survives; $ irrelevant; other sheets' references and all other tokens unchanged); after every transition Cell::get_formula of the formula cell is compared with the shifted AST token by token through the harness's own lexer; a diverged state is not extended. Space 'names' does the same for references carried by a global defined name, sheet-scoped defined names and a chart series (compared as parsed sheet + reference). states = distinct (placement, resulting text) pairs; transitions = executed (state, edit) steps; counters clean|<clause>|<tag> / failing|... = conforming / violating transitions of formulas carrying the tag".into(),
            alphabets: json!({
                "sheets": SHEETS,
                "edits_full": edits_full().len(), "edits_medium": edits_medium().len(), "edits_small": edits_small().len(),
                "positions": POS, "counts": NS,
                "leaves_full": full_leaves(CO, PLAIN).iter().map(render_leaf).collect::<Vec<_>>(),
                "leaves_reduced": reduced_leaves(CO, PLAIN).iter().map(render_leaf).collect::<Vec<_>>(),
                "leaves_bracket": bracket_leaves().iter().map(render_leaf).collect::<Vec<_>>(),
                "core_formulas": core_formulas().iter().map(|f| render(f).text).collect::<Vec<_>>(),
                "name_carriers": names::CARRIERS,
                "name_references": names::name_refs().iter().map(|r| render_leaf(&Leaf::Ref(r.clone()))).collect::<Vec<_>>(),
            }),
            bounds: json!({"tier": ctx.tier.name(), "formula_sections": sections,
                "histories": {"length-1": if deep {"sections leaf, unary, binary(full,full), unary(unary), chains: every formula x 3 placements x 120 edits; unary-around-binary: x 3 placements x 48 edits; three-leaves: x 1 placement (rotating with the index) x 48 edits"} else {"every formula x every placement x 120 edits (sections leaf, unary, binary) or x 16 edits (wrapped / 3-leaf / chain sections)"},
                              "length-2": if deep {"bare leaves and one-combinator formulas over the reduced leaves x 48 edits"} else {"bare leaves x 48 edits"},
                              "core": format!("{} core formulas x 3 placements x 16 edits to depth {}", core_formulas().len(), if deep {4} else {3}),
                              "names": if deep {"length 2 over the 120-edit alphabet"} else {"length 1 over the 120-edit alphabet, length 2 over the 48-edit alphabet"}}}),
            exhaustive: true,
            caps_hit: vec![],
            assumptions: vec![
                "the formula cell is located by scanning its sheet (workbook-level edits also move cells of sheets they do not name - C07's subject)".into(),
                "a deleted defined name / chart reference counts as correct when the model says its target was deleted (the statement asks for #REF!; dropping the name does not designate a different cell)".into(),
                "a dead reference is compared modulo the spelling Sheet!#REF! / #REF!".into(),
                "histories are extended only through conforming transitions (after a divergence the lock-step comparison is meaningless)".into(),
            ],
            min_distinct: 300,
        },
    )
}
