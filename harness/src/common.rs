//! Shared plumbing: violations, known-findings matching, evidence writing, exit codes.
use serde_json::{json, Map, Value};
use std::collections::{BTreeMap, HashSet};
use std::time::Instant;

pub const VERIF: &str = "/verif";

/// Output root (evidence/, replays/, .work/): /verif unless UV_OUT is set (used by scratch mutant runs so
/// that they never overwrite the real evidence).  Known findings are always read from /verif.
pub fn out_root() -> String {
    std::env::var("UV_OUT").unwrap_or_else(|_| VERIF.to_string())
}

#[derive(Clone, Copy, PartialEq, Eq, Debug)]
pub enum Tier {
    Quick,
    Thorough,
}
impl Tier {
    pub fn name(&self) -> &'static str {
        match self {
            Tier::Quick => "quick",
            Tier::Thorough => "thorough",
        }
    }
    pub fn parse(s: &str) -> Tier {
        match s {
            "thorough" => Tier::Thorough,
            _ => Tier::Quick,
        }
    }
}

/// One failed oracle clause on one case.
#[derive(Clone, Debug)]
pub struct Violation {
    /// which clause of the oracle failed (stable identifier)
    pub clause: String,
    /// symptom class computed by the oracle (stable identifier, no case data)
    pub symptom: String,
    /// feature tags of the generated case
    pub tags: Vec<String>,
    /// replayable description of the case
    pub case: Value,
    /// human readable expected/got
    pub detail: String,
}
impl Violation {
    pub fn new(clause: &str, symptom: &str, tags: &[&str], case: Value, detail: String) -> Self {
        Violation {
            clause: clause.to_string(),
            symptom: symptom.to_string(),
            tags: tags.iter().map(|s| s.to_string()).collect(),
            case,
            detail,
        }
    }
    pub fn to_json(&self) -> Value {
        json!({"clause": self.clause, "symptom": self.symptom, "tags": self.tags, "case": self.case, "detail": self.detail})
    }
    pub fn from_json(v: &Value) -> Violation {
        Violation {
            clause: v["clause"].as_str().unwrap_or("").to_string(),
            symptom: v["symptom"].as_str().unwrap_or("").to_string(),
            tags: v["tags"]
                .as_array()
                .map(|a| a.iter().filter_map(|x| x.as_str().map(|s| s.to_string())).collect())
                .unwrap_or_default(),
            case: v["case"].clone(),
            detail: v["detail"].as_str().unwrap_or("").to_string(),
        }
    }
}

pub struct Ctx {
    pub prop: String,
    pub tier: Tier,
    pub seed: u64,
    pub start: Instant,
}

impl Ctx {
    pub fn new(prop: &str, tier: Tier) -> Ctx {
        let seed = std::env::var("VERIF_SEED").ok().and_then(|s| s.parse::<u64>().ok()).unwrap_or(0);
        Ctx { prop: prop.to_string(), tier, seed, start: Instant::now() }
    }
}

#[derive(Clone, Debug)]
pub struct KnownEntry {
    pub id: String,
    pub property: String,
    pub status: String,
    pub clause: Vec<String>,
    pub symptom: Vec<String>,
    pub tags: Vec<String>,
    pub what: String,
}

fn str_or_list(v: &Value) -> Vec<String> {
    match v {
        Value::String(s) => vec![s.clone()],
        Value::Array(a) => a.iter().filter_map(|x| x.as_str().map(|s| s.to_string())).collect(),
        _ => vec![],
    }
}

pub fn load_known(prop: &str) -> Vec<KnownEntry> {
    let mut out = vec![];
    let mut files = vec![format!("{}/known_findings.json", VERIF)];
    if let Ok(rd) = std::fs::read_dir(format!("{}/known_findings.d", VERIF)) {
        let mut extra: Vec<String> = rd.filter_map(|e| e.ok()).map(|e| e.path().to_string_lossy().to_string()).filter(|p| p.ends_with(".json")).collect();
        extra.sort();
        files.extend(extra);
    }
    for path in files {
    let txt = match std::fs::read_to_string(&path) {
        Ok(t) => t,
        Err(_) => continue,
    };
    let v: Value = match serde_json::from_str(&txt) {
        Ok(v) => v,
        Err(e) => {
            eprintln!("MACHINERY: {} does not parse: {}", path, e);
            std::process::exit(2);
        }
    };
    if let Some(arr) = v["findings"].as_array() {
        for e in arr {
            if e["property"].as_str() != Some(prop) {
                continue;
            }
            out.push(KnownEntry {
                id: e["id"].as_str().unwrap_or("").to_string(),
                property: prop.to_string(),
                status: e["status"].as_str().unwrap_or("").to_string(),
                clause: str_or_list(&e["clause"]),
                symptom: str_or_list(&e["symptom"]),
                tags: str_or_list(&e["tags"]),
                what: e["what"].as_str().unwrap_or("").to_string(),
            });
        }
    }
    }
    out
}

/// A violation is covered iff a `known` entry has the same clause and symptom and one of its tags
/// is among the case's tags (an entry with the single tag "*" matches every case of that clause+symptom;
/// used only where the defect is independent of the input features).
pub fn covering<'a>(known: &'a [KnownEntry], v: &Violation) -> Option<&'a KnownEntry> {
    known.iter().find(|k| {
        k.status == "known"
            && k.clause.contains(&v.clause)
            && k.symptom.contains(&v.symptom)
            && (k.tags.iter().any(|t| t == "*") || k.tags.iter().any(|t| v.tags.contains(t)))
    })
}

/// Root of the library under test (its corpus is under tests/test_files): /repo unless UV_REPO is set
/// (scratch mutant runs).
pub fn repo_root() -> String {
    std::env::var("UV_REPO").unwrap_or_else(|_| "/repo".to_string())
}

pub fn fnv(data: &[u8]) -> u64 {
    let mut h: u64 = 0xcbf29ce484222325;
    for b in data {
        h ^= *b as u64;
        h = h.wrapping_mul(0x100000001b3);
    }
    h
}

pub struct Outcome {
    pub level: &'static str,
    pub coverage: Map<String, Value>,
    pub violations: Vec<Violation>,
    /// total number of violating cases per (clause,symptom) even if not all are kept in `violations`
    pub violation_counts: BTreeMap<(String, String), u64>,
    pub assumptions: Vec<String>,
}

/// Classify, print, write replays and evidence; returns the process exit code.
pub fn finish(ctx: &Ctx, mut out: Outcome) -> i32 {
    let known = load_known(&ctx.prop);
    let mut known_seen: BTreeMap<String, (u64, String)> = BTreeMap::new();
    let mut uncovered: Vec<&Violation> = vec![];
    let mut masked_multi = 0u64;
    for v in &out.violations {
        match covering(&known, v) {
            Some(k) => {
                let e = known_seen.entry(k.id.clone()).or_insert((0, k.what.clone()));
                e.0 += 1;
                if v.tags.len() > 1 {
                    masked_multi += 1;
                }
            }
            None => uncovered.push(v),
        }
    }
    for (id, (n, what)) in &known_seen {
        println!("KNOWN-FINDING: property={} {} {} ({} cases this run)", ctx.prop, id, what, n);
    }
    // replays: one per distinct (clause, symptom, tags) class, at most 25 files
    let mut seen_class: HashSet<(String, String, Vec<String>)> = HashSet::new();
    let mut replay_paths = vec![];
    let dir = format!("{}/replays/{}", out_root(), ctx.prop);
    // order: first one case of every (clause, symptom) class, then the remaining tag variants
    let mut first_of_class: HashSet<(String, String)> = HashSet::new();
    let mut ordered: Vec<&Violation> = vec![];
    let mut rest: Vec<&Violation> = vec![];
    for v in &uncovered {
        if first_of_class.insert((v.clause.clone(), v.symptom.clone())) {
            ordered.push(v);
        } else {
            rest.push(v);
        }
    }
    ordered.extend(rest);
    for v in &ordered {
        let key = (v.clause.clone(), v.symptom.clone(), v.tags.clone());
        if seen_class.contains(&key) {
            continue;
        }
        seen_class.insert(key);
        if replay_paths.len() >= 40 {
            continue;
        }
        let _ = std::fs::create_dir_all(&dir);
        let body = json!({"property": ctx.prop, "tier": ctx.tier.name(), "violation": v.to_json()});
        let txt = serde_json::to_string_pretty(&body).unwrap();
        let path = format!("{}/{:016x}.json", dir, fnv(txt.as_bytes()));
        let _ = std::fs::write(&path, txt);
        println!("VIOLATION property={} replay={}", ctx.prop, path);
        println!("  clause={} symptom={} tags={:?}", v.clause, v.symptom, v.tags);
        println!("  {}", v.detail.chars().take(600).collect::<String>());
        replay_paths.push(path);
    }
    let n_uncovered = uncovered.len();
    let wall = ctx.start.elapsed().as_secs_f64();
    out.coverage.insert("known_findings_seen".into(), json!(known_seen.iter().map(|(k, v)| json!({"id": k, "cases": v.0})).collect::<Vec<_>>()));
    out.coverage.insert("masked_by_known_multi_tag_cases".into(), json!(masked_multi));
    out.coverage.insert(
        "violation_classes".into(),
        json!(out.violation_counts.iter().map(|((c, s), n)| json!({"clause": c, "symptom": s, "cases": n})).collect::<Vec<_>>()),
    );
    out.coverage.insert("replays".into(), json!(replay_paths));
    let ev = json!({
        "property_id": ctx.prop,
        "tier": ctx.tier.name(),
        "seed": ctx.seed,
        "level": out.level,
        "coverage": Value::Object(out.coverage),
        "assumptions": out.assumptions,
        "wall_s": (wall * 1000.0).round() / 1000.0,
        "violations": n_uncovered,
        "violations_covered_by_known_findings": out.violations.len() - n_uncovered,
    });
    let _ = std::fs::create_dir_all(format!("{}/evidence", out_root()));
    let path = format!("{}/evidence/{}.json", out_root(), ctx.prop);
    if let Err(e) = std::fs::write(&path, serde_json::to_string_pretty(&ev).unwrap()) {
        eprintln!("MACHINERY: cannot write evidence {}: {}", path, e);
        return 2;
    }
    println!(
        "{} {}: wall={:.1}s violations={} (covered by known findings: {})",
        ctx.prop,
        ctx.tier.name(),
        wall,
        n_uncovered,
        out.violations.len() - n_uncovered
    );
    if n_uncovered > 0 {
        1
    } else {
        0
    }
}

/// Silence the default panic message (cases are wrapped in catch_unwind; panics are verdicts, not noise).
pub fn quiet_panics() {
    std::panic::set_hook(Box::new(|_| {}));
}

pub fn panic_msg(e: &Box<dyn std::any::Any + Send>) -> String {
    if let Some(s) = e.downcast_ref::<&str>() {
        s.to_string()
    } else if let Some(s) = e.downcast_ref::<String>() {
        s.clone()
    } else {
        "panic".to_string()
    }
}

/// Strip digits/quotes from a panic message so it can serve as a symptom class.
pub fn panic_class(msg: &str) -> String {
    let mut s: String = msg.chars().take(60).map(|c| if c.is_ascii_digit() { '#' } else { c }).collect();
    while s.contains("##") {
        s = s.replace("##", "#");
    }
    s
}

pub fn work_dir(prop: &str) -> String {
    let d = format!("{}/.work/{}", out_root(), prop);
    let _ = std::fs::create_dir_all(&d);
    d
}
