//! C08, space "names": references carried by defined names (global / sheet-scoped) and by a chart series.
use super::*;
use umya_spreadsheet::drawing::spreadsheet::MarkerType;
use umya_spreadsheet::{Chart, ChartType, DefinedName};

pub const CARRIERS: [&str; 4] = ["global-name", "sheet-name@Sheet1", "sheet-name@My Sheet", "chart@Sheet1"];

/// cell and range shapes (the only ones a defined name / chart address object can hold) x explicit qualifier of each sheet
pub fn name_refs() -> Vec<Ref> {
    let shapes = ref_shapes(CO);
    let mut v = vec![];
    for q in [Qual::Plain("Sheet1"), Qual::Quoted("My Sheet"), Qual::Quoted("It's")] {
        for k in shapes.iter().take(7) {
            v.push(Ref { q: q.clone(), k: *k });
        }
    }
    v
}

pub struct Names {
    refs: Vec<Ref>,
    plan: Vec<(Vec<Edit>, usize)>,
}
impl Names {
    pub fn new(deep: bool) -> Names {
        let plan = if deep { vec![(edits_full(), 2)] } else { vec![(edits_full(), 1), (edits_medium(), 2)] };
        Names { refs: name_refs(), plan }
    }
    fn item(&self, i: u64) -> (Ref, usize) {
        (self.refs[(i / CARRIERS.len() as u64) as usize].clone(), (i % CARRIERS.len() as u64) as usize)
    }
}

fn carrier_tag(carrier: usize, r: &Ref) -> &'static str {
    match carrier {
        0 => "scope-global",
        1 => {
            if r.q.sheet() == Some("Sheet1") {
                "scope-sheet-own-ref"
            } else {
                "scope-sheet-foreign-ref"
            }
        }
        2 => {
            if r.q.sheet() == Some("My Sheet") {
                "scope-sheet-own-ref"
            } else {
                "scope-sheet-foreign-ref"
            }
        }
        _ => "chart-series",
    }
}

fn build(carrier: usize, text: &str) -> Spreadsheet {
    let mut book = empty_book();
    match carrier {
        0 => {
            let mut d = DefinedName::default();
            d.set_address(text);
            book.add_defined_names(d);
        }
        1 | 2 => {
            let s = if carrier == 1 { "Sheet1" } else { "My Sheet" };
            let _ = book.get_sheet_by_name_mut(s).unwrap().add_defined_name("N1".to_string(), text.to_string());
        }
        _ => {
            let mut from = MarkerType::default();
            from.set_coordinate("AA200");
            let mut to = MarkerType::default();
            to.set_coordinate("AF210");
            let mut chart = Chart::default();
            chart.new_chart(ChartType::LineChart, from, to, vec![text]);
            book.get_sheet_by_name_mut("Sheet1").unwrap().add_chart(chart);
        }
    }
    book
}

/// None = the carrier (name) no longer exists
fn read(book: &mut Spreadsheet, carrier: usize) -> Option<String> {
    match carrier {
        0 => book.get_defined_names().first().map(|d| d.get_address()),
        1 | 2 => {
            let s = if carrier == 1 { "Sheet1" } else { "My Sheet" };
            book.get_sheet_by_name(s).unwrap().get_defined_names().first().map(|d| d.get_address())
        }
        _ => {
            let sheet = book.get_sheet_by_name_mut("Sheet1").unwrap();
            let chart = sheet.get_chart_collection_mut().first_mut()?;
            let fs = chart.get_plot_area_mut().get_formula_mut();
            fs.into_iter().map(|f| f.get_address_str()).find(|s| !s.is_empty())
        }
    }
}

/// own parse of `Sheet!ref` / `'Quoted'!ref`: (sheet name, reference)
fn parse_address(s: &str) -> Option<(String, RK)> {
    let t = lex(s);
    match t.len() {
        1 if t[0].k == K::Run => {
            let (sheet, k) = parse_ref_run(&t[0].text)?;
            Some((sheet?, k))
        }
        2 if t[0].k == K::QSheet && t[1].k == K::Run && t[1].text.starts_with('!') => {
            let (_, k) = parse_ref_run(&t[1].text)?;
            let inner = &t[0].text[1..t[0].text.len() - 1];
            Some((inner.replace("''", "'"), k))
        }
        _ => None,
    }
}

struct Ex<'a> {
    r0: &'a Ref,
    carrier: usize,
    sink: &'a mut Sink,
    failed: BTreeMap<&'static str, (u64, u64)>,
}
impl<'a> Ex<'a> {
    fn clause(&self, e: &Edit) -> &'static str {
        match (self.carrier == 3, e.insert) {
            (false, true) => "name-insert",
            (false, false) => "name-remove",
            (true, true) => "chart-insert",
            (true, false) => "chart-remove",
        }
    }
    fn explore(&mut self, book: &Spreadsheet, model: &Leaf, alphabet: &[Edit], depth_left: usize, hist: &mut Vec<Edit>) {
        let before = render(&F::L(model.clone()));
        let ctag = carrier_tag(self.carrier, self.r0);
        for e in alphabet {
            hist.push(e.clone());
            if hist.len() == 1 {
                self.sink.beat.note(&format!("{} in {} after {}", before.text, CARRIERS[self.carrier], edit_json(e)));
            }
            self.sink.count("transitions", 1);
            self.sink.evaluations += 1;
            let clause = self.clause(e);
            let case = json!({"reference": render_leaf(&Leaf::Ref(self.r0.clone())), "carrier": CARRIERS[self.carrier], "history": hist.iter().map(edit_json).collect::<Vec<_>>()});
            let mut b2 = book.clone();
            let carrier = self.carrier;
            let r = guarded(move || {
                apply(&mut b2, e);
                let t = read(&mut b2, carrier);
                (b2, t)
            });
            // a defined name / chart reference is always qualified, the holder sheet does not matter
            let model2 = match model {
                Leaf::Ref(r) => shift_ref(r, "", e),
                other => other.clone(),
            };
            let dead = matches!(model2, Leaf::RefErr(..));
            let fail = |sink: &mut Sink, symptom: &str, mut tags: Vec<&'static str>, detail: String| {
                tags.push(ctag);
                sink.violations.push(Violation::new(clause, symptom, &tags, case.clone(), detail));
            };
            let mut ok_state: Option<Spreadsheet> = None;
            match r {
                Err(msg) => {
                    let mut tags = leaf_tags(model);
                    tags.dedup();
                    fail(self.sink, &format!("panic:{}", panic_class(&msg)), tags, format!("{:?} in {} after {}: panic {}", before.text, CARRIERS[self.carrier], edit_json(e), msg));
                }
                Ok((b2, None)) => {
                    if dead {
                        ok_state = Some(b2);
                    } else {
                        fail(self.sink, "carrier-vanished", vec![], format!("{:?} in {}: the name / series reference no longer exists after {}", before.text, CARRIERS[self.carrier], edit_json(e)));
                    }
                }
                Ok((b2, Some(got))) => {
                    self.sink.obs(&format!("{}\u{1}{}", self.carrier, got));
                    // normalise the quoting style of the sheet name (the statement does not pin it down)
                    let norm = match (parse_address(&got), &model2) {
                        (Some((sheet, k)), Leaf::Ref(m)) if Some(sheet.as_str()) == m.q.sheet() => render_leaf(&Leaf::Ref(Ref { q: m.q.clone(), k })),
                        (Some((sheet, k)), Leaf::RefErr(q, _)) if Some(sheet.as_str()) == q.sheet() => render_leaf(&Leaf::Ref(Ref { q: q.clone(), k })),
                        // a dead reference: `'Sheet1'!#REF!` and `Sheet1!#REF!` are the same text modulo optional quoting
                        (None, Leaf::RefErr(q, _)) if dead_ref_sheet(&got).as_deref() == q.sheet() && q.sheet().is_some() => render(&F::L(model2.clone())).text,
                        _ => got.clone(),
                    };
                    let exp = render(&F::L(model2.clone()));
                    match compare_axis(&exp, &before, &norm, "deleted-target-not-REF", Some(e.axis)) {
                        None => ok_state = Some(b2),
                        Some(d) => fail(self.sink, &d.symptom, d.tags, format!("{:?} in {}, {}: expected {:?}, got {:?}", before.text, CARRIERS[self.carrier], edit_json(e), exp.text, got)),
                    }
                }
            }
            match ok_state {
                Some(b2) => {
                    self.failed.entry(clause).or_insert((0, 0)).0 += 1;
                    if depth_left > 1 {
                        self.explore(&b2, &model2, alphabet, depth_left - 1, hist);
                    }
                }
                None => {
                    self.failed.entry(clause).or_insert((0, 0)).1 += 1;
                }
            }
            hist.pop();
        }
    }
}

impl Space for Names {
    fn len(&self) -> u64 {
        (self.refs.len() * CARRIERS.len()) as u64
    }
    fn describe(&self, i: u64) -> Value {
        let (r, c) = self.item(i);
        json!({"kind": "carried-reference", "reference": render_leaf(&Leaf::Ref(r)), "carrier": CARRIERS[c]})
    }
    fn tags(&self, i: u64) -> Vec<String> {
        let (r, c) = self.item(i);
        let mut t: Vec<String> = leaf_tags(&Leaf::Ref(r.clone())).iter().map(|s| s.to_string()).collect();
        t.push(carrier_tag(c, &r).to_string());
        t
    }
    fn run(&self, i: u64, sink: &mut Sink) {
        let (r, c) = self.item(i);
        let text = render_leaf(&Leaf::Ref(r.clone()));
        sink.beat.note(&format!("{} in {}", text, CARRIERS[c]));
        let ctag = carrier_tag(c, &r);
        let book = match guarded(|| {
            let mut b = build(c, &text);
            let t = read(&mut b, c);
            (b, t)
        }) {
            Ok((b, Some(t))) if parse_address(&t).map(|(s, k)| Some(s.as_str()) == r.q.sheet() && k == r.k).unwrap_or(false) => b,
            Ok((_, t)) => {
                // the carrier does not even hold the reference before any edit: report once, nothing to explore
                let cl = if c == 3 { "chart-insert" } else { "name-insert" };
                let mut tags = leaf_tags(&Leaf::Ref(r.clone()));
                tags.push(ctag);
                sink.violations.push(Violation::new(cl, "carrier-does-not-hold-reference", &tags, json!({"reference": text, "carrier": CARRIERS[c], "history": []}), format!("{} given {:?} holds {:?}", CARRIERS[c], text, t)));
                return;
            }
            Err(m) => {
                let cl = if c == 3 { "chart-insert" } else { "name-insert" };
                let mut tags = leaf_tags(&Leaf::Ref(r.clone()));
                tags.push(ctag);
                sink.violations.push(Violation::new(cl, &format!("panic:{}", panic_class(&m)), &tags, json!({"reference": text, "carrier": CARRIERS[c], "history": []}), format!("building {} with {:?} panicked: {}", CARRIERS[c], text, m)));
                return;
            }
        };
        let mut ex = Ex { r0: &r, carrier: c, sink, failed: BTreeMap::new() };
        for (alphabet, depth) in &self.plan {
            let mut hist = vec![];
            ex.explore(&book, &Leaf::Ref(r.clone()), alphabet, *depth, &mut hist);
        }
        let failed = ex.failed.clone();
        let cls: [&'static str; 2] = if c == 3 { ["chart-insert", "chart-remove"] } else { ["name-insert", "name-remove"] };
        let mut tags = leaf_tags(&Leaf::Ref(r.clone()));
        tags.push(ctag);
        for cl in cls {
            let (good, bad) = failed.get(cl).cloned().unwrap_or((0, 0));
            for t in &tags {
                sink.count(&format!("clean|{}|{}", cl, t), good);
                sink.count(&format!("failing|{}|{}", cl, t), bad);
            }
        }
        sink.count("carried-references", 1);
    }
}

/// `Sheet1!#REF!` / `'My Sheet'!#REF!` / `'It''s'!#REF!` -> the sheet name the qualifier stands for.
fn dead_ref_sheet(text: &str) -> Option<String> {
    let q = text.strip_suffix("!#REF!")?;
    if q.len() >= 2 && q.starts_with('\'') && q.ends_with('\'') {
        Some(q[1..q.len() - 1].replace("''", "'"))
    } else if q.contains('\'') || q.contains('!') {
        None
    } else {
        Some(q.to_string())
    }
}
