//! C04 — re-saving is stable: generations are a fixed point, untouched content survives, edits are local,
//! saving twice gives the same parts.  Histories over {S = save+reload, E(c,k) = single-cell edit}.
use crate::c02::{build_channel, build_lattice, channel_accepts, corpus_files, CHANNELS, FEATURES, SPECIALS};
use crate::common::*;
use crate::dump::*;
use crate::e1::*;
use crate::pool::*;
use serde_json::{json, Map, Value};
use umya_spreadsheet::*;

pub fn entry() -> crate::Entry {
    crate::Entry { id: "C04", run, space, replay }
}

pub const EDIT_KINDS: [&str; 6] = ["set-text", "set-number", "set-blank", "remove", "set-style", "set-hyperlink"];

/// Full dump with the normalisations the writer is documented to perform removed on BOTH sides
/// (each one is listed in the evidence):
///  * blank cells without formatting and without hyperlink are dropped,
///  * row entries that carry nothing (default height, not hidden, no style) are dropped,
///  * column entries that carry only the default width are dropped.
pub fn full_norm(b: &Spreadsheet, defaults: &Map<String, Value>) -> Value {
    let mut v = book_p(b, Opts::FULL);
    crate::c06::canon_names(&mut v);
    // effective formatting: a component that was never set equals the workbook's default component
    fn eff(st: &mut Value, defaults: &Map<String, Value>) {
        if let Some(m) = st.as_object_mut() {
            for (k, d) in defaults {
                if m.get(k).map(|x| x.is_null()).unwrap_or(false) {
                    m.insert(k.clone(), d.clone());
                }
            }
        }
    }
    if let Some(sheets) = v["sheets"].as_array_mut() {
        for s in sheets {
            for coll in ["cells", "rows", "cols"] {
                if let Some(m) = s[coll].as_object_mut() {
                    for (_, c) in m.iter_mut() {
                        if c.get("style").is_some() {
                            eff(&mut c["style"], defaults);
                        }
                    }
                }
            }
        }
    }
    let mut default_style = style_p(&Style::default());
    eff(&mut default_style, defaults);
    let dcol = Column::default();
    let drow = Row::default();
    let dcol_p = json!({"width": f64v(*dcol.get_width()), "hidden": dcol.get_hidden(), "best_fit": dcol.get_best_fit(), "style": default_style});
    let drow_p = json!({"height": f64v(*drow.get_height()), "custom_height": drow.get_custom_height(), "hidden": drow.get_hidden(), "style": default_style});
    if let Some(sheets) = v["sheets"].as_array_mut() {
        for s in sheets {
            if let Some(cells) = s["cells"].as_object_mut() {
                let drop: Vec<String> = cells
                    .iter()
                    .filter(|(_, c)| c["kind"] == json!("") && c["formula"] == json!("") && c["style"] == default_style && c.get("link").is_none())
                    .map(|(k, _)| k.clone())
                    .collect();
                for k in drop {
                    cells.remove(&k);
                }
            }
            if let Some(rows) = s["rows"].as_object_mut() {
                let drop: Vec<String> = rows.iter().filter(|(_, r)| **r == drow_p).map(|(k, _)| k.clone()).collect();
                for k in drop {
                    rows.remove(&k);
                }
            }
            if let Some(cols) = s["cols"].as_object_mut() {
                let drop: Vec<String> = cols.iter().filter(|(_, c)| **c == dcol_p).map(|(k, _)| k.clone()).collect();
                for k in drop {
                    cols.remove(&k);
                }
            }
        }
    }
    v
}

/// What "component never set" looks like after a reload of THIS workbook: two control cells on an extra
/// sheet of a copy (differential calibration, as in C05).
pub fn calibrate_defaults(b: &Spreadsheet, light: bool) -> Map<String, Value> {
    let mut d = Map::new();
    let mut c = b.clone();
    if c.new_sheet("__calibration__").is_err() {
        return d;
    }
    let idx = c.get_sheet_count() - 1;
    {
        let ws = c.get_sheet_mut(&idx).unwrap();
        let mut s1 = Style::default();
        s1.get_numbering_format_mut().set_format_code("0.0000000");
        ws.get_cell_mut("A1").set_value_number(1).set_style(s1);
        let mut s2 = Style::default();
        s2.get_alignment_mut().set_wrap_text(true);
        ws.get_cell_mut("A2").set_value_number(2).set_style(s2);
    }
    if let Ok((_, c2)) = roundtrip(&c, light) {
        if let Some(ws) = c2.get_sheet(&idx) {
            let p1 = style_p(ws.get_style("A1"));
            let p2 = style_p(ws.get_style("A2"));
            for k in ["font", "fill", "borders", "alignment", "protection"] {
                if !p1[k].is_null() {
                    d.insert(k.to_string(), p1[k].clone());
                }
            }
            if !p2["numfmt"].is_null() {
                d.insert("numfmt".into(), p2["numfmt"].clone());
            }
        }
    }
    d
}

/// Streaming variant of `full_norm` for very large workbooks: one entry per cell / row / column / sheet-level
/// field, each holding hashes of its sub-fields instead of a JSON tree (a 300 000-cell sheet needs ~50 MB
/// instead of several GB).  Same normalisations as `full_norm`.
pub type Flat = std::collections::BTreeMap<String, Vec<(String, u64)>>;

pub fn flat_norm(b: &Spreadsheet, defaults: &Map<String, Value>) -> Flat {
    fn eff(st: &mut Value, defaults: &Map<String, Value>) {
        if let Some(m) = st.as_object_mut() {
            for (k, d) in defaults {
                if m.get(k).map(|x| x.is_null()).unwrap_or(false) {
                    m.insert(k.clone(), d.clone());
                }
            }
        }
    }
    fn fields(v: &Value) -> Vec<(String, u64)> {
        match v.as_object() {
            Some(m) => m.iter().map(|(k, x)| (k.clone(), fnv(x.to_string().as_bytes()))).collect(),
            None => vec![("value".into(), fnv(v.to_string().as_bytes()))],
        }
    }
    let mut out = Flat::new();
    let mut meta = book_p_sel(b, Opts::FULL, false);
    crate::c06::canon_names(&mut meta);
    if let Some(m) = meta.as_object() {
        for (k, v) in m {
            if k != "sheets" {
                out.insert(format!("/{}", k), fields(v));
            }
        }
    }
    let mut default_style = style_p(&Style::default());
    eff(&mut default_style, defaults);
    let dcol = Column::default();
    let drow = Row::default();
    let dcol_p = json!({"width": f64v(*dcol.get_width()), "hidden": dcol.get_hidden(), "best_fit": dcol.get_best_fit(), "style": default_style});
    let drow_p = json!({"height": f64v(*drow.get_height()), "custom_height": drow.get_custom_height(), "hidden": drow.get_hidden(), "style": default_style});
    for (si, ws) in b.get_sheet_collection_no_check().iter().enumerate() {
        if let Some(m) = meta["sheets"][si].as_object() {
            for (k, v) in m {
                out.insert(format!("/sheets[{}]/{}", si, k), fields(v));
            }
        }
        for ((row, col), c) in ws.get_collection_to_hashmap() {
            let mut p = cell_p(c, Opts::FULL);
            eff(&mut p["style"], defaults);
            if p["kind"] == json!("") && p["formula"] == json!("") && p["style"] == default_style && p.get("link").is_none() {
                continue;
            }
            out.insert(format!("/sheets[{}]/cells/{}", si, ckey(*col, *row)), fields(&p));
        }
        for r in ws.get_row_dimensions() {
            let mut st = style_p(r.get_style());
            eff(&mut st, defaults);
            let p = json!({"height": f64v(*r.get_height()), "custom_height": r.get_custom_height(), "hidden": r.get_hidden(), "style": st});
            if p != drow_p {
                out.insert(format!("/sheets[{}]/rows/{:07}", si, r.get_row_num()), fields(&p));
            }
        }
        for c in ws.get_column_dimensions() {
            let mut st = style_p(c.get_style());
            eff(&mut st, defaults);
            let p = json!({"width": f64v(*c.get_width()), "hidden": c.get_hidden(), "best_fit": c.get_best_fit(), "style": st});
            if p != dcol_p {
                out.insert(format!("/sheets[{}]/cols/{:05}", si, c.get_col_num()), fields(&p));
            }
        }
    }
    out
}

/// Report the difference classes between two flat dumps (same symptom vocabulary as `report_diffs`).
fn report_flat_diffs(a: &Flat, b: &Flat, clause: &str, tags: &[String], case: &Value, sink: &mut Sink) -> usize {
    let tg: Vec<&str> = tags.iter().map(|s| s.as_str()).collect();
    let mut seen = std::collections::BTreeSet::new();
    let mut n = 0;
    let mut push = |path: String, l: &str, r: &str, sink: &mut Sink| {
        let sym = classify(&path, l, r);
        if seen.insert(sym.clone()) {
            sink.violations.push(Violation::new(clause, &sym, &tg, case.clone(), format!("{}: {} vs {} (large workbook: compared by field hashes)", path, l, r)));
        }
    };
    for (k, fa) in a {
        match b.get(k) {
            None => {
                n += 1;
                push(k.clone(), "present", "<absent>", sink);
            }
            Some(fb) => {
                if fa != fb {
                    n += 1;
                    let field = fa.iter().find(|x| !fb.contains(x)).map(|x| x.0.clone()).or_else(|| fb.iter().find(|x| !fa.contains(x)).map(|x| x.0.clone())).unwrap_or_default();
                    push(format!("{}/{}", k, field), "hash-a", "hash-b", sink);
                }
            }
        }
    }
    for k in b.keys() {
        if !a.contains_key(k) {
            n += 1;
            push(k.clone(), "<absent>", "present", sink);
        }
    }
    n
}

fn cell_count(b: &Spreadsheet) -> usize {
    b.get_sheet_collection_no_check().iter().map(|ws| ws.get_collection_to_hashmap().len()).sum()
}

fn classify(path: &str, l: &str, r: &str) -> String {
    let parts: Vec<&str> = path.split('/').filter(|s| !s.is_empty()).collect();
    let field = if parts.first().map(|p| p.starts_with("sheets")).unwrap_or(false) { parts.get(1).cloned().unwrap_or("sheet") } else { parts.first().cloned().unwrap_or("") };
    let field: String = field.chars().take_while(|c| *c != '[').collect();
    let leaf: String = parts.last().cloned().unwrap_or("").chars().filter(|c| !c.is_ascii_digit() && *c != '[' && *c != ']' && *c != '#').collect();
    let how = if l == "<absent>" {
        "appeared"
    } else if r == "<absent>" {
        "lost"
    } else {
        "changed"
    };
    let sub = if field == "cells" && parts.len() > 3 { format!(".{}", parts[3].chars().take_while(|c| *c != '[').collect::<String>()) } else { String::new() };
    let leaf = if leaf.starts_with('R') && leaf.contains('C') && leaf.len() < 4 { "cell".to_string() } else { leaf };
    format!("{}{}-{}:{}", field, sub, how, leaf)
}

/// Report every difference class between two dumps (at most one violation per symptom).
fn report_diffs(a: &Value, b: &Value, clause: &str, tags: &[String], case: &Value, sink: &mut Sink, limit: usize) -> usize {
    let tg: Vec<&str> = tags.iter().map(|s| s.as_str()).collect();
    let mut cur = a.clone();
    let mut seen = std::collections::BTreeSet::new();
    let mut n = 0;
    while let Some((path, l, r)) = first_diff(&cur, b) {
        let sym = classify(&path, &l, &r);
        n += 1;
        if seen.insert(sym.clone()) {
            sink.violations.push(Violation::new(clause, &sym, &tg, case.clone(), format!("{}: {} vs {}", path, l, r)));
        }
        if !crate::c01::patch_pub(&mut cur, b, &path) || n >= limit {
            break;
        }
    }
    n
}

fn rt(b: &Spreadsheet, light: bool) -> Result<(Vec<u8>, Spreadsheet), String> {
    roundtrip(b, light)
}

/// Part list and normalised part contents of a package (docProps excluded: they carry timestamps;
/// count attributes of the shared string table excluded: a registration counter, not content).
fn parts_of(bytes: &[u8]) -> Vec<(String, u64)> {
    let mut out = vec![];
    if let Ok(mut z) = zip::ZipArchive::new(std::io::Cursor::new(bytes)) {
        for i in 0..z.len() {
            if let Ok(mut f) = z.by_index(i) {
                use std::io::Read;
                let name = f.name().to_string();
                if name.starts_with("docProps/") {
                    out.push((name, 0));
                    continue;
                }
                let mut data = vec![];
                let _ = f.read_to_end(&mut data);
                if name.ends_with("sharedStrings.xml") {
                    let t = String::from_utf8_lossy(&data).to_string();
                    let t = strip_attr(&strip_attr(&t, "count"), "uniqueCount");
                    out.push((name, fnv(t.as_bytes())));
                } else {
                    out.push((name, fnv(&data)));
                }
            }
        }
    }
    out.sort();
    out
}
fn strip_attr(s: &str, name: &str) -> String {
    let pat = format!(" {}=\"", name);
    let mut out = String::new();
    let mut rest = s;
    while let Some(p) = rest.find(&pat) {
        out.push_str(&rest[..p]);
        let after = &rest[p + pat.len()..];
        match after.find('"') {
            Some(q) => rest = &after[q + 1..],
            None => {
                rest = "";
            }
        }
        if out.len() > 4096 {
            break; // only the root element's attributes matter
        }
    }
    out.push_str(rest);
    out
}

struct Source {
    kind: &'static str,
    name: String,
    tags: Vec<String>,
    light: bool,
}

enum Origin {
    /// built through the API, saved and re-loaded: the initial state is a LOADED workbook with a particular shape
    Special(&'static str),
    Corpus(String),
    Lattice(u32),
    Channel(usize, usize),
}

pub const SPECIALS_C04: [&str; 3] = ["shared-formula-group", "apostrophe-sheet-in-cf-reference", "column-entries-with-gap"];

fn build_special(name: &str) -> Spreadsheet {
    let mut b = new_file();
    let ws = b.get_sheet_mut(&0).unwrap();
    match name {
        "shared-formula-group" => {
            // master D2 = A2*2 shared with D3..D5 (children carry only the view text, as after a load)
            for k in 0..4u32 {
                ws.get_cell_mut((1u32, 2 + k)).set_value_number(k as f64 + 1.0);
                let mut obj = CellFormula::default();
                obj.set_formula_type(CellFormulaValues::Shared);
                obj.set_shared_index(0);
                if k == 0 {
                    obj.set_text("A2*2");
                } else {
                    obj.set_text_view(format!("A{}*2", 2 + k));
                }
                let c = ws.get_cell_mut((4u32, 2 + k));
                c.get_cell_value_mut().set_formula_obj(obj);
                c.set_formula_result_default(format!("{}", (k + 1) * 2));
            }
        }
        "apostrophe-sheet-in-cf-reference" => {
            // conditional-format rules whose formula is a BARE reference to a sheet whose name needs quoting and doubling
            ws.get_cell_mut("A1").set_value_number(1);
            crate::wbuild::add_cond_formats(ws, 2, "'Bob''s data'!$A$1");
            let other = b.new_sheet("Bob's data").unwrap();
            other.get_cell_mut("A1").set_value_number(5);
            return b;
        }
        _ => {
            // column entries on C..G and I only (adjacent equal pairs, then a change; H is a second gap), cells also in A and B which have no entry of their own
            for (col, w) in [(3u32, 20.0), (4u32, 20.0), (5u32, 12.0), (6u32, 12.0), (7u32, 30.0), (9u32, 30.0)] {
                ws.get_column_dimension_by_number_mut(&col).set_width(w);
            }
            ws.get_cell_mut("C1").set_value_string("c");
            ws.get_cell_mut("F2").set_value_number(6);
        }
    }
    b
}

fn load_origin(o: &Origin) -> Result<Spreadsheet, String> {
    match o {
        Origin::Special(name) => {
            let n = *name;
            let b = std::panic::catch_unwind(move || build_special(n)).map_err(|e| panic_msg(&e))?;
            let (_, b2) = roundtrip(&b, false)?;
            Ok(b2)
        }
        Origin::Corpus(p) => {
            let data = std::fs::read(p).map_err(|e| e.to_string())?;
            load_bytes(&data, true)
        }
        Origin::Lattice(bits) => std::panic::catch_unwind(|| build_lattice(*bits, false)).map_err(|e| panic_msg(&e)),
        Origin::Channel(c, s) => std::panic::catch_unwind(|| build_channel(CHANNELS[*c], SPECIALS[*s].1)).map_err(|e| panic_msg(&e)),
    }
}

struct Stability {
    items: Vec<(Origin, Source)>,
    edit_cap: usize,
    edit_budget_ms: u64,
}

fn shared_formula_tag(b: &Spreadsheet, tags: &mut Vec<String>) {
    for ws in b.get_sheet_collection_no_check() {
        if ws.get_cell_collection().iter().any(|c| c.get_formula_shared_index().is_some()) {
            tags.push("has-shared-formula".into());
            return;
        }
    }
}

fn content_tags(model: &Value, tags: &mut Vec<String>) {
    let s = model.to_string();
    if s.contains("\\\\r") {
        tags.push("text-has-cr".into());
    }
}

impl Space for Stability {
    fn len(&self) -> u64 {
        self.items.len() as u64
    }
    fn describe(&self, i: u64) -> Value {
        let s = &self.items[i as usize].1;
        json!({"kind": s.kind, "source": s.name, "light": s.light, "histories": ["S","SS","SSS","E(c,k) S for every cell c (capped) and k in set-text/set-number/set-blank/remove", "save twice"]})
    }
    fn tags(&self, i: u64) -> Vec<String> {
        self.items[i as usize].1.tags.clone()
    }
    fn run(&self, i: u64, sink: &mut Sink) {
        let (origin, src) = &self.items[i as usize];
        let t_case = std::time::Instant::now();
        let case = self.describe(i);
        let mut tags = src.tags.clone();
        let tg0: Vec<&str> = src.tags.iter().map(|s| s.as_str()).collect();
        let m0 = match load_origin(origin) {
            Ok(b) => b,
            Err(_) => {
                sink.count("unreadable_sources", 1);
                return;
            }
        };
        if cell_count(&m0) > 40_000 {
            // large workbook: generations + save-twice on streaming (field-hash) dumps; no edit enumeration
            sink.count("large_sources_streaming_mode", 1);
            let defaults = calibrate_defaults(&m0, src.light);
            let f0 = flat_norm(&m0, &defaults);
            let mut prev = f0;
            let mut cur = m0;
            let names = ["orig-equals-gen1", "gen1-equals-gen2", "gen2-equals-gen3"];
            for g in 0..3 {
                sink.beat.note(&format!("{} generation {} (streaming)", src.name, g + 1));
                match rt(&cur, src.light) {
                    Ok((_, b2)) => {
                        let f = flat_norm(&b2, &defaults);
                        sink.hashes.push(fnv(format!("{:?}", f.iter().take(2000).collect::<Vec<_>>()).as_bytes()));
                        report_flat_diffs(&prev, &f, names[g], &tags, &case, sink);
                        prev = f;
                        cur = b2;
                        sink.count("transitions", 1);
                    }
                    Err(e) => {
                        sink.violations.push(Violation::new("generation-succeeds", &format!("gen{}-failed:{}", g + 1, panic_class(&e)), &tg0, case.clone(), e));
                        return;
                    }
                }
            }
            sink.evaluations += 1;
            return;
        }
        let defaults = calibrate_defaults(&m0, src.light);
        let d0 = full_norm(&m0, &defaults);
        content_tags(&d0, &mut tags);
        shared_formula_tag(&m0, &mut tags);
        // generations
        let mut dumps = vec![];
        let t_gen = std::time::Instant::now();
        let mut cur = m0.clone();
        let mut bytes_gen = vec![];
        for g in 1..=3 {
            sink.beat.note(&format!("{} generation {}", src.name, g));
            match rt(&cur, src.light) {
                Ok((bytes, b2)) => {
                    let d = full_norm(&b2, &defaults);
                    sink.hashes.push(fnv(d.to_string().as_bytes()));
                    dumps.push(d);
                    bytes_gen.push(bytes);
                    cur = b2;
                    sink.count("transitions", 1);
                }
                Err(e) => {
                    sink.violations.push(Violation::new("generation-succeeds", &format!("gen{}-failed:{}", g, panic_class(&e)), &tg0, case.clone(), e));
                    return;
                }
            }
        }
        sink.evaluations += 1;
        report_diffs(&d0, &dumps[0], "orig-equals-gen1", &tags, &case, sink, 60);
        report_diffs(&dumps[0], &dumps[1], "gen1-equals-gen2", &tags, &case, sink, 60);
        report_diffs(&dumps[1], &dumps[2], "gen2-equals-gen3", &tags, &case, sink, 60);
        let heavy = self.edit_budget_ms < 10_000 && t_gen.elapsed().as_millis() as u64 / 3 > 700;
        if heavy {
            // quick tier: a source whose single generation costs > 0.7 s only gets the generation checks
            sink.count("heavy_sources_generations_only", 1);
            return;
        }
        // saving the same unchanged workbook twice: same part list, same (decoded) content
        if let (Ok(a), Ok(b)) = (save_bytes(&cur, src.light), save_bytes(&cur, src.light)) {
            sink.count("transitions", 2);
            let na: Vec<String> = parts_of(&a).into_iter().map(|x| x.0).collect();
            let nb: Vec<String> = parts_of(&b).into_iter().map(|x| x.0).collect();
            let tg: Vec<&str> = tags.iter().map(|s| s.as_str()).collect();
            if na != nb {
                sink.violations.push(Violation::new("save-twice-same", "part-list-differs", &tg, case.clone(), format!("first {:?}\nsecond {:?}", na, nb)));
            }
            match (load_bytes(&a, true), load_bytes(&b, true)) {
                (Ok(x), Ok(y)) => {
                    report_diffs(&full_norm(&x, &defaults), &full_norm(&y, &defaults), "save-twice-same", &tags, &case, sink, 20);
                }
                _ => sink.violations.push(Violation::new("save-twice-same", "output-unreadable", &tg, case.clone(), "one of the two saves cannot be loaded".into())),
            }
        }
        // edit locality, from the loaded workbook m0: A = S(m0), B = S(E(m0))
        let base = &dumps[0];
        let nsheets = m0.get_sheet_count();
        let mut edits = 0usize;
        // cost guard: a file whose single save+reload+dump is slow (e.g. 16382 expanded column entries) gets
        // fewer edits; the cap is counted and reported, never silent
        let per_rt_ms = (t_gen.elapsed().as_millis() as u64 / 3).max(1);
        let max_edits = (self.edit_budget_ms / per_rt_ms).max(2) as usize;
        for si in 0..nsheets {
            let ws = match m0.get_sheet(&si) {
                Some(w) => w,
                None => continue,
            };
            let mut coords: Vec<(u32, u32)> = ws.get_cell_collection_sorted().iter().map(|c| (*c.get_coordinate().get_col_num(), *c.get_coordinate().get_row_num())).collect();
            let last = coords.last().cloned();
            coords.truncate(self.edit_cap);
            if let Some(l) = last {
                if !coords.contains(&l) {
                    coords.push(l);
                }
            }
            let (hc, hr) = ws.get_highest_column_and_row();
            if hc < 16000 && hr < 1_000_000 {
                coords.push((hc + 2, hr + 2)); // one fresh position
            }
            // a fresh position in the first column that has no column entry of its own but lies left of one
            let entries: std::collections::BTreeSet<u32> = ws.get_column_dimensions().iter().map(|c| *c.get_col_num()).collect();
            if let Some(maxc) = entries.iter().max() {
                if let Some(gap) = (1..*maxc).find(|c| !entries.contains(c)) {
                    coords.push((gap, hr.max(1) + 3));
                }
            }
            for (ci, (col, row)) in coords.iter().enumerate() {
                for (k, kind) in EDIT_KINDS.iter().enumerate() {
                    // all kinds for the first cells, then rotate kinds to keep the cost linear
                    if ci >= 4 && (ci + k) % EDIT_KINDS.len() != 0 {
                        continue;
                    }
                    if edits >= max_edits {
                        sink.count("edits_skipped_by_time_budget", 1);
                        continue;
                    }
                    let mut b = m0.clone();
                    {
                        let w = b.get_sheet_mut(&si).unwrap();
                        match *kind {
                            "set-text" => {
                                w.get_cell_mut((*col, *row)).set_value_string("EDITED & <new>");
                            }
                            "set-number" => {
                                w.get_cell_mut((*col, *row)).set_value_number(12345.678);
                            }
                            "set-blank" => {
                                w.get_cell_mut((*col, *row)).set_blank();
                            }
                            "set-style" => {
                                // a style no other cell has: new entries in the font / fill / cellXfs tables
                                let st = w.get_cell_mut((*col, *row)).get_style_mut();
                                st.get_font_mut().set_name("Edited Font").set_size(13.5).set_italic(true);
                                st.set_background_color("FF12AB34");
                                // ... and a number format code the workbook does not have yet
                                st.get_numbering_format_mut().set_format_code("0.00\" s\"");
                            }
                            "set-hyperlink" => {
                                let mut h = Hyperlink::default();
                                h.set_url("https://example.com/edited?a=1&b=2");
                                w.get_cell_mut((*col, *row)).set_hyperlink(h);
                            }
                            _ => {
                                w.remove_cell((*col, *row));
                            }
                        }
                    }
                    sink.beat.note(&format!("{} edit sheet {} cell ({},{}) {}", src.name, si, col, row, kind));
                    edits += 1;
                    sink.count("transitions", 2);
                    let ecase = json!({"source": case, "edit": {"sheet": si, "col": col, "row": row, "kind": kind}});
                    let mut etags = tags.clone();
                    etags.push(format!("edit:{}", kind));
                    match rt(&b, src.light) {
                        Err(e) => {
                            let tg: Vec<&str> = etags.iter().map(|s| s.as_str()).collect();
                            sink.violations.push(Violation::new("edit-save-succeeds", &format!("failed:{}", panic_class(&e)), &tg, ecase, e));
                        }
                        Ok((_, b2)) => {
                            let d = full_norm(&b2, &defaults);
                            // mask the edited cell, its row entry and its column entry on both sides
                            let mut x = base.clone();
                            let mut y = d;
                            for v in [&mut x, &mut y] {
                                if let Some(s) = v["sheets"].get_mut(si) {
                                    if let Some(c) = s["cells"].as_object_mut() {
                                        c.remove(&ckey(*col, *row));
                                    }
                                    if let Some(r) = s["rows"].as_object_mut() {
                                        r.remove(&format!("{:07}", row));
                                    }
                                    if let Some(c) = s["cols"].as_object_mut() {
                                        c.remove(&format!("{:05}", col));
                                    }
                                }
                            }
                            report_diffs(&x, &y, "edit-is-local", &etags, &ecase, sink, 20);
                        }
                    }
                }
            }
        }
        sink.count("edits", edits as u64);
        if src.kind == "corpus" {
            sink.count(&format!("ms[{}]", src.name), t_case.elapsed().as_millis() as u64);
        }
    }
}

fn lattice_subsets(tier: Tier) -> Vec<u32> {
    let n = FEATURES.len() as u32;
    let all = (1u32 << n) - 1;
    let mut v: Vec<u32> = (0..=all).collect();
    if tier == Tier::Quick {
        v.retain(|s| s.count_ones() <= 1 || *s == all);
    } else {
        v.retain(|s| s.count_ones() <= 2 || (all & !s).count_ones() <= 1);
    }
    v.sort_by_key(|s| (s.count_ones(), *s));
    v
}

pub fn space(tier: Tier, id: &str) -> Option<Box<dyn Space>> {
    let mut items = vec![];
    match id {
        "corpus" => {
            for f in corpus_files() {
                let size = std::fs::metadata(&f).map(|m| m.len()).unwrap_or(0);
                if tier == Tier::Quick && size > 60_000 {
                    continue;
                }
                let name = f.rsplit('/').next().unwrap_or("").to_string();
                for light in [false, true] {
                    if light && tier == Tier::Quick {
                        continue;
                    }
                    items.push((Origin::Corpus(f.clone()), Source { kind: "corpus", name: name.clone(), tags: vec![format!("corpus:{}", name)], light }));
                }
            }
            Some(Box::new(Stability { items, edit_cap: if tier == Tier::Quick { 2 } else { 64 }, edit_budget_ms: if tier == Tier::Quick { 1500 } else { 60_000 } }))
        }
        "generated" => {
            for s in lattice_subsets(tier) {
                let mut tags: Vec<String> = (0..FEATURES.len()).filter(|k| s & (1 << k) != 0).map(|k| FEATURES[k].to_string()).collect();
                if tags.is_empty() {
                    tags.push("base".into());
                }
                let singles = tags.clone();
                if singles.len() <= 3 {
                    for a in 0..singles.len() {
                        for b in a + 1..singles.len() {
                            tags.push(format!("{}+{}", singles[a], singles[b]));
                        }
                    }
                }
                items.push((Origin::Lattice(s), Source { kind: "lattice", name: format!("lattice:{:011b}", s), tags, light: s % 2 == 1 }));
            }
            for sp in SPECIALS_C04 {
                items.push((Origin::Special(sp), Source { kind: "special", name: format!("special:{}", sp), tags: vec![format!("special:{}", sp)], light: false }));
            }
            for (ci, ch) in CHANNELS.iter().enumerate() {
                for (si, (sn, _)) in SPECIALS.iter().enumerate() {
                    if channel_accepts(ch, sn) && !(*ch == "defined-name-formula" && *sn == "edge-blank") {
                        items.push((Origin::Channel(ci, si), Source { kind: "channel", name: format!("{}/{}", ch, sn), tags: vec![format!("ch:{}", ch), format!("sp:{}", sn), format!("ch:{}+sp:{}", ch, sn)], light: (ci + si) % 2 == 1 }));
                    }
                }
            }
            Some(Box::new(Stability { items, edit_cap: 64, edit_budget_ms: if tier == Tier::Quick { 3000 } else { 60_000 } }))
        }
        _ => None,
    }
}

fn replay(tier: Tier, case: &Value) -> Vec<Violation> {
    let c = if case["source"].is_object() { &case["source"] } else { case };
    replay_e1(space(tier, c["_space"].as_str().or(case["_space"].as_str()).unwrap_or("")), if c.get("_index").is_some() { c } else { case })
}

fn run(ctx: &Ctx) -> i32 {
    let ids = ["generated", "corpus"];
    let spaces = ids.iter().map(|id| (*id, space(ctx.tier, id).unwrap())).collect();
    run_e1(
        ctx,
        E1Spec {
            spaces,
            cfg: PoolCfg { chunk: 1, case_timeout: std::time::Duration::from_secs(180), ..Default::default() },
            level: "model_checking",
            rule: "histories over {S = save+reload, E(c,k) = single-cell edit} from every initial state (corpus file / generated lattice workbook / channel workbook): S, SS, SSS; E(c,k) S for every cell c (capped per sheet, cap stated) + the last cell + one fresh position and k in {set text, set number, set blank, remove}; save twice. Oracle: full normalised dump gen1==gen2==gen3, orig==gen1, dump(E S) differs from dump(S) only in cell c and its row/column entry, two saves of one workbook have the same parts and part contents. states = distinct generation dumps, transitions = save/reload steps executed (each on the real library)".into(),
            alphabets: json!({"edit_kinds": EDIT_KINDS, "loaded_specials": SPECIALS_C04, "corpus_files": corpus_files().len(), "lattice_subsets": lattice_subsets(ctx.tier).len(), "channels": CHANNELS.len(), "specials": SPECIALS.len()}),
            bounds: json!({"generations": 3, "edit_time_budget_per_source_ms": if ctx.tier == Tier::Quick {1500} else {60000}, "edit_cap_per_sheet": if ctx.tier == Tier::Quick {"2 (corpus), 64 (generated)"} else {"64"}, "corpus": if ctx.tier == Tier::Quick {"files <= 60 kB, standard writer"} else {"all files, both writers; workbooks with more than 40 000 cells (3 corpus files) are compared by streaming field-hash dumps: generations only, no edit enumeration"},
                "normalised_away_on_both_sides": ["a style component that was never set == the workbook default component (calibrated per workbook)", "defined names compared by scope, not by holder object", "blank cells without formatting/hyperlink", "row entries carrying nothing", "column entries carrying only the default width", "docProps parts and sharedStrings count attributes in the save-twice comparison"]}),
            exhaustive: true,
            caps_hit: vec![],
            assumptions: vec!["everything the library models = the full public-getter dump of harness/src/dump.rs".into()],
            min_distinct: 20,
        },
    )
}
