//! C10 — the cell store stays coherent under any history of operations.
//! E2: breadth-first exploration of operation histories on a REAL `Worksheet` (inside a real `Spreadsheet`),
//! the invariant (a brute-force scan of the key set of the cell map against every lookup / listing / index
//! based observation, the row table and the emitted sheet XML) is evaluated in every reached state.
use crate::common::*;
use crate::dump;
use crate::e1::*;
use crate::e2::*;
use crate::pool::*;
use serde_json::{json, Value};
use std::cell::RefCell;
use std::collections::{BTreeMap, BTreeSet, HashSet};
use std::fmt::Write as _;
use std::io::Read;
use std::panic::{catch_unwind, AssertUnwindSafe};
use umya_spreadsheet::*;

pub fn entry() -> crate::Entry {
    crate::Entry { id: "C10", run, space, replay }
}

/// (row, col) — the order of the cell map's key and of the row-major listing.
type RC = (u32, u32);

const FAR: (u32, u32) = (28, 11); // (col, row): two-letter column AB, two-digit row
const SCAN_ROWS: u32 = 26; // by-row queries cover 0..=max(SCAN_ROWS, highest seen + 1)
const SCAN_COLS: u32 = 42;

// ---------------------------------------------------------------------------------------------
// alphabet

#[derive(Clone, Debug)]
enum Op {
    SetValue { c: u32, r: u32, v: &'static str },
    SetCell { c: u32, r: u32, v: &'static str, st: u8 },
    /// set_cell with a cell whose own Coordinate object was given as text WITH $ markers ("$B$3"): the slot is B3 and
    /// the stored cell reports B3, without markers
    SetCellAbs { c: u32, r: u32 },
    Remove { c: u32, r: u32 },
    SetStyle { c: u32, r: u32, st: u8 },
    StyleRange { range: &'static str, st: u8 },
    InsRow { p: u32, n: u32 },
    InsCol { p: u32, n: u32 },
    RemRow { p: u32, n: u32 },
    RemCol { p: u32, n: u32 },
    Move { range: &'static str, dr: i32, dc: i32 },
    Copy { range: &'static str, dr: i32, dc: i32 },
    Cleanup,
    CopyRowStyle { src: u32, dst: u32, from: Option<u32>, to: Option<u32> },
    CopyColStyle { src: u32, dst: u32, from: Option<u32>, to: Option<u32> },
}

impl Op {
    fn kind(&self) -> &'static str {
        match self {
            Op::SetValue { .. } => "get_cell_mut.set_value",
            Op::SetCell { .. } => "set_cell",
            Op::SetCellAbs { .. } => "set_cell(absolute-coordinate-text)",
            Op::Remove { .. } => "remove_cell",
            Op::SetStyle { .. } => "set_style",
            Op::StyleRange { range, .. } => {
                let b = range.as_bytes()[0];
                if b.is_ascii_digit() {
                    "set_style_by_range:rows"
                } else if range.bytes().any(|x| x.is_ascii_digit()) {
                    "set_style_by_range:cells"
                } else {
                    "set_style_by_range:cols"
                }
            }
            Op::InsRow { .. } => "insert_new_row",
            Op::InsCol { .. } => "insert_new_column_by_index",
            Op::RemRow { .. } => "remove_row",
            Op::RemCol { .. } => "remove_column_by_index",
            Op::Move { .. } => "move_range",
            Op::Copy { .. } => "copy_range",
            Op::Cleanup => "cleanup",
            Op::CopyRowStyle { .. } => "copy_row_styling",
            Op::CopyColStyle { .. } => "copy_col_styling",
        }
    }
    fn json(&self) -> Value {
        match self {
            Op::SetValue { c, r, v } => json!({"op":"get_cell_mut.set_value","at": a1(*c,*r), "value": v}),
            Op::SetCell { c, r, v, st } => json!({"op":"set_cell","at": a1(*c,*r), "value": v, "style": st}),
            Op::SetCellAbs { c, r } => json!({"op":"set_cell","cell_coordinate_given_as": format!("${}${}", umya_spreadsheet::helper::coordinate::string_from_column_index(c), r), "value": "abs"}),
            Op::Remove { c, r } => json!({"op":"remove_cell","at": a1(*c,*r)}),
            Op::SetStyle { c, r, st } => json!({"op":"set_style","at": a1(*c,*r), "style": st}),
            Op::StyleRange { range, st } => json!({"op":"set_style_by_range","range": range, "style": st}),
            Op::InsRow { p, n } => json!({"op":"insert_new_row","at": p, "n": n}),
            Op::InsCol { p, n } => json!({"op":"insert_new_column_by_index","at": p, "n": n}),
            Op::RemRow { p, n } => json!({"op":"remove_row","at": p, "n": n}),
            Op::RemCol { p, n } => json!({"op":"remove_column_by_index","at": p, "n": n}),
            Op::Move { range, dr, dc } => json!({"op":"move_range","range": range, "rows": dr, "cols": dc}),
            Op::Copy { range, dr, dc } => json!({"op":"copy_range","range": range, "rows": dr, "cols": dc}),
            Op::Cleanup => json!({"op":"cleanup"}),
            Op::CopyRowStyle { src, dst, from, to } => json!({"op":"copy_row_styling","src": src, "dst": dst, "start_col": from, "end_col": to}),
            Op::CopyColStyle { src, dst, from, to } => json!({"op":"copy_col_styling","src": src, "dst": dst, "start_row": from, "end_row": to}),
        }
    }
}

/// Style 0: nothing set ("default"); 1: solid red fill (visually non-empty); 2: bold font (visually empty, but a style).
fn style(i: u8) -> Style {
    let mut s = Style::default();
    match i {
        1 => {
            s.set_background_color_solid("FFFF0000");
        }
        2 => {
            s.get_font_mut().set_bold(true);
        }
        _ => {}
    }
    s
}

/// The full alphabet (47 operations), simplest first.
fn full_alphabet() -> Vec<Op> {
    let mut v = vec![
        // get_cell_mut(c).set_value(..): text, text, number, blank (creates a blank unstyled cell), far cell
        Op::SetValue { c: 1, r: 1, v: "a" },
        Op::SetValue { c: 2, r: 2, v: "b" },
        Op::SetValue { c: 3, r: 3, v: "7" },
        Op::SetValue { c: 1, r: 3, v: "" },
        Op::SetValue { c: FAR.0, r: FAR.1, v: "f" },
        // set_cell
        Op::SetCell { c: 2, r: 1, v: "s", st: 0 },
        Op::SetCell { c: 2, r: 2, v: "", st: 0 }, // overwrite / create with a default cell
        Op::SetCell { c: FAR.0 - 1, r: FAR.1 + 1, v: "g", st: 2 },
        Op::SetCellAbs { c: 2, r: 3 },
        // remove_cell
        Op::Remove { c: 1, r: 1 },
        Op::Remove { c: 2, r: 2 },
        Op::Remove { c: 3, r: 3 },
        Op::Remove { c: FAR.0, r: FAR.1 },
        // set_style
        Op::SetStyle { c: 1, r: 1, st: 1 },
        Op::SetStyle { c: 2, r: 3, st: 2 },
        // set_style_by_range: cell ranges, whole rows, whole columns
        Op::StyleRange { range: "A1:B2", st: 2 },
        Op::StyleRange { range: "B2:C3", st: 1 },
        Op::StyleRange { range: "1:2", st: 1 },
        Op::StyleRange { range: "2:2", st: 1 },
        Op::StyleRange { range: "A:B", st: 2 },
    ];
    for p in [1u32, 2] {
        for n in [1u32, 2] {
            v.push(Op::InsRow { p, n });
        }
    }
    for p in [1u32, 2] {
        for n in [1u32, 2] {
            v.push(Op::InsCol { p, n });
        }
    }
    for p in [1u32, 2] {
        for n in [1u32, 2] {
            v.push(Op::RemRow { p, n });
        }
    }
    for p in [1u32, 2] {
        for n in [1u32, 2] {
            v.push(Op::RemCol { p, n });
        }
    }
    v.extend([
        Op::Move { range: "A1:B2", dr: 1, dc: 1 }, // overlapping source/destination
        Op::Move { range: "B2:C3", dr: -1, dc: -1 },
        Op::Move { range: "A1:C1", dr: 2, dc: 0 },
        Op::Move { range: "B2", dr: FAR.1 as i32 - 2, dc: FAR.0 as i32 - 2 }, // onto the far cell
        Op::Copy { range: "A1:B2", dr: 1, dc: 1 },
        Op::Copy { range: "B2:C3", dr: -1, dc: -1 },
        Op::Copy { range: "A1:A3", dr: 0, dc: 2 },
        // degenerate but legal arguments: nothing moves
        Op::Move { range: "A1:B2", dr: 0, dc: 0 },
        Op::Copy { range: "A1:B2", dr: 0, dc: 0 },
        Op::InsRow { p: 2, n: 0 },
        Op::RemCol { p: 2, n: 0 },
        Op::Cleanup,
        Op::CopyRowStyle { src: 1, dst: 2, from: None, to: None },
        Op::CopyRowStyle { src: 2, dst: 4, from: Some(1), to: Some(3) },
        Op::CopyColStyle { src: 1, dst: 2, from: None, to: None },
        Op::CopyColStyle { src: 3, dst: 1, from: Some(1), to: Some(2) },
    ]);
    v
}

/// 12-operation sub-alphabet for the deep run (the operations that restructure the store + the simplest writers).
fn magnitude_alphabet() -> Vec<Op> {
    vec![
        Op::SetValue { c: 1, r: 1, v: "a" },
        Op::SetValue { c: 2, r: 16386, v: "deep" },
        Op::SetCell { c: 2, r: 1, v: "s", st: 0 },
        Op::Remove { c: 1, r: 16385 },
        Op::Remove { c: 2, r: 2 },
        Op::InsRow { p: 2, n: 3 },
        Op::RemRow { p: 1, n: 1 },
        Op::InsCol { p: 1, n: 2 },
        Op::RemCol { p: 2, n: 1 },
        Op::Move { range: "A1:B2", dr: 1, dc: 1 },
    ]
}

fn deep_alphabet() -> Vec<Op> {
    vec![
        Op::SetValue { c: 1, r: 1, v: "a" },
        Op::SetValue { c: 1, r: 3, v: "" },
        Op::SetCell { c: 2, r: 1, v: "s", st: 0 },
        Op::Remove { c: 2, r: 2 },
        Op::SetStyle { c: 2, r: 3, st: 2 },
        Op::InsRow { p: 2, n: 1 },
        Op::RemRow { p: 1, n: 1 },
        Op::InsCol { p: 1, n: 2 },
        Op::RemCol { p: 2, n: 1 },
        Op::Move { range: "A1:B2", dr: 1, dc: 1 },
        Op::Copy { range: "B2:C3", dr: -1, dc: -1 },
        Op::Cleanup,
    ]
}

fn apply(ws: &mut Worksheet, op: &Op) {
    match op {
        Op::SetValue { c, r, v } => {
            ws.get_cell_mut((*c, *r)).set_value(*v);
        }
        Op::SetCell { c, r, v, st } => {
            let mut cell = Cell::default();
            cell.set_coordinate((*c, *r));
            if !v.is_empty() {
                cell.set_value(*v);
            }
            if *st > 0 {
                cell.set_style(style(*st));
            }
            ws.set_cell(cell);
        }
        Op::SetCellAbs { c, r } => {
            let mut cell = Cell::default();
            cell.get_coordinate_mut().set_coordinate(format!("${}${}", umya_spreadsheet::helper::coordinate::string_from_column_index(c), r));
            cell.set_value("abs");
            ws.set_cell(cell);
        }
        Op::Remove { c, r } => {
            ws.remove_cell((*c, *r));
        }
        Op::SetStyle { c, r, st } => {
            ws.set_style((*c, *r), style(*st));
        }
        Op::StyleRange { range, st } => {
            ws.set_style_by_range(range, style(*st));
        }
        Op::InsRow { p, n } => ws.insert_new_row(p, n),
        Op::InsCol { p, n } => ws.insert_new_column_by_index(p, n),
        Op::RemRow { p, n } => ws.remove_row(p, n),
        Op::RemCol { p, n } => ws.remove_column_by_index(p, n),
        Op::Move { range, dr, dc } => {
            ws.move_range(range, dr, dc);
        }
        Op::Copy { range, dr, dc } => {
            ws.copy_range(range, dr, dc);
        }
        Op::Cleanup => ws.cleanup(),
        Op::CopyRowStyle { src, dst, from, to } => ws.copy_row_styling(src, dst, from.as_ref(), to.as_ref()),
        Op::CopyColStyle { src, dst, from, to } => ws.copy_col_styling(src, dst, from.as_ref(), to.as_ref()),
    }
}

// ---------------------------------------------------------------------------------------------
// seeds

const SEEDS: [&str; 5] = ["empty", "dense-3x3", "sparse+far", "loaded-from-saved-file", "magnitudes"];

fn seed_book(i: usize) -> Spreadsheet {
    let mut b = new_file();
    match i {
        0 => {}
        1 => {
            let ws = b.get_sheet_mut(&0).unwrap();
            for r in 1..=3u32 {
                for c in 1..=3u32 {
                    ws.get_cell_mut((c, r)).set_value(format!("d{}{}", r, c));
                }
            }
            ws.get_cell_mut((1, 3)).set_value("13");
            ws.set_style((2, 2), style(1));
            ws.set_style((3, 1), style(2));
        }
        2 => {
            let ws = b.get_sheet_mut(&0).unwrap();
            ws.get_cell_mut((1, 1)).set_value("a1");
            ws.get_cell_mut((3, 2)).set_value("32");
            ws.set_style((2, 3), style(2)); // styled blank
            ws.get_cell_mut((3, 1)); // blank unstyled ("default") cell
            ws.get_cell_mut(FAR).set_value("far");
            ws.get_row_dimension_mut(&2).set_height(30.0);
            ws.get_column_dimension_by_number_mut(&2).set_width(20.0);
            ws.add_merge_cells("AD20:AE20"); // away from the removal bands (merges inside a removed band are a C07 matter)
        }
        4 => {
            // coordinates of every magnitude: rows beyond the highest COLUMN number (16384), beyond 65536, the grid corners
            let ws = b.get_sheet_mut(&0).unwrap();
            for (c, r) in [(1u32, 1u32), (1, 16384), (1, 16385), (1, 1000000), (16000, 1), (16000, 16385), (16, 65537), (2, 2)] {
                ws.get_cell_mut((c, r)).set_value(format!("m{}x{}", c, r));
            }
        }
        _ => {
            {
                let ws = b.get_sheet_mut(&0).unwrap();
                ws.get_cell_mut((1, 1)).set_value("s");
                ws.get_cell_mut((2, 1)).set_value("t");
                ws.get_cell_mut((2, 2)).set_value("7");
                ws.get_cell_mut((3, 3)).set_formula("B2+1");
                ws.set_style((1, 3), style(1)); // styled blank
                ws.get_cell_mut((3, 2)).set_value("s"); // shared string used twice
                ws.get_cell_mut(FAR).set_value("far");
                ws.get_cell_mut((FAR.0 - 1, FAR.1 + 1)).set_value("99");
                ws.get_row_dimension_mut(&3).set_height(24.0);
                ws.get_row_dimension_mut(&5).set_height(18.0); // a row without cells
                ws.get_column_dimension_by_number_mut(&1).set_width(12.0);
            }
            let bytes = dump::save_bytes(&b, false).expect("seed save");
            b = dump::load_bytes(&bytes, true).expect("seed load");
        }
    }
    b
}

// ---------------------------------------------------------------------------------------------
// small independent codecs (C17 verifies the library's)

fn b26(mut n: u32) -> String {
    let mut v = vec![];
    while n > 0 {
        n -= 1;
        v.push((b'A' + (n % 26) as u8) as char);
        n /= 26;
    }
    v.iter().rev().collect()
}
fn a1(col: u32, row: u32) -> String {
    format!("{}{}", b26(col), row)
}
/// "AB12" -> (row, col); None if not of that form.
fn parse_a1(s: &str) -> Option<RC> {
    let b = s.as_bytes();
    let mut i = 0;
    let mut col: u32 = 0;
    while i < b.len() && b[i].is_ascii_uppercase() {
        col = col.checked_mul(26)?.checked_add((b[i] - b'A') as u32 + 1)?;
        i += 1;
    }
    if i == 0 || i == b.len() {
        return None;
    }
    let mut row: u32 = 0;
    for &x in &b[i..] {
        if !x.is_ascii_digit() {
            return None;
        }
        row = row.checked_mul(10)?.checked_add((x - b'0') as u32)?;
    }
    Some((row, col))
}

fn guard<T>(f: impl FnOnce() -> T) -> Result<T, String> {
    catch_unwind(AssertUnwindSafe(f)).map_err(|e| panic_class(&panic_msg(&e)))
}

fn own(c: &Cell) -> RC {
    (*c.get_coordinate().get_row_num(), *c.get_coordinate().get_col_num())
}

// ---------------------------------------------------------------------------------------------
// observations (taken once per state; used by the invariant and by the state key)

struct Obs {
    /// brute-force scan: (map key, the value's own coordinate), sorted by key
    cells: Vec<(RC, RC)>,
    unsorted: Result<Vec<RC>, String>,
    sorted: Result<Vec<RC>, String>,
    by_row: Vec<(u32, Result<Vec<RC>, String>)>,
    by_row_hm: Vec<(u32, Result<Vec<(u32, RC)>, String>)>,
    by_col: Vec<(u32, Result<Vec<RC>, String>)>,
    by_col_hm: Vec<(u32, Result<Vec<(u32, RC)>, String>)>,
    highest: Result<(u32, u32), String>,
    highest_c: Result<u32, String>,
    highest_r: Result<u32, String>,
    dim: Result<String, String>,
    /// row table as the writer sees it: (map key, the row's own number)
    rows: Vec<(u32, u32)>,
}

fn observe(ws: &Worksheet) -> Obs {
    let mut cells: Vec<(RC, RC)> = ws.get_collection_to_hashmap().iter().map(|(k, c)| (*k, own(c))).collect();
    cells.sort();
    let unsorted = guard(|| ws.get_cell_collection().iter().map(|c| own(c)).collect::<Vec<_>>());
    let sorted = guard(|| ws.get_cell_collection_sorted().iter().map(|c| own(c)).collect::<Vec<_>>());
    let highest = guard(|| ws.get_highest_column_and_row());
    let highest_c = guard(|| ws.get_highest_column());
    let highest_r = guard(|| ws.get_highest_row());
    let dim = guard(|| ws.calculate_worksheet_dimension());
    let mut rows: Vec<(u32, u32)> = ws.get_row_dimensions_to_hashmap().iter().map(|(k, r)| (*k, *r.get_row_num())).collect();
    rows.sort();
    // query window: everything any structure mentions, plus one beyond, at least the fixed scan area
    // (a SET of rows / columns, not a dense range: a cell at row 1048576 adds two rows to the window, not a million)
    let mut qrows: BTreeSet<u32> = (0..=SCAN_ROWS).collect();
    let mut qcols: BTreeSet<u32> = (0..=SCAN_COLS).collect();
    let mut see = |rc: &RC| {
        qrows.insert(rc.0);
        qrows.insert(rc.0.saturating_add(1));
        qcols.insert(rc.1);
        qcols.insert(rc.1.saturating_add(1));
    };
    for (k, o) in &cells {
        see(k);
        see(o);
    }
    if let Ok(v) = &sorted {
        v.iter().for_each(&mut see);
    }
    if let Ok(v) = &unsorted {
        v.iter().for_each(&mut see);
    }
    if let Ok((c, r)) = &highest {
        see(&(*r, *c));
    }
    let mut by_row = vec![];
    let mut by_row_hm = vec![];
    for r in qrows {
        by_row.push((r, guard(|| ws.get_collection_by_row(&r).iter().map(|c| own(c)).collect::<Vec<_>>())));
        by_row_hm.push((
            r,
            guard(|| {
                let mut v: Vec<(u32, RC)> = ws.get_collection_by_row_to_hashmap(&r).iter().map(|(k, c)| (*k, own(c))).collect();
                v.sort();
                v
            }),
        ));
    }
    let mut by_col = vec![];
    let mut by_col_hm = vec![];
    for c in qcols {
        by_col.push((c, guard(|| ws.get_collection_by_column(&c).iter().map(|x| own(x)).collect::<Vec<_>>())));
        by_col_hm.push((
            c,
            guard(|| {
                let mut v: Vec<(u32, RC)> = ws.get_collection_by_column_to_hashmap(&c).iter().map(|(k, x)| (*k, own(x))).collect();
                v.sort();
                v
            }),
        ));
    }
    Obs { cells, unsorted, sorted, by_row, by_row_hm, by_col, by_col_hm, highest, highest_c, highest_r, dim, rows }
}

// ---------------------------------------------------------------------------------------------
// the invariant

struct Out<'a> {
    tags: &'a [String],
    seen: HashSet<(String, String)>,
    out: &'a mut Vec<Violation>,
}
impl<'a> Out<'a> {
    /// at most one violation per (clause, symptom) and state
    fn add(&mut self, clause: &str, symptom: &str, detail: String) {
        if self.seen.insert((clause.to_string(), symptom.to_string())) {
            let t: Vec<&str> = self.tags.iter().map(|s| s.as_str()).collect();
            self.out.push(Violation::new(clause, symptom, &t, Value::Null, detail));
        }
    }
}

fn fmt_rc(rc: &RC) -> String {
    if rc.0 >= 1 && rc.1 >= 1 {
        a1(rc.1, rc.0)
    } else {
        format!("(row {}, col {})", rc.0, rc.1)
    }
}
fn fmt_list(v: &[RC]) -> String {
    let s: Vec<String> = v.iter().take(40).map(fmt_rc).collect();
    format!("[{}{}]", s.join(" "), if v.len() > 40 { " …" } else { "" })
}

/// `listed` must enumerate exactly `want` (sorted, no duplicates); `ordered`: also in that order.
fn cmp_listing(o: &mut Out, clause: &str, what: &dyn Fn() -> String, listed: &Result<Vec<RC>, String>, want: &[RC], ordered: bool) {
    // fast path (no allocation): identical sequence, or identical after sorting when the order is free
    if let Ok(v) = listed {
        if v.as_slice() == want {
            return;
        }
        if !ordered && v.len() == want.len() {
            let mut l = v.clone();
            l.sort();
            if l.as_slice() == want {
                return;
            }
        }
    }
    let what = what();
    let what = what.as_str();
    let listed = match listed {
        Err(m) => {
            o.add(clause, &format!("panic:{}", m), format!("{} panicked: {}", what, m));
            return;
        }
        Ok(v) => v,
    };
    let mut l = listed.clone();
    l.sort();
    let n0 = l.len();
    l.dedup();
    if l.len() != n0 {
        o.add(clause, "duplicate", format!("{} lists a cell twice: {} (existing cells {})", what, fmt_list(listed), fmt_list(want)));
    }
    let ls: BTreeSet<RC> = l.iter().copied().collect();
    let ws: BTreeSet<RC> = want.iter().copied().collect();
    let lost: Vec<RC> = ws.difference(&ls).copied().collect();
    let phantom: Vec<RC> = ls.difference(&ws).copied().collect();
    if !lost.is_empty() {
        o.add(clause, "lost", format!("{} does not list existing cell(s) {}: listed {} existing {}", what, fmt_list(&lost), fmt_list(listed), fmt_list(want)));
    }
    if !phantom.is_empty() {
        o.add(clause, "phantom", format!("{} lists cell(s) {} that do not exist: listed {} existing {}", what, fmt_list(&phantom), fmt_list(listed), fmt_list(want)));
    }
    if ordered && lost.is_empty() && phantom.is_empty() && l.len() == n0 && listed.as_slice() != want {
        o.add(clause, "not-row-major", format!("{} is not sorted by row then column: {}", what, fmt_list(listed)));
    }
}

fn value_sig(v: &CellValue) -> String {
    format!("{}|{}|{}|{}", dump::raw_kind(v.get_raw_value()), v.get_data_type(), v.get_value(), v.get_formula())
}

fn value_unset(v: &CellValue) -> bool {
    matches!(v.get_raw_value(), CellRawValue::Empty) && !v.is_formula()
}

fn check_range(o: &mut Out, ws: &Worksheet, s: &BTreeSet<RC>, r0: u32, c0: u32, r1: u32, c1: u32) {
    // the accessor lists every POSITION of the rectangle: a bounding box reaching to the far end of the grid (seed
    // `magnitudes`) is not queried (bound stated in the evidence)
    if (r1 - r0 + 1) as u64 * (c1 - c0 + 1) as u64 > 4096 {
        return;
    }
    let range = format!("{}:{}", a1(c0, r0), a1(c1, r1));
    let vals: Vec<&CellValue> = match guard(|| ws.get_cell_value_by_range(&range)) {
        Err(m) => {
            o.add("by-range", &format!("panic:{}", m), format!("get_cell_value_by_range({:?}) panicked: {}", range, m));
            return;
        }
        Ok(v) => v,
    };
    let n = (r1 - r0 + 1) as usize * (c1 - c0 + 1) as usize;
    if vals.len() != n {
        o.add("by-range", "length", format!("get_cell_value_by_range({:?}) returned {} values for {} positions", range, vals.len(), n));
        return;
    }
    let map = ws.get_collection_to_hashmap();
    let mut i = 0;
    // positions are listed row by row (the documented order of this accessor)
    for r in r0..=r1 {
        for c in c0..=c1 {
            let got = vals[i];
            i += 1;
            if s.contains(&(r, c)) {
                let want = map.get(&(r, c)).unwrap().get_cell_value();
                if got != want {
                    o.add("by-range", if value_unset(got) { "lost" } else { "wrong-value" }, format!("get_cell_value_by_range({:?}): the cell at {} holds {:?} but the value listed for that position is {:?}", range, a1(c, r), value_sig(want), value_sig(got)));
                }
            } else if !value_unset(got) {
                o.add("by-range", "phantom", format!("get_cell_value_by_range({:?}): no cell exists at {} but the value listed for that position is {:?}", range, a1(c, r), value_sig(got)));
            }
        }
    }
}

fn check(obs: &Obs, ws: &Worksheet, tags: &[String], out: &mut Vec<Violation>) {
    let mut o = Out { tags, seen: HashSet::new(), out };
    let s: BTreeSet<RC> = obs.cells.iter().map(|(k, _)| *k).collect();
    let sv: Vec<RC> = s.iter().copied().collect();
    // 1. every value's own coordinate equals its key
    for (k, own) in &obs.cells {
        if k != own {
            o.add("own-coordinate", "key!=own", format!("the cell stored under {} reports coordinate {}", fmt_rc(k), fmt_rc(own)));
        }
    }
    //    ... and it is a position, not a reference: no $ markers
    for (k, c) in ws.get_collection_to_hashmap() {
        if *c.get_coordinate().get_is_lock_col() || *c.get_coordinate().get_is_lock_row() {
            o.add("own-coordinate", "carries-lock-markers", format!("the cell stored under {} reports its coordinate as {:?}", fmt_rc(k), c.get_coordinate().get_coordinate()));
        }
    }
    // 2. lookup by coordinate: found exactly when it exists, and reports that coordinate
    let mut probe: BTreeSet<RC> = s.clone();
    for r in 1..=4u32 {
        for c in 1..=4u32 {
            probe.insert((r, c));
        }
    }
    for dr in 0..=2u32 {
        for dc in 0..=2u32 {
            probe.insert((FAR.1 + dr - 1, FAR.0 + dc - 1));
        }
    }
    for (_, own) in &obs.cells {
        probe.insert(*own);
    }
    if let Ok(v) = &obs.sorted {
        probe.extend(v.iter().copied());
    }
    for p in &probe {
        let (row, col) = *p;
        match guard(|| ws.get_cell((col, row)).map(own)) {
            Err(m) => o.add("lookup", &format!("panic:{}", m), format!("get_cell({}) panicked: {}", fmt_rc(p), m)),
            Ok(found) => match (found, s.contains(p)) {
                (None, true) => o.add("lookup", "missing", format!("get_cell({}) is None but the cell exists", fmt_rc(p))),
                (Some(x), false) => o.add("lookup", "phantom", format!("get_cell({}) found a cell (reporting {}) that does not exist", fmt_rc(p), fmt_rc(&x))),
                (Some(x), true) if x != *p => o.add("lookup", "wrong-cell", format!("get_cell({}) found a cell that reports {}", fmt_rc(p), fmt_rc(&x))),
                _ => {}
            },
        }
    }
    // 3. listings
    cmp_listing(&mut o, "listing", &|| "get_cell_collection()".to_string(), &obs.unsorted, &sv, false);
    cmp_listing(&mut o, "listing-sorted", &|| "get_cell_collection_sorted()".to_string(), &obs.sorted, &sv, true);
    for (r, l) in &obs.by_row {
        let want: Vec<RC> = sv.iter().filter(|x| x.0 == *r).copied().collect();
        cmp_listing(&mut o, "by-row", &|| format!("get_collection_by_row({})", r), l, &want, false);
    }
    for (c, l) in &obs.by_col {
        let want: Vec<RC> = sv.iter().filter(|x| x.1 == *c).copied().collect();
        cmp_listing(&mut o, "by-column", &|| format!("get_collection_by_column({})", c), l, &want, false);
    }
    for (r, l) in &obs.by_row_hm {
        if matches!(l, Ok(v) if v.is_empty()) && !sv.iter().any(|x| x.0 == *r) {
            continue;
        }
        let want: Vec<RC> = sv.iter().filter(|x| x.0 == *r).copied().collect();
        let what = format!("get_collection_by_row_to_hashmap({})", r);
        match l {
            Err(m) => o.add("by-row-map", &format!("panic:{}", m), format!("{} panicked: {}", what, m)),
            Ok(v) => {
                // key = column; value reports (r, key)
                for (k, own) in v {
                    if *own != (*r, *k) {
                        o.add("by-row-map", "key!=own", format!("{}: entry {} holds a cell reporting {}", what, k, fmt_rc(own)));
                    }
                }
                let listed: Vec<RC> = v.iter().map(|(k, _)| (*r, *k)).collect();
                cmp_listing(&mut o, "by-row-map", &|| what.clone(), &Ok(listed), &want, false);
            }
        }
    }
    for (c, l) in &obs.by_col_hm {
        if matches!(l, Ok(v) if v.is_empty()) && !sv.iter().any(|x| x.1 == *c) {
            continue;
        }
        let want: Vec<RC> = sv.iter().filter(|x| x.1 == *c).copied().collect();
        let what = format!("get_collection_by_column_to_hashmap({})", c);
        match l {
            Err(m) => o.add("by-column-map", &format!("panic:{}", m), format!("{} panicked: {}", what, m)),
            Ok(v) => {
                for (k, own) in v {
                    if *own != (*k, *c) {
                        o.add("by-column-map", "key!=own", format!("{}: entry {} holds a cell reporting {}", what, k, fmt_rc(own)));
                    }
                }
                let listed: Vec<RC> = v.iter().map(|(k, _)| (*k, *c)).collect();
                cmp_listing(&mut o, "by-column-map", &|| what.clone(), &Ok(listed), &want, false);
            }
        }
    }
    // 4. by range: the bounding box, the window and a sub-window
    let bbox = if s.is_empty() { None } else { Some((sv.iter().map(|x| x.0).min().unwrap(), sv.iter().map(|x| x.1).min().unwrap(), sv.iter().map(|x| x.0).max().unwrap(), sv.iter().map(|x| x.1).max().unwrap())) };
    if let Some((r0, c0, r1, c1)) = bbox {
        if r0 >= 1 && c0 >= 1 && (r1 - r0 + 1) as u64 * (c1 - c0 + 1) as u64 <= 20000 {
            check_range(&mut o, ws, &s, r0, c0, r1, c1);
        }
    }
    check_range(&mut o, ws, &s, 1, 1, 3, 3);
    check_range(&mut o, ws, &s, 2, 2, 4, 2);
    // 5. highest column / row
    let want_hi = match bbox {
        None => (0, 0),
        Some((_, _, r1, c1)) => (c1, r1),
    };
    match &obs.highest {
        Err(m) => o.add("highest", &format!("panic:{}", m), format!("get_highest_column_and_row() panicked: {}", m)),
        Ok(h) => {
            if *h != want_hi {
                o.add("highest", if h.0 > want_hi.0 || h.1 > want_hi.1 { "too-high" } else { "too-low" }, format!("get_highest_column_and_row() = {:?}, scan of existing cells gives (col {}, row {}); cells {}", h, want_hi.0, want_hi.1, fmt_list(&sv)));
            }
        }
    }
    match (&obs.highest_c, &obs.highest_r) {
        (Ok(c), Ok(r)) => {
            if (*c, *r) != want_hi {
                o.add("highest", "single-getters", format!("get_highest_column() = {}, get_highest_row() = {}, scan gives (col {}, row {})", c, r, want_hi.0, want_hi.1));
            }
        }
        _ => o.add("highest", "panic:single-getters", "get_highest_column()/get_highest_row() panicked".into()),
    }
    // 6. computed dimension: the far corner is the maximum of the scan, the near corner is A1 or the minimum
    match &obs.dim {
        Err(m) => o.add("dimension", &format!("panic:{}", m), format!("calculate_worksheet_dimension() panicked: {}", m)),
        Ok(d) => {
            let parts: Vec<&str> = d.split(':').collect();
            let parsed = match parts.len() {
                1 => parse_a1(parts[0]).map(|p| (p, p)),
                2 => match (parse_a1(parts[0]), parse_a1(parts[1])) {
                    (Some(a), Some(b)) => Some((a, b)),
                    _ => None,
                },
                _ => None,
            };
            match (parsed, bbox) {
                (None, _) => o.add("dimension", "unparseable", format!("calculate_worksheet_dimension() = {:?}", d)),
                (Some((a, b)), None) => {
                    if a != (1, 1) || b != (1, 1) {
                        o.add("dimension", "nonempty-for-empty-sheet", format!("calculate_worksheet_dimension() = {:?} but no cell exists", d));
                    }
                }
                (Some((a, b)), Some((r0, c0, r1, c1))) => {
                    if b != (r1, c1) {
                        o.add("dimension", "far-corner", format!("calculate_worksheet_dimension() = {:?}, the existing cells end at {}; cells {}", d, a1(c1, r1), fmt_list(&sv)));
                    }
                    if a != (1, 1) && a != (r0, c0) {
                        o.add("dimension", "near-corner", format!("calculate_worksheet_dimension() = {:?}, the existing cells start at {}", d, a1(c0, r0)));
                    }
                }
            }
        }
    }
    // 7. every row of an existing cell is known to the writer (which walks get_row_dimensions() by the rows' own numbers)
    let known_rows: BTreeSet<u32> = obs.rows.iter().map(|(_, n)| *n).collect();
    let missing: Vec<RC> = sv.iter().filter(|x| !known_rows.contains(&x.0)).copied().collect();
    if !missing.is_empty() {
        o.add("row-table", "row-missing", format!("cell(s) {} exist but their row has no entry in get_row_dimensions() (rows known: {:?})", fmt_list(&missing), known_rows));
    }
}

// ---------------------------------------------------------------------------------------------
// save emission

fn style_is_unset(s: &Style) -> bool {
    s.get_font().is_none() && s.get_fill().is_none() && s.get_borders().is_none() && s.get_alignment().is_none() && s.get_numbering_format().is_none() && s.get_protection().is_none()
}
/// The writer legitimately skips a cell that has neither a value, nor a formula, nor any style component.
fn is_default_cell(c: &Cell) -> bool {
    matches!(c.get_raw_value(), CellRawValue::Empty) && !c.is_formula() && style_is_unset(c.get_style())
}

/// `r` attributes of all `<c>` elements between <sheetData> and </sheetData>, in document order.
fn scan_c_refs(xml: &str) -> Result<Vec<String>, String> {
    let b = xml.as_bytes();
    let mut i = 0;
    let mut inside = false;
    let mut out = vec![];
    while i < b.len() {
        if b[i] != b'<' {
            i += 1;
            continue;
        }
        i += 1;
        if i >= b.len() {
            break;
        }
        if b[i] == b'/' {
            let st = i + 1;
            while i < b.len() && b[i] != b'>' {
                i += 1;
            }
            if &xml[st..i.min(b.len())] == "sheetData" {
                inside = false;
            }
            continue;
        }
        if b[i] == b'?' || b[i] == b'!' {
            while i < b.len() && b[i] != b'>' {
                i += 1;
            }
            continue;
        }
        let st = i;
        while i < b.len() && !matches!(b[i], b' ' | b'\t' | b'\r' | b'\n' | b'/' | b'>') {
            i += 1;
        }
        let name = &xml[st..i];
        // attributes
        let mut r_attr: Option<String> = None;
        loop {
            while i < b.len() && matches!(b[i], b' ' | b'\t' | b'\r' | b'\n') {
                i += 1;
            }
            if i >= b.len() {
                return Err("unterminated tag".into());
            }
            if b[i] == b'>' {
                i += 1;
                break;
            }
            if b[i] == b'/' {
                i += 1;
                continue;
            }
            let an = i;
            while i < b.len() && b[i] != b'=' && b[i] != b'>' {
                i += 1;
            }
            if i >= b.len() || b[i] != b'=' {
                return Err("attribute without value".into());
            }
            let aname = xml[an..i].trim().to_string();
            i += 1;
            if i >= b.len() || (b[i] != b'"' && b[i] != b'\'') {
                return Err("unquoted attribute".into());
            }
            let q = b[i];
            i += 1;
            let vs = i;
            while i < b.len() && b[i] != q {
                i += 1;
            }
            if i >= b.len() {
                return Err("unterminated attribute".into());
            }
            if aname == "r" {
                r_attr = Some(xml[vs..i].to_string());
            }
            i += 1;
        }
        if name == "sheetData" {
            inside = true;
        } else if name == "c" && inside {
            match r_attr {
                Some(r) => out.push(r),
                None => return Err("<c> without r".into()),
            }
        }
    }
    Ok(out)
}

fn sheet1_xml(bytes: &[u8]) -> Result<String, String> {
    let mut z = zip::ZipArchive::new(std::io::Cursor::new(bytes)).map_err(|e| format!("zip: {}", e))?;
    let mut f = z.by_name("xl/worksheets/sheet1.xml").map_err(|e| format!("sheet1.xml: {}", e))?;
    let mut s = String::new();
    f.read_to_string(&mut s).map_err(|e| format!("sheet1.xml: {}", e))?;
    Ok(s)
}

fn save_check(book: &Spreadsheet, tags: &[String], out: &mut Vec<Violation>) {
    let mut o = Out { tags, seen: HashSet::new(), out };
    let ws = book.get_sheet(&0).unwrap();
    let map = ws.get_collection_to_hashmap();
    let bytes = match dump::save_bytes(book, false) {
        Ok(b) => b,
        Err(m) => {
            o.add("save-emission", &format!("save-failed:{}", panic_class(&m)), format!("write_writer failed: {}", m));
            return;
        }
    };
    let refs = match sheet1_xml(&bytes).and_then(|x| scan_c_refs(&x)) {
        Ok(r) => r,
        Err(m) => {
            o.add("save-emission", "unreadable-sheet-xml", m);
            return;
        }
    };
    let mut emitted: BTreeMap<RC, u32> = BTreeMap::new();
    for r in &refs {
        match parse_a1(r) {
            Some(rc) => *emitted.entry(rc).or_insert(0) += 1,
            None => o.add("save-emission", "bad-reference", format!("<c r={:?}> in the sheet XML", r)),
        }
    }
    let twice: Vec<RC> = emitted.iter().filter(|(_, n)| **n > 1).map(|(k, _)| *k).collect();
    if !twice.is_empty() {
        o.add("save-emission", "emitted-twice", format!("cell(s) {} are written more than once", fmt_list(&twice)));
    }
    let phantom: Vec<RC> = emitted.keys().filter(|k| !map.contains_key(k)).copied().collect();
    if !phantom.is_empty() {
        o.add("save-emission", "phantom-emitted", format!("cell(s) {} are written but do not exist", fmt_list(&phantom)));
    }
    let mut lost: Vec<RC> = map.iter().filter(|(k, c)| !is_default_cell(c) && !emitted.contains_key(k)).map(|(k, _)| *k).collect();
    lost.sort();
    if !lost.is_empty() {
        let mut all: Vec<RC> = map.keys().copied().collect();
        all.sort();
        let mut rows: Vec<u32> = ws.get_row_dimensions().iter().map(|r| *r.get_row_num()).collect();
        rows.sort();
        o.add("save-emission", "not-emitted", format!("existing non-default cell(s) {} are not written to the sheet XML; existing cells {}, written {}, row table {:?}", fmt_list(&lost), fmt_list(&all), fmt_list(&emitted.keys().copied().collect::<Vec<_>>()), rows));
    }
}

// ---------------------------------------------------------------------------------------------
// state key

fn push_list(s: &mut String, v: &Result<Vec<RC>, String>) {
    match v {
        Err(m) => {
            s.push_str("PANIC:");
            s.push_str(m);
        }
        Ok(l) => {
            for (r, c) in l {
                let _ = write!(s, "{},{} ", r, c);
            }
        }
    }
    s.push(';');
}

// ---------------------------------------------------------------------------------------------
// the machine

#[derive(Clone)]
struct St {
    book: Spreadsheet,
    key: u128,
    depth: usize,
}

struct Mach {
    ops: Vec<Op>,
    /// the save-emission clause is evaluated in states of depth <= save_max_depth (once per distinct state key)
    save_max_depth: usize,
    saved: RefCell<HashSet<u128>>,
    styles: RefCell<Vec<(Style, u64)>>,
    counters: RefCell<BTreeMap<String, u64>>,
    timing: bool,
}

impl Mach {
    fn new(ops: Vec<Op>, save_max_depth: usize) -> Mach {
        Mach { ops, save_max_depth, saved: RefCell::new(HashSet::new()), styles: RefCell::new(vec![]), counters: RefCell::new(BTreeMap::new()), timing: std::env::var("UV_C10_DEBUG").is_ok() }
    }
    fn count(&self, k: &str, n: u64) {
        *self.counters.borrow_mut().entry(k.to_string()).or_insert(0) += n;
    }
    fn style_hash(&self, s: &Style) -> u64 {
        let mut cache = self.styles.borrow_mut();
        if let Some((_, h)) = cache.iter().find(|(x, _)| x == s) {
            return *h;
        }
        let h = fnv(dump::style_p(s).to_string().as_bytes());
        cache.push((s.clone(), h));
        h
    }
    /// Hash of everything later operations (and the writer) can observe of the sheet.
    fn key_of_state(&self, obs: &Obs, ws: &Worksheet) -> u128 {
        let mut s = String::with_capacity(4096);
        let map = ws.get_collection_to_hashmap();
        for (k, own) in &obs.cells {
            let c = map.get(k).unwrap();
            let _ = write!(s, "{},{}={},{}:{}{}|", k.0, k.1, own.0, own.1, *c.get_coordinate().get_is_lock_col() as u8, *c.get_coordinate().get_is_lock_row() as u8);
            s.push_str(&value_sig(c.get_cell_value()));
            if let CellRawValue::Numeric(x) = c.get_raw_value() {
                let _ = write!(s, "|{:016x}", x.to_bits());
            }
            if let Some(h) = c.get_hyperlink() {
                let _ = write!(s, "|link:{}:{}", h.get_url(), h.get_location());
            }
            let _ = write!(s, "|{:016x};", self.style_hash(c.get_style()));
        }
        s.push_str("\nU:");
        let mut u = obs.unsorted.clone();
        if let Ok(v) = &mut u {
            v.sort();
        }
        push_list(&mut s, &u);
        s.push_str("\nS:");
        push_list(&mut s, &obs.sorted);
        s.push_str("\nR:");
        for (r, l) in &obs.by_row {
            if !matches!(l, Ok(v) if v.is_empty()) {
                let _ = write!(s, "{}:", r);
                push_list(&mut s, l);
            }
        }
        for (r, l) in &obs.by_row_hm {
            match l {
                Ok(v) if v.is_empty() => {}
                Ok(v) => {
                    let _ = write!(s, "{}:{:?};", r, v);
                }
                Err(m) => {
                    let _ = write!(s, "{}:PANIC:{};", r, m);
                }
            }
        }
        s.push_str("\nC:");
        for (c, l) in &obs.by_col {
            if !matches!(l, Ok(v) if v.is_empty()) {
                let _ = write!(s, "{}:", c);
                push_list(&mut s, l);
            }
        }
        for (c, l) in &obs.by_col_hm {
            match l {
                Ok(v) if v.is_empty() => {}
                Ok(v) => {
                    let _ = write!(s, "{}:{:?};", c, v);
                }
                Err(m) => {
                    let _ = write!(s, "{}:PANIC:{};", c, m);
                }
            }
        }
        let _ = write!(s, "\nH:{:?}/{:?}/{:?} D:{:?}", obs.highest, obs.highest_c, obs.highest_r, obs.dim);
        s.push_str("\nROWS:");
        let rows = ws.get_row_dimensions_to_hashmap();
        for (k, _) in &obs.rows {
            let r = rows.get(k).unwrap();
            let _ = write!(s, 
                "{}={}:{:016x},{:016x},{},{},{},{:016x};",
                k,
                r.get_row_num(),
                r.get_height().to_bits(),
                r.get_descent().to_bits(),
                r.get_thick_bot(),
                r.get_custom_height(),
                r.get_hidden(),
                self.style_hash(r.get_style())
            );
        }
        s.push_str("\nCOLS:");
        // vector order among equal numbers is observable (first match wins); order among different numbers is not
        let mut cols: Vec<&Column> = ws.get_column_dimensions().iter().collect();
        cols.sort_by_key(|c| *c.get_col_num());
        for c in cols {
            let _ = write!(s, "{}:{:016x},{},{},{},{:016x};", c.get_col_num(), c.get_width().to_bits(), c.get_hidden(), c.get_best_fit(), c.get_auto_width(), self.style_hash(c.get_style()));
        }
        s.push_str("\nMERGE:");
        for m in ws.get_merge_cells() {
            // numeric projection: Range::get_range() panics on the column/row 0 that removals can produce (a C07 matter)
            let _ = write!(s, 
                "{:?},{:?},{:?},{:?};",
                m.get_coordinate_start_col().map(|x| *x.get_num()),
                m.get_coordinate_start_row().map(|x| *x.get_num()),
                m.get_coordinate_end_col().map(|x| *x.get_num()),
                m.get_coordinate_end_row().map(|x| *x.get_num())
            );
        }
        key_of(&s)
    }

    /// Observe, evaluate the invariant (and the save-emission clause when due) on `book`.
    fn evaluate(&self, book: &Spreadsheet, depth: usize, tags: &[String], out: &mut Vec<Violation>) -> u128 {
        let ws = book.get_sheet(&0).unwrap();
        let t0 = std::time::Instant::now();
        let obs = observe(ws);
        let t1 = std::time::Instant::now();
        check(&obs, ws, tags, out);
        let t2 = std::time::Instant::now();
        let key = self.key_of_state(&obs, ws);
        let t3 = std::time::Instant::now();
        if depth <= self.save_max_depth && self.saved.borrow_mut().insert(key) {
            save_check(book, tags, out);
            self.count("save_checks", 1);
        }
        if self.timing {
            self.count("ns_observe", (t1 - t0).as_nanos() as u64);
            self.count("ns_check", (t2 - t1).as_nanos() as u64);
            self.count("ns_key", (t3 - t2).as_nanos() as u64);
            self.count("ns_save", t3.elapsed().as_nanos() as u64);
        }
        self.count("invariant_evaluations", 1);
        if obs.cells.is_empty() {
            self.count("states_with_empty_store", 1);
        }
        key
    }

    fn init_state(&self, book: Spreadsheet, out: &mut Vec<Violation>) -> St {
        let key = self.evaluate(&book, 0, &["initial-state".to_string()], out);
        St { book, key, depth: 0 }
    }
}

impl Machine for Mach {
    type S = St;
    type Op = Op;
    fn ops(&self, _s: &St, _depth: usize) -> Vec<Op> {
        self.ops.clone()
    }
    fn op_json(&self, op: &Op) -> Value {
        op.json()
    }
    fn step(&self, s: &St, op: &Op, out: &mut Vec<Violation>) -> Option<St> {
        let t0 = std::time::Instant::now();
        let mut b = s.book.clone();
        let t1 = std::time::Instant::now();
        let res = catch_unwind(AssertUnwindSafe(|| apply(b.get_sheet_mut(&0).unwrap(), op)));
        if self.timing {
            self.count("ns_clone", (t1 - t0).as_nanos() as u64);
            self.count("ns_apply", t1.elapsed().as_nanos() as u64);
        }
        let kind = op.kind();
        let depth = s.depth + 1;
        match res {
            Err(e) => {
                // no successor, but the object after the unwind is a state a caller can hold: it must be coherent too
                let msg = panic_class(&panic_msg(&e));
                self.count("panicking_state_op_pairs", 1);
                self.count(&format!("panics[{}] {}", kind, msg), 1);
                let tags = vec!["post-panic".to_string(), format!("post-panic:{}", kind)];
                let n0 = out.len();
                self.evaluate(&b, depth, &tags, out);
                for v in out[n0..].iter_mut() {
                    v.detail = format!("after {} panicked ({}): {}", kind, msg, v.detail);
                }
                None
            }
            Ok(()) => {
                let tags = vec![kind.to_string()];
                let key = self.evaluate(&b, depth, &tags, out);
                if !out.is_empty() {
                    // an incoherent store is reported once, at the operation that broke it; its successors are not explored
                    self.count("violating_states_not_expanded", 1);
                    return None;
                }
                Some(St { book: b, key, depth })
            }
        }
    }
    fn key(&self, s: &St) -> u128 {
        s.key
    }
}

// ---------------------------------------------------------------------------------------------
// pool space: one case = (seed, prefix of 1 or 2 operations); the rest of the history is explored by bfs

struct Hist {
    name: &'static str,
    /// indexes into SEEDS
    seed_ids: Vec<usize>,
    ops: Vec<Op>,
    depth: usize,
    prefix_len: usize,
    save_max_depth: usize,
}
impl Hist {
    fn per_seed(&self) -> u64 {
        (self.ops.len() as u64).pow(self.prefix_len as u32)
    }
    fn decode(&self, i: u64) -> (usize, Vec<usize>) {
        let seed = self.seed_ids[(i / self.per_seed()) as usize];
        let mut rest = i % self.per_seed();
        let n = self.ops.len() as u64;
        let mut p = vec![0usize; self.prefix_len];
        for k in (0..self.prefix_len).rev() {
            p[k] = (rest % n) as usize;
            rest /= n;
        }
        (seed, p)
    }
}
impl Space for Hist {
    fn len(&self) -> u64 {
        self.seed_ids.len() as u64 * self.per_seed()
    }
    fn describe(&self, i: u64) -> Value {
        let (seed, p) = self.decode(i);
        json!({"space": self.name, "seed": SEEDS[seed], "prefix": p.iter().map(|k| self.ops[*k].json()).collect::<Vec<_>>(), "depth": self.depth})
    }
    fn tags(&self, i: u64) -> Vec<String> {
        let (_, p) = self.decode(i);
        p.iter().map(|k| self.ops[*k].kind().to_string()).collect()
    }
    fn run(&self, i: u64, sink: &mut Sink) {
        let (seed, prefix) = self.decode(i);
        if std::env::var("UV_C10_BT").is_ok() {
            std::panic::set_hook(Box::new(|info| eprintln!("PANIC {}\n{}", info, std::backtrace::Backtrace::force_capture())));
        }
        let m = Mach::new(self.ops.clone(), self.save_max_depth);
        let mut vs = vec![];
        let mut cur = m.init_state(seed_book(seed), &mut vs);
        for mut v in vs.drain(..) {
            v.case = json!({"init": SEEDS[seed], "path": []});
            sink.violations.push(v);
        }
        let mut desc: Vec<Value> = vec![];
        let mut dead = false;
        for k in 0..self.prefix_len - 1 {
            let op = self.ops[prefix[k]].clone();
            desc.push(op.json());
            let mut vs = vec![];
            let succ = m.step(&cur, &op, &mut vs);
            sink.count(&format!("{}.depth{}_transitions_repeated_in_every_case", self.name, k + 1), 1);
            for mut v in vs {
                v.case = json!({"init": SEEDS[seed], "path": desc});
                sink.violations.push(v);
            }
            match succ {
                Some(s) => cur = s,
                None => {
                    dead = true;
                    break;
                }
            }
        }
        if !dead {
            let off = self.prefix_len - 1;
            let mut tmp = Sink::new();
            tmp.beat = sink.beat;
            let st = bfs(&m, cur, json!({"seed": SEEDS[seed], "prefix": desc}), Some(prefix[self.prefix_len - 1]), self.depth - off, 4_000_000, &mut tmp);
            sink.evaluations += tmp.evaluations;
            sink.hashes.append(&mut tmp.hashes);
            sink.violations.append(&mut tmp.violations);
            for (k, n) in tmp.counters {
                if let Some(rest) = k.strip_prefix("depth") {
                    let digits: String = rest.chars().take_while(|c| c.is_ascii_digit()).collect();
                    let d: usize = digits.parse().unwrap_or(0);
                    sink.count(&format!("{}.depth{}{}", self.name, d + off, &rest[digits.len()..]), n);
                } else {
                    sink.count(&k, n);
                }
            }
            if st.capped {
                sink.count(&format!("{}.capped_cases", self.name), 1);
            }
        } else {
            sink.count(&format!("{}.cases_ended_in_prefix", self.name), 1);
        }
        for (k, n) in m.counters.borrow().iter() {
            sink.count(k, *n);
            if m.timing {
                eprintln!("{} {}", k, n);
            }
        }
    }
}

pub fn space(tier: Tier, id: &str) -> Option<Box<dyn Space>> {
    match (tier, id) {
        (Tier::Quick, "d3") => Some(Box::new(Hist { name: "d3", seed_ids: vec![0, 1, 2, 3], ops: full_alphabet(), depth: 3, prefix_len: 1, save_max_depth: 2 })),
        (Tier::Thorough, "d4") => Some(Box::new(Hist { name: "d4", seed_ids: vec![0, 1, 2, 3], ops: full_alphabet(), depth: 4, prefix_len: 1, save_max_depth: usize::MAX })),
        (Tier::Thorough, "d6") => Some(Box::new(Hist { name: "d6", seed_ids: vec![0, 1, 2, 3], ops: deep_alphabet(), depth: 6, prefix_len: 2, save_max_depth: usize::MAX })),
        // the seed with coordinates of every magnitude meets an alphabet without the operations that fill whole rows /
        // columns up to the highest used one (copy styling, cleanup): 10 operations, depth 2 (thorough 3)
        (_, "magnitudes") => Some(Box::new(Hist { name: "magnitudes", seed_ids: vec![4], ops: magnitude_alphabet(), depth: if tier == Tier::Thorough { 3 } else { 2 }, prefix_len: 1, save_max_depth: 1 })),
        _ => None,
    }
}

fn replay(tier: Tier, case: &Value) -> Vec<Violation> {
    replay_e1(space(tier, case["_space"].as_str().unwrap_or("")), case)
}

fn run(ctx: &Ctx) -> i32 {
    let thorough = ctx.tier == Tier::Thorough;
    let ids: Vec<&'static str> = if thorough { vec!["d4", "d6", "magnitudes"] } else { vec!["d3", "magnitudes"] };
    let spaces = ids.iter().map(|id| (*id, space(ctx.tier, id).unwrap())).collect();
    let full: Vec<Value> = full_alphabet().iter().map(|o| o.json()).collect();
    let deep: Vec<Value> = deep_alphabet().iter().map(|o| o.json()).collect();
    run_e1(
        ctx,
        E1Spec {
            spaces,
            cfg: PoolCfg { chunk: 1, case_timeout: std::time::Duration::from_secs(120), ..Default::default() },
            level: "model_checking",
            rule: "breadth-first exploration of ALL operation histories up to the stated depth over the stated alphabet, from each seeded initial sheet, on the real Worksheet inside a real Spreadsheet (cloned per node). One pool case = (seed, first operation[, second operation]); inside a case states with equal key are merged (key = hash of every cell's map key, own coordinate, value, style, both listings, every by-row/by-column listing, highest/dimension, the row table, the column table and the merge list). In EVERY reached state (including the object left behind by a panicking operation) the invariant is evaluated: brute-force scan of the key set of get_collection_to_hashmap() against own coordinates, get_cell, get_cell_collection, get_cell_collection_sorted (row-major), get_collection_by_row/_by_column (+_to_hashmap) for every row/column of the scan area, get_cell_value_by_range (bounding box when it has at most 4096 positions, A1:C3, B2:B4), get_highest_column_and_row, calculate_worksheet_dimension, get_row_dimensions; save emission (write_writer into memory, own scanner over xl/worksheets/sheet1.xml) once per distinct state of depth <= save_emission_max_depth. A state that violates the invariant is reported at the operation that produced it and is not expanded. distinct_nontrivial = number of distinct state keys over all cases".into(),
            alphabets: json!({"seeds": SEEDS, "operations_full": full, "operations_full_count": full.len(), "operations_deep": deep, "operations_deep_count": deep.len(),
                "styles": ["0: nothing set", "1: solid fill", "2: bold font"], "window": "A1:C3", "far_cell": a1(FAR.0, FAR.1)}),
            bounds: if thorough {
                json!({"d4": "every history of length <= 4 over the full alphabet from each seed; save emission in every distinct state", "d6": "every history of length <= 6 over the 12-operation alphabet from each seed; save emission in every distinct state"})
            } else {
                json!({"d3": "every history of length <= 3 over the full alphabet from each seed", "save_emission_max_depth": 2})
            },
            exhaustive: true,
            caps_hit: vec![],
            assumptions: vec![
                "histories longer than the depth bound (the statement names lengths up to 60) are covered only up to the bound; merged states make longer histories that revisit a seen state redundant".into(),
                "an operation that panics yields no successor (C10 does not promise absence of panics); the object after the unwind is checked like any other state".into(),
                "the dimension is accepted when its far corner is the maximum of the scan and its near corner is A1 or the minimum; for an empty store only A1 is accepted; highest = (0,0) for an empty store".into(),
                "a cell with no value, no formula and no style component may be omitted from the sheet XML".into(),
            ],
            min_distinct: if thorough { 100_000 } else { 10_000 },
        },
    )
}
