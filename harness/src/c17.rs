//! C17 — coordinate / column / range / address codecs are exact inverses grid-wide (complete domain).
use crate::common::*;
use crate::e1::*;
use crate::pool::*;
use serde_json::{json, Value};
use umya_spreadsheet::helper::address::{join_address, split_address};
use umya_spreadsheet::helper::coordinate::*;
use umya_spreadsheet::helper::range::{get_coordinate_list, get_start_and_end_point};
use umya_spreadsheet::{Address, Coordinate, Range};

pub fn entry() -> crate::Entry {
    crate::Entry { id: "C17", run, space, replay }
}

const MAXC: u32 = 16384;
const MAXR: u32 = 1_048_576;
const COLSET: [u32; 7] = [1, 26, 27, 702, 703, 16383, 16384];
const ROWS_PER_CASE: u32 = 4096;

/// independent bijective base-26 numeral
fn b26(mut n: u32) -> String {
    let mut v = vec![];
    while n > 0 {
        n -= 1;
        v.push((b'A' + (n % 26) as u8) as char);
        n /= 26;
    }
    v.iter().rev().collect()
}

fn guarded<T, F: FnOnce() -> T + std::panic::UnwindSafe>(f: F) -> Result<T, String> {
    std::panic::catch_unwind(f).map_err(|e| panic_msg(&e))
}

// ---------------------------------------------------------------------------------------------
struct Cols;
impl Space for Cols {
    fn len(&self) -> u64 {
        // 64 cases of 256 indices, then names 1..18278 in 72 cases of 256 (upper + lower)
        64 + 72
    }
    fn describe(&self, i: u64) -> Value {
        if i < 64 {
            json!({"kind":"column-indices","from": i*256+1, "to": (i+1)*256})
        } else {
            json!({"kind":"column-names","from_ordinal": (i-64)*256+1, "to_ordinal": ((i-64+1)*256).min(18278)})
        }
    }
    fn run(&self, i: u64, sink: &mut Sink) {
        if i < 64 {
            let mut prev = if i == 0 { String::new() } else { b26((i * 256) as u32) };
            for idx in (i * 256 + 1) as u32..=((i + 1) * 256) as u32 {
                sink.evaluations += 1;
                let case = json!({"kind":"column-index","index": idx});
                let r = guarded(move || {
                    let s = string_from_column_index(&idx);
                    let back = column_index_from_string(&s);
                    (s, back)
                });
                match r {
                    Err(m) => sink.violations.push(Violation::new("column-roundtrip", &format!("panic:{}", panic_class(&m)), &["column"], case, m)),
                    Ok((s, back)) => {
                        sink.obs(&s);
                        let want = b26(idx);
                        if s != want {
                            sink.violations.push(Violation::new("column-letters", "not-bijective-base26", &["column"], case.clone(), format!("index {} printed {:?}, reference numeral {:?}", idx, s, want)));
                        }
                        if back != idx {
                            sink.violations.push(Violation::new("column-roundtrip", "index-changed", &["column"], case.clone(), format!("index {} -> {:?} -> {}", idx, s, back)));
                        }
                        // order: shorter first, then lexicographic
                        if !(prev.len() < s.len() || (prev.len() == s.len() && prev < s)) {
                            sink.violations.push(Violation::new("column-letters", "order", &["column"], case, format!("{:?} does not follow {:?}", s, prev)));
                        }
                        prev = s;
                    }
                }
            }
        } else {
            let lo = ((i - 64) * 256 + 1) as u32;
            let hi = (((i - 64 + 1) * 256) as u32).min(18278);
            for ord in lo..=hi {
                let name = b26(ord);
                for lower in [false, true] {
                    sink.evaluations += 1;
                    let n = if lower { name.to_lowercase() } else { name.clone() };
                    let case = json!({"kind":"column-name","name": n});
                    let n2 = n.clone();
                    let r = guarded(move || {
                        let idx = column_index_from_string(&n2);
                        let s = string_from_column_index(&idx);
                        (idx, s)
                    });
                    match r {
                        Err(m) => sink.violations.push(Violation::new("name-roundtrip", &format!("panic:{}", panic_class(&m)), &["column"], case, m)),
                        Ok((idx, s)) => {
                            sink.obs(&format!("{}:{}", n, idx));
                            if idx != ord {
                                sink.violations.push(Violation::new("name-roundtrip", "wrong-index", &["column"], case.clone(), format!("{:?} -> {} (reference {})", n, idx, ord)));
                            }
                            if s != name {
                                sink.violations.push(Violation::new("name-roundtrip", "name-changed", &["column"], case, format!("{:?} -> {} -> {:?}", n, idx, s)));
                            }
                        }
                    }
                }
            }
        }
    }
}

// ---------------------------------------------------------------------------------------------
struct Grid {
    thorough: bool,
}
impl Grid {
    fn combos(&self, row: u32) -> Vec<(u32, bool, bool)> {
        let full = self.thorough || row <= 2 || row >= MAXR - 1 || row % 4096 <= 1 || [9, 10, 99, 100, 999, 1000, 9999, 10000, 99999, 100000, 999999, 1000000].contains(&row);
        let mut v = vec![];
        if full {
            for c in COLSET {
                for lc in [false, true] {
                    for lr in [false, true] {
                        v.push((c, lc, lr));
                    }
                }
            }
        } else {
            v.push((1, false, false));
            v.push((1, true, true));
            v.push((16384, false, true));
            v.push((703, true, false));
        }
        v
    }
}
impl Space for Grid {
    fn len(&self) -> u64 {
        (MAXR / ROWS_PER_CASE) as u64
    }
    fn describe(&self, i: u64) -> Value {
        json!({"kind":"grid-rows","from": i as u32*ROWS_PER_CASE+1, "to": (i as u32+1)*ROWS_PER_CASE,
               "columns": if self.thorough {json!(COLSET)} else {json!("all rows x {A,$A$,XFD$,$AAA}; full column set x 4 lock patterns at rows <=2, >=1048575, r mod 4096 <= 1 and decimal-length boundaries")}})
    }
    fn run(&self, i: u64, sink: &mut Sink) {
        let lo = i as u32 * ROWS_PER_CASE + 1;
        let hi = (i as u32 + 1) * ROWS_PER_CASE;
        for row in lo..=hi {
            for (col, lc, lr) in self.combos(row) {
                sink.evaluations += 1;
                let r = guarded(move || {
                    let s = coordinate_from_index_with_lock(&col, &row, &lc, &lr);
                    let back = index_from_coordinate(&s);
                    let mut c = Coordinate::default();
                    c.set_coordinate(&s);
                    let c_ok = *c.get_col_num() == col && *c.get_row_num() == row && *c.get_is_lock_col() == lc && *c.get_is_lock_row() == lr && c.get_coordinate() == s;
                    let plain_ok = if !lc && !lr { coordinate_from_index(&col, &row) == s } else { true };
                    (s, back, c_ok, plain_ok)
                });
                let case = json!({"kind":"coordinate","col": col, "row": row, "lock_col": lc, "lock_row": lr});
                match r {
                    Err(m) => sink.violations.push(Violation::new("coordinate-roundtrip", &format!("panic:{}", panic_class(&m)), &["coordinate"], case, m)),
                    Ok((s, back, c_ok, plain_ok)) => {
                        if col == 1 && !lc && !lr {
                            sink.obs(&s);
                        }
                        let mut want = String::new();
                        if lc {
                            want.push('$');
                        }
                        want.push_str(&b26(col));
                        if lr {
                            want.push('$');
                        }
                        want.push_str(&row.to_string());
                        if s != want {
                            sink.violations.push(Violation::new("coordinate-print", "wrong-text", &["coordinate"], case.clone(), format!("printed {:?}, reference {:?}", s, want)));
                        }
                        if back != (Some(col), Some(row), Some(lc), Some(lr)) {
                            sink.violations.push(Violation::new("coordinate-roundtrip", "parsed-differently", &["coordinate"], case.clone(), format!("{:?} parsed to {:?}", s, back)));
                        }
                        if !c_ok {
                            sink.violations.push(Violation::new("coordinate-roundtrip", "Coordinate-struct", &["coordinate"], case.clone(), format!("Coordinate::set_coordinate({:?}) / get_coordinate() disagree", s)));
                        }
                        if !plain_ok {
                            sink.violations.push(Violation::new("coordinate-print", "coordinate_from_index-differs", &["coordinate"], case, format!("coordinate_from_index differs from unlocked with_lock for {:?}", s)));
                        }
                    }
                }
            }
        }
    }
}

// ---------------------------------------------------------------------------------------------
#[derive(Clone, Debug)]
struct RangeCase {
    text: String,
    // expected corners: (col, lock) / (row, lock)
    sc: Option<(u32, bool)>,
    sr: Option<(u32, bool)>,
    ec: Option<(u32, bool)>,
    er: Option<(u32, bool)>,
    shape: &'static str,
}
fn colref(c: u32, l: bool) -> String {
    format!("{}{}", if l { "$" } else { "" }, b26(c))
}
fn rowref(r: u32, l: bool) -> String {
    format!("{}{}", if l { "$" } else { "" }, r)
}
fn range_cases() -> Vec<RangeCase> {
    let cols = [1u32, 2, 26, 27, 16384];
    let rows = [1u32, 2, 1048576];
    let mut v = vec![];
    let b = [false, true];
    // single cell
    for &c in &cols {
        for &r in &rows {
            for lc in b {
                for lr in b {
                    v.push(RangeCase { text: format!("{}{}", colref(c, lc), rowref(r, lr)), sc: Some((c, lc)), sr: Some((r, lr)), ec: None, er: None, shape: "cell" });
                }
            }
        }
    }
    // cell:cell, start <= end, all 16 lock patterns
    for (i1, &c1) in cols.iter().enumerate() {
        for &c2 in &cols[i1..] {
            for (j1, &r1) in rows.iter().enumerate() {
                for &r2 in &rows[j1..] {
                    for m in 0..16u32 {
                        let (a, bb, c, d) = (m & 1 != 0, m & 2 != 0, m & 4 != 0, m & 8 != 0);
                        v.push(RangeCase {
                            text: format!("{}{}:{}{}", colref(c1, a), rowref(r1, bb), colref(c2, c), rowref(r2, d)),
                            sc: Some((c1, a)),
                            sr: Some((r1, bb)),
                            ec: Some((c2, c)),
                            er: Some((r2, d)),
                            shape: "cell:cell",
                        });
                    }
                }
            }
        }
    }
    // col:col and row:row
    for (i1, &c1) in cols.iter().enumerate() {
        for &c2 in &cols[i1..] {
            for a in b {
                for c in b {
                    v.push(RangeCase { text: format!("{}:{}", colref(c1, a), colref(c2, c)), sc: Some((c1, a)), sr: None, ec: Some((c2, c)), er: None, shape: "col:col" });
                }
            }
        }
    }
    for (j1, &r1) in rows.iter().enumerate() {
        for &r2 in &rows[j1..] {
            for a in b {
                for c in b {
                    v.push(RangeCase { text: format!("{}:{}", rowref(r1, a), rowref(r2, c)), sc: None, sr: Some((r1, a)), ec: None, er: Some((r2, c)), shape: "row:row" });
                }
            }
        }
    }
    v
}

struct Ranges {
    cases: Vec<RangeCase>,
}
impl Space for Ranges {
    fn len(&self) -> u64 {
        self.cases.len() as u64
    }
    fn describe(&self, i: u64) -> Value {
        json!({"kind":"range","text": self.cases[i as usize].text, "shape": self.cases[i as usize].shape})
    }
    fn tags(&self, i: u64) -> Vec<String> {
        vec![format!("range-{}", self.cases[i as usize].shape)]
    }
    fn run(&self, i: u64, sink: &mut Sink) {
        let rc = self.cases[i as usize].clone();
        let tag = format!("range-{}", rc.shape);
        let tags = [tag.as_str()];
        let case = self.describe(i);
        sink.evaluations += 1;
        let text = rc.text.clone();
        let text2 = rc.text.clone();
        let r = guarded(move || {
            let mut rg = Range::default();
            rg.set_range(text.clone());
            let printed = rg.get_range();
            let sc = rg.get_coordinate_start_col().map(|c| (*c.get_num(), *c.get_is_lock()));
            let sr = rg.get_coordinate_start_row().map(|c| (*c.get_num(), *c.get_is_lock()));
            let ec = rg.get_coordinate_end_col().map(|c| (*c.get_num(), *c.get_is_lock()));
            let er = rg.get_coordinate_end_row().map(|c| (*c.get_num(), *c.get_is_lock()));
            (printed, sc, sr, ec, er)
        });
        let want_cs = rc.sc.map(|x| x.0);
        let want_ce = rc.ec.map(|x| x.0).or(want_cs);
        let want_rs = rc.sr.map(|x| x.0);
        let want_re = rc.er.map(|x| x.0).or(want_rs);
        match r {
            Err(m) => sink.violations.push(Violation::new("range-roundtrip", &format!("panic:{}", panic_class(&m)), &tags, case.clone(), m)),
            Ok((printed, sc, sr, ec, er)) => {
                sink.obs(&printed);
                if printed != rc.text {
                    sink.violations.push(Violation::new("range-roundtrip", "text-changed", &tags, case.clone(), format!("{:?} -> {:?}", rc.text, printed)));
                }
                if (sc, sr, ec, er) != (rc.sc, rc.sr, rc.ec, rc.er) {
                    sink.violations.push(Violation::new("range-corners", "Range-struct", &tags, case.clone(), format!("{:?}: corners {:?} expected {:?}", rc.text, (sc, sr, ec, er), (rc.sc, rc.sr, rc.ec, rc.er))));
                }
            }
        }
        // a public consumer of the corners: set_style_by_range on whole rows / whole columns must style exactly the
        // rows (columns) between the two corners
        if (rc.shape == "row:row" || rc.shape == "col:col") && want_ce.unwrap_or(0) - want_cs.unwrap_or(0) <= 64 && want_re.unwrap_or(0) - want_rs.unwrap_or(0) <= 64 {
            let t = rc.text.clone();
            let rows_shape = rc.shape == "row:row";
            let got = guarded(move || {
                let mut book = umya_spreadsheet::new_file();
                let ws = book.get_sheet_mut(&0).unwrap();
                let mut st = umya_spreadsheet::Style::default();
                st.get_font_mut().set_bold(true);
                ws.set_style_by_range(&t, st);
                let mut v: Vec<u32> = if rows_shape {
                    ws.get_row_dimensions().iter().filter(|r| *r.get_style().get_font().map(|f| f.get_bold()).unwrap_or(&false)).map(|r| *r.get_row_num()).collect()
                } else {
                    ws.get_column_dimensions().iter().filter(|c| *c.get_style().get_font().map(|f| f.get_bold()).unwrap_or(&false)).map(|c| *c.get_col_num()).collect()
                };
                v.sort();
                (v, ws.get_cell_collection().len())
            });
            let want: Vec<u32> = if rows_shape { (want_rs.unwrap()..=want_re.unwrap()).collect() } else { (want_cs.unwrap()..=want_ce.unwrap()).collect() };
            match got {
                Err(m) => sink.violations.push(Violation::new("range-corners-consumer", &format!("panic:{}", panic_class(&m)), &tags, case.clone(), format!("set_style_by_range({:?}) panicked: {}", rc.text, m))),
                Ok((v, cells)) => {
                    if v != want || cells != 0 {
                        sink.violations.push(Violation::new("range-corners-consumer", "styled-set-differs", &tags, case.clone(), format!("set_style_by_range({:?}) styled {:?} (and {} cells), expected {:?}", rc.text, v, cells, want)));
                    }
                }
            }
        }
        // helper::range corners: (row_start,row_end,col_start,col_end); an absent axis is not pinned by the statement
        match guarded(move || get_start_and_end_point(&text2)) {
            Err(m) => sink.violations.push(Violation::new("range-corners-helper", &format!("panic:{}", panic_class(&m)), &tags, case.clone(), format!("get_start_and_end_point({:?}) panicked: {}", rc.text, m))),
            Ok((rs, re, cs, ce)) => {
                let mut bad = false;
                if let Some(w) = want_cs {
                    bad |= cs != w;
                }
                if let Some(w) = want_ce {
                    bad |= ce != w;
                }
                if let Some(w) = want_rs {
                    bad |= rs != w;
                }
                if let Some(w) = want_re {
                    bad |= re != w;
                }
                if bad {
                    sink.violations.push(Violation::new("range-corners-helper", "wrong-corners", &tags, case.clone(), format!("{:?}: got rows {}..{} cols {}..{}", rc.text, rs, re, cs, ce)));
                }
                // enumeration on small rectangles
                if let (Some(cs_), Some(ce_), Some(rs_), Some(re_)) = (want_cs, want_ce, want_rs, want_re) {
                    let n = (ce_ - cs_ + 1) as u64 * (re_ - rs_ + 1) as u64;
                    if n <= 4096 {
                        let t = rc.text.clone();
                        match guarded(move || get_coordinate_list(&t)) {
                            Err(m) => sink.violations.push(Violation::new("range-enumeration", &format!("panic:{}", panic_class(&m)), &tags, case.clone(), m)),
                            Ok(list) => {
                                let mut want = vec![];
                                for r in rs_..=re_ {
                                    for c in cs_..=ce_ {
                                        want.push((c, r));
                                    }
                                }
                                if list != want {
                                    sink.violations.push(Violation::new("range-enumeration", "list-differs", &tags, case.clone(), format!("{:?}: {} items, expected {}", rc.text, list.len(), want.len())));
                                }
                            }
                        }
                    }
                }
            }
        }
    }
}

// ---------------------------------------------------------------------------------------------
const ATOMS: [&str; 11] = ["A", "a", "1", " ", "'", "\"", "!", "-", ".", "é", "名"];
const RANGE_PARTS: [&str; 4] = ["A1", "$A$1:$B$2", "A:A", "1:2"];

fn legal_sheet_name(s: &str) -> bool {
    let n = s.chars().count();
    n >= 1 && n <= 31 && !s.starts_with('\'') && !s.ends_with('\'') && !s.chars().any(|c| ":\\/?*[]".contains(c))
}

fn sheet_names() -> Vec<String> {
    let mut v = vec![];
    for a in ATOMS {
        v.push(a.to_string());
    }
    for a in ATOMS {
        for b in ATOMS {
            v.push(format!("{}{}", a, b));
        }
    }
    for a in ATOMS {
        for b in ATOMS {
            for c in ATOMS {
                v.push(format!("{}{}{}", a, b, c));
            }
        }
    }
    // 31-character boundary names
    v.push("A".repeat(31));
    v.push(format!("\"{}\"", "a".repeat(29)));
    v.push(format!("{} {}", "a".repeat(15), "b".repeat(15)));
    v.push(format!("{}'{}", "a".repeat(15), "b".repeat(15)));
    v.push(format!("{}!{}", "名".repeat(15), "é".repeat(15)));
    v.push("A1".into());
    v.push("XFD1048576".into());
    v.push("Sheet1".into());
    v.push("My Sheet".into());
    v.push("It's".into());
    v.into_iter().filter(|s| legal_sheet_name(s)).collect()
}

fn name_tags(n: &str) -> Vec<&'static str> {
    let mut t = vec![];
    if n.starts_with('"') || n.ends_with('"') {
        t.push("dq-edge");
    }
    if n.contains('"') {
        t.push("dq");
    }
    if n.contains('\'') {
        t.push("apostrophe");
    }
    if n.contains('!') {
        t.push("bang");
    }
    if n.contains(' ') {
        t.push("space");
    }
    if !n.is_ascii() {
        t.push("nonascii");
    }
    if n.starts_with(' ') || n.ends_with(' ') {
        t.push("space-edge");
    }
    if t.is_empty() {
        t.push("plain-name");
    }
    t
}

/// Excel quoting: wrap in single quotes, double embedded single quotes.
fn quote_name(n: &str) -> String {
    format!("'{}'", n.replace('\'', "''"))
}
/// own parser of a (possibly quoted) sheet-qualified address
fn parse_qualified(s: &str) -> Option<(String, String)> {
    let cs: Vec<char> = s.chars().collect();
    if cs.first() == Some(&'\'') {
        let mut name = String::new();
        let mut i = 1;
        loop {
            if i >= cs.len() {
                return None;
            }
            if cs[i] == '\'' {
                if i + 1 < cs.len() && cs[i + 1] == '\'' {
                    name.push('\'');
                    i += 2;
                    continue;
                }
                i += 1;
                break;
            }
            name.push(cs[i]);
            i += 1;
        }
        if i >= cs.len() || cs[i] != '!' {
            return None;
        }
        Some((name, cs[i + 1..].iter().collect()))
    } else {
        let p = s.find('!')?;
        Some((s[..p].to_string(), s[p + 1..].to_string()))
    }
}

fn name_symptom(want: &str, got: &str) -> &'static str {
    if got == want.trim_matches(&['\'', '"'][..]) {
        "edge-quote-stripped"
    } else {
        "name-changed"
    }
}

struct Addresses {
    names: Vec<String>,
}
impl Space for Addresses {
    fn len(&self) -> u64 {
        self.names.len() as u64
    }
    fn describe(&self, i: u64) -> Value {
        json!({"kind":"address","sheet_name": self.names[i as usize], "ranges": RANGE_PARTS})
    }
    fn tags(&self, i: u64) -> Vec<String> {
        name_tags(&self.names[i as usize]).iter().map(|s| s.to_string()).collect()
    }
    fn run(&self, i: u64, sink: &mut Sink) {
        let n = self.names[i as usize].clone();
        let tags = name_tags(&n);
        for r in RANGE_PARTS {
            let case = json!({"kind":"address","sheet_name": n, "range": r});
            // (a) helper split/join
            sink.evaluations += 1;
            let joined = join_address(&n, r);
            sink.obs(&joined);
            let j2 = joined.clone();
            match guarded(move || {
                let (a, b) = split_address(&j2);
                (a.to_string(), b.to_string())
            }) {
                Err(m) => sink.violations.push(Violation::new("address-split-join", &format!("panic:{}", panic_class(&m)), &tags, case.clone(), m)),
                Ok((a, b)) => {
                    if a != n {
                        sink.violations.push(Violation::new("address-split-join", name_symptom(&n, &a), &tags, case.clone(), format!("split_address(join_address({:?},{:?})) sheet = {:?}", n, r, a)));
                    }
                    if b != r {
                        sink.violations.push(Violation::new("address-split-join", "range-changed", &tags, case.clone(), format!("split_address(join_address({:?},{:?})) range = {:?}", n, r, b)));
                    }
                }
            }
            // (b) Address struct: parse the joined form, print, parse again
            sink.evaluations += 1;
            let j3 = joined.clone();
            match guarded(move || {
                let mut ad = Address::default();
                ad.set_address(j3);
                let n1 = ad.get_sheet_name().to_string();
                let r1 = ad.get_range().get_range();
                let printed = ad.get_address();
                let mut ad2 = Address::default();
                ad2.set_address(printed.clone());
                (n1, r1, printed, ad2.get_sheet_name().to_string(), ad2.get_range().get_range())
            }) {
                Err(m) => sink.violations.push(Violation::new("address-struct", &format!("panic:{}", panic_class(&m)), &tags, case.clone(), m)),
                Ok((n1, r1, printed, n2, r2)) => {
                    if n1 != n {
                        sink.violations.push(Violation::new("address-struct", name_symptom(&n, &n1), &tags, case.clone(), format!("Address::set_address({:?}) sheet = {:?}", joined, n1)));
                    } else if n2 != n {
                        sink.violations.push(Violation::new("address-struct-reparse", name_symptom(&n, &n2), &tags, case.clone(), format!("get_address() = {:?} re-parses to sheet {:?}", printed, n2)));
                    }
                    if r1 != r || r2 != r {
                        sink.violations.push(Violation::new("address-struct", "range-changed", &tags, case.clone(), format!("{:?}: range {:?} then {:?}", joined, r1, r2)));
                    }
                }
            }
            // (c) quoted form through Address::set_address (the form the writer/reader exchange): '<name with doubled quotes>'!range
            //     is parsed by DefinedName::add_address (which un-doubles first); printed form must parse back with an independent parser.
            sink.evaluations += 1;
            let q = format!("{}!{}", quote_name(&n), r);
            let q2 = q.clone();
            match guarded(move || {
                let mut dn = umya_spreadsheet::DefinedName::default();
                dn.set_address(q2);
                let p1 = dn.get_address();
                let mut dn2 = umya_spreadsheet::DefinedName::default();
                dn2.set_address(p1.clone());
                (p1, dn2.get_address())
            }) {
                Err(m) => sink.violations.push(Violation::new("defined-name-address", &format!("panic:{}", panic_class(&m)), &tags, case.clone(), m)),
                Ok((p1, p2)) => {
                    let parsed = if !p1.contains('!') { Some((String::new(), p1.clone())) } else { parse_qualified(&p1) };
                    match parsed {
                        None => sink.violations.push(Violation::new("defined-name-address", "unparseable", &tags, case.clone(), format!("{:?} printed as {:?}", q, p1))),
                        Some((pn, pr)) => {
                            if pn != n {
                                sink.violations.push(Violation::new("defined-name-address", name_symptom(&n, &pn), &tags, case.clone(), format!("{:?} printed as {:?} which designates sheet {:?}", q, p1, pn)));
                            }
                            if pr != r {
                                sink.violations.push(Violation::new("defined-name-address", "range-changed", &tags, case.clone(), format!("{:?} printed as {:?}", q, p1)));
                            }
                        }
                    }
                    if p2 != p1 {
                        sink.violations.push(Violation::new("defined-name-address", "not-idempotent", &tags, case.clone(), format!("{:?} -> {:?} -> {:?}", q, p1, p2)));
                    }
                }
            }
        }
    }
}

// ---------------------------------------------------------------------------------------------
/// Objects that are parsed into TWICE: what the first text left behind (lock flags, an end corner, a sheet name) must
/// not show through after the second one. Differential oracle: the same second text parsed into a fresh object.
const REUSE_COORDS: [&str; 12] = ["A1", "$A1", "A$1", "$A$1", "B2", "$C$7", "AA10", "$XFD$1048576", "XFD1048576", "Z$9", "$Z9", "AB12"];
const REUSE_RANGES: [&str; 12] = ["A1", "$A$1", "A1:B2", "$A$1:$B$2", "A$1:$B2", "C3:D4", "A:B", "$A:$B", "1:2", "$1:$2", "XFD1048576", "B2:B2"];
const REUSE_ADDRESSES: [&str; 8] = ["A1", "Sheet1!A1", "'My Sheet'!$A$1:$B$2", "Sheet1!A:B", "'It''s'!C3", "B2:C3", "Other!$D$4", "'a!b'!A1"];
struct Reuse;
impl Space for Reuse {
    fn len(&self) -> u64 {
        (REUSE_COORDS.len() * REUSE_COORDS.len() + REUSE_RANGES.len() * REUSE_RANGES.len() + REUSE_ADDRESSES.len() * REUSE_ADDRESSES.len()) as u64
    }
    fn describe(&self, i: u64) -> Value {
        let (kind, a, b) = Self::locate(i);
        json!({"kind": "object-parsed-into-twice", "object": kind, "first": a, "second": b})
    }
    fn tags(&self, i: u64) -> Vec<String> {
        vec![format!("reuse:{}", Self::locate(i).0)]
    }
    fn run(&self, i: u64, sink: &mut Sink) {
        let (kind, a, b) = Self::locate(i);
        let tag = format!("reuse:{}", kind);
        let tags = [tag.as_str()];
        let case = self.describe(i);
        sink.evaluations += 1;
        let r = guarded(move || match kind {
            "Coordinate" => {
                let show = |c: &Coordinate| format!("{} col={} row={} lock=({},{})", c.to_string(), c.get_col_num(), c.get_row_num(), c.get_is_lock_col(), c.get_is_lock_row());
                let mut x = Coordinate::default();
                x.set_coordinate(a);
                x.set_coordinate(b);
                let mut f = Coordinate::default();
                f.set_coordinate(b);
                (show(&x), show(&f))
            }
            "Range" => {
                let show = |r: &Range| {
                    format!(
                        "{} {:?} {:?} {:?} {:?}",
                        r.get_range(),
                        r.get_coordinate_start_col().map(|c| (*c.get_num(), *c.get_is_lock())),
                        r.get_coordinate_start_row().map(|c| (*c.get_num(), *c.get_is_lock())),
                        r.get_coordinate_end_col().map(|c| (*c.get_num(), *c.get_is_lock())),
                        r.get_coordinate_end_row().map(|c| (*c.get_num(), *c.get_is_lock()))
                    )
                };
                let mut x = Range::default();
                x.set_range(a);
                x.set_range(b);
                let mut f = Range::default();
                f.set_range(b);
                (show(&x), show(&f))
            }
            _ => {
                // Address: a text without a sheet part keeps the sheet the object already has (that is how the API
                // scopes an unqualified address), so the differential twin gets the first text's sheet name as well
                let show = |x: &Address| format!("{} sheet={:?} range={}", x.get_address(), x.get_sheet_name(), x.get_range().get_range());
                let mut x = Address::default();
                x.set_address(a);
                let kept = x.get_sheet_name().to_string();
                x.set_address(b);
                let mut f = Address::default();
                if !b.contains('!') {
                    f.set_sheet_name(kept);
                }
                f.set_address(b);
                (show(&x), show(&f))
            }
        });
        match r {
            Err(m) => sink.violations.push(Violation::new("object-reuse", &format!("panic:{}", panic_class(&m)), &tags, case, m)),
            Ok((reused, fresh)) => {
                sink.obs(&reused);
                if reused != fresh {
                    sink.violations.push(Violation::new("object-reuse", "first-parse-shows-through", &tags, case, format!("{} parsed {:?} then {:?}: {} - a fresh object given {:?}: {}", kind, a, b, reused, b, fresh)));
                }
            }
        }
    }
}
impl Reuse {
    fn locate(i: u64) -> (&'static str, &'static str, &'static str) {
        let nc = (REUSE_COORDS.len() * REUSE_COORDS.len()) as u64;
        let nr = (REUSE_RANGES.len() * REUSE_RANGES.len()) as u64;
        if i < nc {
            ("Coordinate", REUSE_COORDS[(i / REUSE_COORDS.len() as u64) as usize], REUSE_COORDS[(i % REUSE_COORDS.len() as u64) as usize])
        } else if i < nc + nr {
            let j = i - nc;
            ("Range", REUSE_RANGES[(j / REUSE_RANGES.len() as u64) as usize], REUSE_RANGES[(j % REUSE_RANGES.len() as u64) as usize])
        } else {
            let j = i - nc - nr;
            ("Address", REUSE_ADDRESSES[(j / REUSE_ADDRESSES.len() as u64) as usize], REUSE_ADDRESSES[(j % REUSE_ADDRESSES.len() as u64) as usize])
        }
    }
}

// ---------------------------------------------------------------------------------------------
/// A Range that lives inside a sheet (merged range, conditional-format range, auto filter) is printed, the sheet is
/// edited so that the range moves, and it is printed again: at every moment the printed text must parse to the corners
/// the getters report (a text computed earlier must not be served again).
const HIST_RANGES: [&str; 6] = ["B2", "B2:C3", "$B$2:$C$3", "E4:F5", "C:D", "3:4"];
const HIST_EDITS: [&str; 6] = ["insert-row-1x2", "insert-column-1x3", "remove-row-1x1", "remove-column-1x1", "insert-row-then-column", "none"];
struct RangeHistory;
impl RangeHistory {
    fn locate(i: u64) -> (&'static str, &'static str, &'static str) {
        let carriers = ["merge", "cond-format", "auto-filter"];
        let c = carriers[(i % 3) as usize];
        let r = HIST_RANGES[((i / 3) % HIST_RANGES.len() as u64) as usize];
        let e = HIST_EDITS[(i / 3 / HIST_RANGES.len() as u64) as usize];
        (c, r, e)
    }
}
impl Space for RangeHistory {
    fn len(&self) -> u64 {
        (3 * HIST_RANGES.len() * HIST_EDITS.len()) as u64
    }
    fn describe(&self, i: u64) -> Value {
        let (c, r, e) = Self::locate(i);
        json!({"kind": "range-printed-edited-printed", "carrier": c, "range": r, "edit": e})
    }
    fn tags(&self, i: u64) -> Vec<String> {
        let (c, _, e) = Self::locate(i);
        vec![format!("range-history:{}", c), format!("edit:{}", e)]
    }
    fn run(&self, i: u64, sink: &mut Sink) {
        let (carrier, range, edit) = Self::locate(i);
        let tl = self.tags(i);
        let tags: Vec<&str> = tl.iter().map(|s| s.as_str()).collect();
        let case = self.describe(i);
        sink.evaluations += 1;
        // (printed text, corners as the getters report them) before and after the edit
        fn look(ws: &umya_spreadsheet::Worksheet, carrier: &str) -> Option<(String, String)> {
            let show = |r: &Range| {
                let part = |n: Option<u32>, l: Option<bool>, col: bool| match (n, l) {
                    (Some(n), Some(l)) => format!("{}{}", if l { "$" } else { "" }, if col { b26(n) } else { n.to_string() }),
                    _ => String::new(),
                };
                let sc = r.get_coordinate_start_col();
                let sr = r.get_coordinate_start_row();
                let ec = r.get_coordinate_end_col();
                let er = r.get_coordinate_end_row();
                let a = format!("{}{}", part(sc.map(|c| *c.get_num()), sc.map(|c| *c.get_is_lock()), true), part(sr.map(|c| *c.get_num()), sr.map(|c| *c.get_is_lock()), false));
                let b = format!("{}{}", part(ec.map(|c| *c.get_num()), ec.map(|c| *c.get_is_lock()), true), part(er.map(|c| *c.get_num()), er.map(|c| *c.get_is_lock()), false));
                let from_corners = if b.is_empty() { a } else { format!("{}:{}", a, b) };
                (r.get_range(), from_corners)
            };
            match carrier {
                "merge" => ws.get_merge_cells().first().map(show),
                "cond-format" => ws.get_conditional_formatting_collection().first().and_then(|cf| cf.get_sequence_of_references().get_range_collection().first().map(show)),
                _ => ws.get_auto_filter().map(|f| show(f.get_range())),
            }
        }
        let r = guarded(move || {
            let mut book = umya_spreadsheet::new_file();
            let ws = book.get_sheet_mut(&0).unwrap();
            match carrier {
                "merge" => {
                    ws.add_merge_cells(range);
                }
                "cond-format" => {
                    let mut cf = umya_spreadsheet::ConditionalFormatting::default();
                    let mut sq = umya_spreadsheet::SequenceOfReferences::default();
                    sq.set_sqref(range);
                    cf.set_sequence_of_references(sq);
                    ws.add_conditional_formatting_collection(cf);
                }
                _ => ws.set_auto_filter(range),
            }
            let before = look(ws, carrier);
            match edit {
                "insert-row-1x2" => ws.insert_new_row(&1, &2),
                "insert-column-1x3" => ws.insert_new_column_by_index(&1, &3),
                "remove-row-1x1" => ws.remove_row(&1, &1),
                "remove-column-1x1" => ws.remove_column_by_index(&1, &1),
                "insert-row-then-column" => {
                    ws.insert_new_row(&2, &1);
                    let _ = look(ws, carrier);
                    ws.insert_new_column_by_index(&2, &1);
                }
                _ => {}
            }
            (before, look(ws, carrier))
        });
        match r {
            Err(m) => sink.violations.push(Violation::new("range-prints-its-corners", &format!("panic:{}", panic_class(&m)), &tags, case, m)),
            Ok((before, after)) => {
                for (when, x) in [("before the edit", before), ("after the edit", after)] {
                    if let Some((printed, from_corners)) = x {
                        sink.obs(&printed);
                        if printed != from_corners {
                            sink.violations.push(Violation::new("range-prints-its-corners", "printed-text-is-not-the-corners", &tags, case.clone(), format!("{} range given {:?}, {}: get_range() prints {:?} while the corner getters spell {:?}", carrier, range, when, printed, from_corners)));
                        }
                    }
                }
            }
        }
    }
}

// ---------------------------------------------------------------------------------------------
pub fn space(tier: Tier, id: &str) -> Option<Box<dyn Space>> {
    if let Some(r) = reversed_of(id, |base| space(tier, base)) {
        return r;
    }
    if let Some(r) = concurrent_of(id, |base| space(tier, base)) {
        return r;
    }
    match id {
        "columns" => Some(Box::new(Cols)),
        "grid" => Some(Box::new(Grid { thorough: tier == Tier::Thorough })),
        "ranges" => Some(Box::new(Ranges { cases: range_cases() })),
        "addresses" => Some(Box::new(Addresses { names: sheet_names() })),
        "reuse" => Some(Box::new(Reuse)),
        "range-history" => Some(Box::new(RangeHistory)),
        _ => None,
    }
}

fn replay(tier: Tier, case: &Value) -> Vec<Violation> {
    replay_e1(space(tier, case["_space"].as_str().unwrap_or("")), case)
}

fn run(ctx: &Ctx) -> i32 {
    let ids = ["columns", "grid", "ranges", "addresses", "reuse", "range-history", "columns~rev", "grid~rev", "ranges~rev", "addresses~rev", "columns~par", "ranges~par", "addresses~par", "reuse~par"];
    let spaces = ids.iter().map(|id| (*id, space(ctx.tier, id).unwrap())).collect();
    let thorough = ctx.tier == Tier::Thorough;
    run_e1(
        ctx,
        E1Spec {
            spaces,
            cfg: PoolCfg { chunk: 4, case_timeout: std::time::Duration::from_secs(60), ..Default::default() },
            level: "exploration",
            rule: "complete enumeration of the finite codec domains: all 16384 column indices and all 18278 one-to-three-letter names (upper and lower case) against an independent bijective base-26 numeral; every row 1..1048576 crossed with columns and $-lock patterns (see bounds); every range shape over corner set {1,2,26,27,16384}x{1,2,1048576} with all lock patterns; every legal sheet name of <=3 atoms (+ boundary names) x 4 range parts through helper::address, Address and DefinedName; (reuse) every ordered pair of 12 coordinate / 12 range / 8 address texts parsed into the SAME Coordinate / Range / Address object, compared with the second text parsed into a fresh object. distinct_nontrivial = number of distinct printed strings (columns, names, ranges, joined addresses; for the grid only the unlocked column-A coordinate of each row is hashed)".into(),
            alphabets: json!({"columns": MAXC, "names": 18278*2, "rows": MAXR, "grid_columns": COLSET, "lock_patterns": 4, "range_cases": range_cases().len(), "sheet_name_atoms": ATOMS, "sheet_names": sheet_names().len(), "range_parts": RANGE_PARTS}),
            bounds: json!({"grid": if thorough {"all rows x 7 boundary columns x 4 lock patterns"} else {"all rows x 4 (column,lock) combinations; full 7x4 product at boundary rows"}, "sheet_name_atoms_max": 3}),
            exhaustive: true,
            caps_hit: vec![],
            assumptions: vec!["legal sheet names: 1..31 chars, none of : \\ / ? * [ ], not starting or ending with an apostrophe".into(), "sheet names longer than 3 atoms are covered only by five 31-character boundary names".into()],
            min_distinct: 1000,
        },
    )
}
