//! C05 — styles and dimensions survive save/reload; interning never merges different styles.
use crate::common::*;
use crate::dump::*;
use crate::e1::*;
use crate::pool::*;
use crate::pyref::with_py;
use serde_json::{json, Map, Value};
use umya_spreadsheet::*;

pub fn entry() -> crate::Entry {
    crate::Entry { id: "C05", run, space, replay }
}

/// (attribute, number of non-base values)
pub const ATTRS: [(&str, usize); 20] = [
    ("font-name", 3), ("font-size", 3), ("bold", 2), ("italic", 1), ("strike", 1), ("underline", 2), ("font-color", 9), ("fill", 6),
    ("border-left", 5), ("border-right", 3), ("border-top", 3), ("border-bottom", 3), ("border-diagonal", 3),
    ("h-align", 2), ("v-align", 2), ("wrap", 1), ("rotation", 5), ("numfmt", 6), ("locked", 2), ("hidden", 1),
];

fn set_border(b: &mut Border, k: usize) {
    match k {
        3 | 4 => {
            // thin + red as value 2, differing only in tint
            b.set_border_style("thin");
            b.get_color_mut().set_argb("FFFF0000");
            b.get_color_mut().set_tint(if k == 3 { 0.8 } else { -0.3 });
        }
        0 => {
            b.set_border_style("thin");
        }
        1 => {
            b.set_border_style("thick");
        }
        _ => {
            b.set_border_style("thin");
            b.get_color_mut().set_argb("FFFF0000");
        }
    }
}

pub fn apply_var(s: &mut Style, attr: usize, k: usize) {
    match attr {
        0 => {
            s.get_font_mut().set_name(["Arial", "Arial1", "MS Gothic"][k]);
        }
        1 => {
            s.get_font_mut().set_size([1.0, 11.5, 1.5][k]);
        }
        2 => {
            s.get_font_mut().set_bold(k == 0);
        }
        3 => {
            s.get_font_mut().set_italic(true);
        }
        4 => {
            s.get_font_mut().set_strikethrough(true);
        }
        5 => {
            s.get_font_mut().set_underline(["single", "double"][k]);
        }
        6 => {
            let c = s.get_font_mut().get_color_mut();
            match k {
                0 => {
                    c.set_argb("FFFF0000");
                }
                1 => {
                    c.set_argb("FF123456");
                }
                2 => {
                    c.set_theme_index(4);
                }
                3 => {
                    c.set_theme_index(11);
                }
                4 => {
                    c.set_indexed(11);
                }
                5 => {
                    c.set_theme_index(4);
                    c.set_tint(0.5);
                }
                // near-duplicates that differ only in the tint of a NON-theme colour
                6 => {
                    c.set_argb("FF123456");
                    c.set_tint(0.4);
                }
                7 => {
                    c.set_argb("FF123456");
                    c.set_tint(-0.25);
                }
                _ => {
                    c.set_indexed(11);
                    c.set_tint(0.4);
                }
            }
        }
        7 => match k {
            0 => {
                s.set_background_color("FFFFFF00");
            }
            1 => {
                let pf = s.get_fill_mut().get_pattern_fill_mut();
                pf.set_pattern_type(PatternValues::Solid);
                pf.get_foreground_color_mut().set_argb("FF112233");
                pf.get_background_color_mut().set_argb("FF445566");
            }
            2 => {
                s.get_fill_mut().get_pattern_fill_mut().set_pattern_type(PatternValues::Gray125);
            }
            4 | 5 => {
                // same solid colour as value 0, differing only in tint
                let pf = s.get_fill_mut().get_pattern_fill_mut();
                pf.set_pattern_type(PatternValues::Solid);
                pf.get_foreground_color_mut().set_argb("FFFFFF00");
                pf.get_foreground_color_mut().set_tint(if k == 4 { 0.6 } else { -0.5 });
            }
            _ => {
                let gf = s.get_fill_mut().get_gradient_fill_mut();
                gf.set_degree(90.0);
                let mut g1 = GradientStop::default();
                g1.set_position(0.0);
                g1.get_color_mut().set_argb("FF112233");
                let mut g2 = GradientStop::default();
                g2.set_position(1.0);
                g2.get_color_mut().set_argb("FF445566");
                gf.set_gradient_stop(g1);
                gf.set_gradient_stop(g2);
            }
        },
        8 => set_border(s.get_borders_mut().get_left_mut(), k),
        9 => set_border(s.get_borders_mut().get_right_mut(), k),
        10 => set_border(s.get_borders_mut().get_top_mut(), k),
        11 => set_border(s.get_borders_mut().get_bottom_mut(), k),
        12 => {
            set_border(s.get_borders_mut().get_diagonal_mut(), k);
            s.get_borders_mut().set_diagonal_down(true);
        }
        13 => s.get_alignment_mut().set_horizontal([HorizontalAlignmentValues::Left, HorizontalAlignmentValues::Center][k].clone()),
        14 => s.get_alignment_mut().set_vertical([VerticalAlignmentValues::Top, VerticalAlignmentValues::Center][k].clone()),
        15 => s.get_alignment_mut().set_wrap_text(true),
        16 => s.get_alignment_mut().set_text_rotation([1, 45, 90, 180, 255][k]),
        17 => {
            s.get_numbering_format_mut().set_format_code(["0.00", "0.000", "#,##0", "yyyy-mm-dd", "0.0\"x\"", "0.0\"y\""][k]);
        }
        18 => s.get_protection_mut().set_locked(k == 1),
        _ => s.get_protection_mut().set_hidden(true),
    }
}

pub type Spec = Vec<(usize, usize)>;

pub fn make_style(spec: &Spec) -> Style {
    let mut s = Style::default();
    for (a, k) in spec {
        apply_var(&mut s, *a, *k);
    }
    s
}
pub fn spec_json(spec: &Spec) -> Value {
    json!(spec.iter().map(|(a, k)| format!("{}#{}", ATTRS[*a].0, k)).collect::<Vec<_>>())
}
pub fn spec_tags(spec: &Spec) -> Vec<String> {
    let mut t: Vec<String> = spec.iter().map(|(a, _)| format!("a:{}", ATTRS[*a].0)).collect();
    if spec.is_empty() {
        t.push("a:none".into());
    }
    t
}

pub fn sigma1() -> Vec<Spec> {
    let mut v = vec![vec![]];
    for (a, (_, n)) in ATTRS.iter().enumerate() {
        for k in 0..*n {
            v.push(vec![(a, k)]);
        }
    }
    v
}
pub fn sigma2() -> Vec<Spec> {
    let mut v = vec![];
    for (a, (_, n)) in ATTRS.iter().enumerate() {
        for k in 0..*n {
            for (b, (_, m)) in ATTRS.iter().enumerate().skip(a + 1) {
                for j in 0..*m {
                    v.push(vec![(a, k), (b, j)]);
                }
            }
        }
    }
    v
}
/// near-duplicates whose interning keys would collide if fields were concatenated without separators
pub fn collision_family() -> Vec<Spec> {
    vec![
        vec![(0, 0)],         // Arial + (default size 11)
        vec![(0, 1), (1, 0)], // Arial1 + size 1
        vec![(1, 1)],         // size 11.5
        vec![(1, 2)],         // size 1.5
        vec![(0, 0), (1, 2)], // Arial + 1.5
        vec![(0, 1), (1, 2)], // Arial1 + 1.5
        vec![(6, 3)],         // theme 11
        vec![(6, 4)],         // indexed 11
        vec![(16, 0)],        // rotation 1
        vec![(16, 1)],        // rotation 45
        vec![(16, 3)],        // rotation 180 (the largest angle)
        vec![(16, 4)],        // rotation 255 (the sentinel "stacked vertical text")
        vec![(15, 0), (16, 0)],
    ]
}

// ------------------------------------------------------------------------------------------------
// effective projection

const COMPONENTS: [&str; 6] = ["font", "fill", "borders", "alignment", "numfmt", "protection"];

/// Replace every `null` component by the calibrated default of that component.
fn effective(p: &Value, defaults: &Map<String, Value>) -> Value {
    let mut m = p.as_object().cloned().unwrap_or_default();
    for c in COMPONENTS {
        if m.get(c).map(|v| v.is_null()).unwrap_or(true) {
            m.insert(c.to_string(), defaults.get(c).cloned().unwrap_or(Value::Null));
        }
    }
    Value::Object(m)
}

/// A sheet that carries `specs[i]` on cell (col 2, row i+1) plus two control cells used to calibrate what
/// "component never set" looks like after a reload (differential oracle, no hand-written expectation).
fn build_style_book(specs: &[Spec]) -> Spreadsheet {
    let mut b = new_file();
    let ws = b.get_sheet_mut(&0).unwrap();
    // control 1: only a number format -> its font/fill/borders/alignment/protection are the defaults
    let mut c1 = Style::default();
    c1.get_numbering_format_mut().set_format_code("0.0000");
    ws.get_cell_mut("A1").set_value_number(1).set_style(c1);
    // control 2: only a fill -> its number format is the default
    let mut c2 = Style::default();
    c2.set_background_color("FF00FFFF");
    ws.get_cell_mut("A2").set_value_number(2).set_style(c2);
    for (i, sp) in specs.iter().enumerate() {
        let c = ws.get_cell_mut((2u32, i as u32 + 1));
        c.set_value_number(i as f64);
        c.set_style(make_style(sp));
    }
    b
}

fn calibrate(ws: &Worksheet) -> Map<String, Value> {
    let mut d = Map::new();
    let p1 = style_p(ws.get_style("A1"));
    let p2 = style_p(ws.get_style("A2"));
    for c in ["font", "fill", "borders", "alignment", "protection"] {
        d.insert(c.to_string(), p1[c].clone());
    }
    d.insert("numfmt".into(), p2["numfmt"].clone());
    // fonts: a control that has no font component at all
    d.insert("font".into(), p2["font"].clone());
    d.insert("fill".into(), p1["fill"].clone());
    d
}

fn component_symptom(pre: &Value, post: &Value) -> String {
    for c in COMPONENTS {
        if pre[c] != post[c] {
            if let Some((path, _, _)) = first_diff(&pre[c], &post[c]) {
                let leaf = path.trim_start_matches('/').replace(|ch: char| ch.is_ascii_digit(), "");
                return format!("{}:{}", c, if leaf.is_empty() { "whole".to_string() } else { leaf });
            }
            return c.to_string();
        }
    }
    "unknown".into()
}

fn check_style_book(specs: &[Spec], light: bool, base_tags: &[String], case: &Value, sink: &mut Sink, attribute_tags_per_cell: bool) {
    let b = build_style_book(specs);
    sink.evaluations += 1;
    let pre: Vec<Value> = {
        let ws = b.get_sheet(&0).unwrap();
        (0..specs.len()).map(|i| style_p(ws.get_style((2u32, i as u32 + 1)))).collect()
    };
    let (bytes, b2) = match roundtrip(&b, light) {
        Ok(x) => x,
        Err(e) => {
            let tg: Vec<&str> = base_tags.iter().map(|s| s.as_str()).collect();
            sink.violations.push(Violation::new("roundtrip-succeeds", &format!("failed:{}", panic_class(&e)), &tg, case.clone(), e));
            return;
        }
    };
    let ws2 = b2.get_sheet(&0).unwrap();
    let defaults = calibrate(ws2);
    let post: Vec<Value> = (0..specs.len()).map(|i| style_p(ws2.get_style((2u32, i as u32 + 1)))).collect();
    let pre_e: Vec<Value> = pre.iter().map(|p| effective(p, &defaults)).collect();
    let post_e: Vec<Value> = post.iter().map(|p| effective(p, &defaults)).collect();
    let mut reported = std::collections::BTreeSet::new();
    for i in 0..specs.len() {
        sink.hashes.push(fnv(post_e[i].to_string().as_bytes()));
        if pre_e[i] != post_e[i] {
            // did it become some other cell's style ?
            let merged = (0..specs.len()).find(|j| *j != i && pre_e[*j] != pre_e[i] && post_e[i] == pre_e[*j]);
            let sym = match merged {
                Some(_) => format!("merged-into-other-style:{}", component_symptom(&pre_e[i], &post_e[i]).split(':').next().unwrap_or("")),
                None => format!("changed:{}", component_symptom(&pre_e[i], &post_e[i])),
            };
            let mut tags: Vec<String> = if attribute_tags_per_cell { spec_tags(&specs[i]) } else { base_tags.to_vec() };
            if let Some(j) = merged {
                if attribute_tags_per_cell {
                    tags.extend(spec_tags(&specs[j]));
                }
            }
            tags.extend(base_tags.iter().filter(|t| t.starts_with("light") || t.starts_with("order")).cloned());
            tags.sort();
            tags.dedup();
            if reported.insert((sym.clone(), tags.clone())) {
                let tg: Vec<&str> = tags.iter().map(|s| s.as_str()).collect();
                let d = first_diff(&pre_e[i], &post_e[i]).map(|(p, l, r)| format!("{}: given {} reloaded {}", p, l, r)).unwrap_or_default();
                sink.violations.push(Violation::new(
                    "style-preserved",
                    &sym,
                    &tg,
                    json!({"case": case, "cell_index": i, "style": spec_json(&specs[i]), "merged_with": merged.map(|j| spec_json(&specs[j]))}),
                    format!("cell #{} style {}: {}", i, spec_json(&specs[i]), d),
                ));
            }
        }
    }
    // distinctness independent of the per-cell comparison (covers the None->default equivalence)
    for i in 0..specs.len().min(400) {
        for j in (i + 1)..specs.len().min(400) {
            if pre_e[i] != pre_e[j] && post_e[i] == post_e[j] && pre_e[i] == post_e[i] {
                // j collapsed onto i without i changing: already reported through j's mismatch
                continue;
            }
        }
    }
    // generations: tables must not grow from gen2 to gen3
    if let Ok((bytes3, b3)) = roundtrip(&b2, light) {
        if let Ok((bytes4, _)) = roundtrip(&b3, light) {
            let t3 = with_py(|py| py.decode(&bytes3, false))["tables"].clone();
            let t4 = with_py(|py| py.decode(&bytes4, false))["tables"].clone();
            let mut a = t3.clone();
            let mut c = t4.clone();
            if let (Some(x), Some(y)) = (a.as_object_mut(), c.as_object_mut()) {
                x.remove("sst");
                y.remove("sst");
            }
            if a != c {
                let tg: Vec<&str> = base_tags.iter().map(|s| s.as_str()).collect();
                sink.violations.push(Violation::new("tables-stable", "style-tables-grow", &tg, case.clone(), format!("gen2 tables {} gen3 tables {}", t3, t4)));
            }
        }
    }
    let _ = bytes;
}

// ------------------------------------------------------------------------------------------------
struct PairsSpace {
    s1: Vec<Spec>,
}
impl Space for PairsSpace {
    fn len(&self) -> u64 {
        (self.s1.len() * self.s1.len()) as u64
    }
    fn describe(&self, i: u64) -> Value {
        let n = self.s1.len() as u64;
        json!({"kind":"style-pair","first": spec_json(&self.s1[(i / n) as usize]), "second": spec_json(&self.s1[(i % n) as usize]), "light": i % 2 == 1})
    }
    fn tags(&self, i: u64) -> Vec<String> {
        let n = self.s1.len() as u64;
        let mut t = spec_tags(&self.s1[(i / n) as usize]);
        t.extend(spec_tags(&self.s1[(i % n) as usize]));
        t.sort();
        t.dedup();
        t
    }
    fn run(&self, i: u64, sink: &mut Sink) {
        let n = self.s1.len() as u64;
        let specs = vec![self.s1[(i / n) as usize].clone(), self.s1[(i % n) as usize].clone()];
        let mut tags = self.tags(i);
        if i % 2 == 1 {
            tags.push("light-writer".into());
        }
        check_style_book(&specs, i % 2 == 1, &tags, &self.describe(i), sink, true);
    }
}

struct AllAtOnce {
    sets: Vec<(&'static str, Vec<Spec>)>,
}
impl Space for AllAtOnce {
    fn len(&self) -> u64 {
        self.sets.len() as u64 * 2
    }
    fn describe(&self, i: u64) -> Value {
        let (n, s) = &self.sets[(i / 2) as usize];
        json!({"kind":"all-at-once","set": n, "styles": s.len(), "order": if i % 2 == 0 {"forward"} else {"reverse"}})
    }
    fn tags(&self, i: u64) -> Vec<String> {
        vec![format!("set:{}", self.sets[(i / 2) as usize].0), format!("order:{}", if i % 2 == 0 { "forward" } else { "reverse" })]
    }
    fn run(&self, i: u64, sink: &mut Sink) {
        let mut specs = self.sets[(i / 2) as usize].1.clone();
        if i % 2 == 1 {
            specs.reverse();
        }
        check_style_book(&specs, false, &self.tags(i), &self.describe(i), sink, true);
    }
}

/// column / row runs: every assignment of 5 states to columns 1..5 (3125) and to rows 1..3 (125)
struct Dims;
fn dim_style(k: u64) -> Option<Style> {
    match k {
        2 => Some(make_style(&vec![(2, 0)])),
        3 => Some(make_style(&vec![(7, 0)])),
        _ => None,
    }
}
impl Space for Dims {
    fn len(&self) -> u64 {
        3125 + 125
    }
    fn describe(&self, i: u64) -> Value {
        if i < 3125 {
            json!({"kind":"column-runs","states(col1..5)": (0..5).map(|c| (i / 5u64.pow(c as u32)) % 5).collect::<Vec<_>>(), "legend": "0 absent, 1 width 20, 2 bold style, 3 fill style + width 20 + hidden, 4 hidden only"})
        } else {
            let j = i - 3125;
            json!({"kind":"row-runs","states(row1..3)": (0..3).map(|c| (j / 5u64.pow(c as u32)) % 5).collect::<Vec<_>>(), "legend": "0 absent, 1 height 30, 2 bold style, 3 fill style + height 30 + hidden, 4 hidden only"})
        }
    }
    fn tags(&self, i: u64) -> Vec<String> {
        vec![if i < 3125 { "columns".into() } else { "rows".into() }]
    }
    fn run(&self, i: u64, sink: &mut Sink) {
        let tl = self.tags(i);
        let tg: Vec<&str> = tl.iter().map(|s| s.as_str()).collect();
        let case = self.describe(i);
        let mut b = new_file();
        let ws = b.get_sheet_mut(&0).unwrap();
        ws.get_cell_mut("A1").set_value_number(1);
        ws.get_cell_mut("F4").set_value_number(2);
        if i < 3125 {
            for c in 0..5u32 {
                let st = (i / 5u64.pow(c)) % 5;
                if st == 0 {
                    continue;
                }
                let col = ws.get_column_dimension_by_number_mut(&(c + 1));
                if st == 1 || st == 3 {
                    col.set_width(20.0);
                }
                if st == 3 || st == 4 {
                    col.set_hidden(true);
                }
                if let Some(s) = dim_style(st) {
                    col.set_style(s);
                }
            }
        } else {
            let j = i - 3125;
            for r in 0..3u32 {
                let st = (j / 5u64.pow(r)) % 5;
                if st == 0 {
                    continue;
                }
                let row = ws.get_row_dimension_mut(&(r + 1));
                if st == 1 || st == 3 {
                    row.set_height(30.0);
                    row.set_custom_height(true);
                }
                if st == 3 || st == 4 {
                    row.set_hidden(true);
                }
                if let Some(s) = dim_style(st) {
                    row.set_style(s);
                }
            }
        }
        sink.evaluations += 1;
        let (_, b2) = match roundtrip(&b, i % 2 == 1) {
            Ok(x) => x,
            Err(e) => {
                sink.violations.push(Violation::new("roundtrip-succeeds", &format!("failed:{}", panic_class(&e)), &tg, case, e));
                return;
            }
        };
        let ws1 = b.get_sheet(&0).unwrap();
        let ws2 = b2.get_sheet(&0).unwrap();
        let empty = Map::new();
        let proj_col = |ws: &Worksheet, c: u32| -> Value {
            match ws.get_column_dimension_by_number(&c) {
                Some(col) => json!({"width": f64v(*col.get_width()), "hidden": col.get_hidden(), "style": effective(&style_p(col.get_style()), &empty)}),
                None => {
                    let col = Column::default();
                    json!({"width": f64v(*col.get_width()), "hidden": col.get_hidden(), "style": effective(&style_p(col.get_style()), &empty)})
                }
            }
        };
        let proj_row = |ws: &Worksheet, r: u32| -> Value {
            match ws.get_row_dimension(&r) {
                Some(row) => json!({"height": f64v(*row.get_height()), "hidden": row.get_hidden(), "style": effective(&style_p(row.get_style()), &empty)}),
                None => {
                    let row = Row::default();
                    json!({"height": f64v(*row.get_height()), "hidden": row.get_hidden(), "style": effective(&style_p(row.get_style()), &empty)})
                }
            }
        };
        let mut obs = String::new();
        if i < 3125 {
            for c in 1..=7u32 {
                let (p, q) = (proj_col(ws1, c), proj_col(ws2, c));
                obs.push_str(&q.to_string());
                // style: only components that were given must survive (None == default)
                let given = style_p(ws1.get_column_dimension_by_number(&c).map(|x| x.get_style().clone()).unwrap_or_default().as_ref_style());
                let mut bad = p["width"] != q["width"] || p["hidden"] != q["hidden"];
                let mut what = if p["width"] != q["width"] { "width" } else { "hidden" }.to_string();
                for comp in COMPONENTS {
                    if !given[comp].is_null() && p["style"][comp] != q["style"][comp] {
                        bad = true;
                        what = format!("style:{}", comp);
                    }
                }
                if bad {
                    sink.violations.push(Violation::new("column-preserved", &format!("column-{}-changed", what), &tg, case.clone(), format!("column {}: given {} reloaded {}", c, p, q)));
                    break;
                }
            }
        } else {
            for r in 1..=5u32 {
                let (p, q) = (proj_row(ws1, r), proj_row(ws2, r));
                obs.push_str(&q.to_string());
                let given = style_p(ws1.get_row_dimension(&r).map(|x| x.get_style().clone()).unwrap_or_default().as_ref_style());
                let mut bad = p["height"] != q["height"] || p["hidden"] != q["hidden"];
                let mut what = if p["height"] != q["height"] { "height" } else { "hidden" }.to_string();
                for comp in COMPONENTS {
                    if !given[comp].is_null() && p["style"][comp] != q["style"][comp] {
                        bad = true;
                        what = format!("style:{}", comp);
                    }
                }
                if bad {
                    sink.violations.push(Violation::new("row-preserved", &format!("row-{}-changed", what), &tg, case.clone(), format!("row {}: given {} reloaded {}", r, p, q)));
                    break;
                }
            }
        }
        sink.obs(&obs);
    }
}

/// style objects that travel between workbooks: a cell style read back from workbook T (so it carries T's table
/// ids) is given to a cell of workbook R, whose own tables assign the same ids to different components
struct Transfer {
    s1: Vec<Spec>,
}
impl Space for Transfer {
    fn len(&self) -> u64 {
        self.s1.len() as u64
    }
    fn describe(&self, i: u64) -> Value {
        json!({"kind":"style-transfer","style": spec_json(&self.s1[i as usize]), "history": "T: cell with style S, save+reload; R: cells with two other custom styles, save+reload; R.B5 := T's reloaded style; save+reload R"})
    }
    fn tags(&self, i: u64) -> Vec<String> {
        let mut t = spec_tags(&self.s1[i as usize]);
        t.push("transfer-between-workbooks".into());
        t
    }
    fn run(&self, i: u64, sink: &mut Sink) {
        let tags = self.tags(i);
        let tg: Vec<&str> = tags.iter().map(|s| s.as_str()).collect();
        let case = self.describe(i);
        sink.evaluations += 1;
        // T
        let mut t = new_file();
        t.get_sheet_mut(&0).unwrap().get_cell_mut("C1").set_value_number(1).set_style(make_style(&self.s1[i as usize]));
        {
            // control cells (same convention as build_style_book): what "never set" looks like after a reload
            let ws = t.get_sheet_mut(&0).unwrap();
            let mut c1 = Style::default();
            c1.get_numbering_format_mut().set_format_code("0.0000");
            ws.get_cell_mut("A1").set_value_number(1).set_style(c1);
            let mut c2 = Style::default();
            c2.set_background_color("FF00FFFF");
            ws.get_cell_mut("A2").set_value_number(2).set_style(c2);
        }
        // R: occupies the first custom ids of every table with OTHER components
        let mut r = new_file();
        {
            let ws = r.get_sheet_mut(&0).unwrap();
            let mut a = Style::default();
            a.get_numbering_format_mut().set_format_code("yyyy\"-Q\"q");
            a.get_font_mut().set_name("Courier New");
            a.set_background_color("FF00FF00");
            a.get_borders_mut().get_top_mut().set_border_style("double");
            ws.get_cell_mut("A1").set_value_number(1).set_style(a);
            let mut b = Style::default();
            b.get_numbering_format_mut().set_format_code("0.0E+00");
            b.get_font_mut().set_size(20.0);
            ws.get_cell_mut("A2").set_value_number(2).set_style(b);
        }
        let run = || -> Result<(Value, Value), String> {
            let (_, t2) = roundtrip(&t, false)?;
            let (_, mut r2) = roundtrip(&r, false)?;
            let defaults = calibrate(t2.get_sheet(&0).unwrap());
            let st = t2.get_sheet(&0).unwrap().get_style("C1").clone();
            let given = effective(&style_p(&st), &defaults);
            r2.get_sheet_mut(&0).unwrap().get_cell_mut("B5").set_value_number(5).set_style(st);
            let (_, r3) = roundtrip(&r2, false)?;
            Ok((given, effective(&style_p(r3.get_sheet(&0).unwrap().get_style("B5")), &defaults)))
        };
        match run() {
            Err(e) => sink.violations.push(Violation::new("roundtrip-succeeds", &format!("failed:{}", panic_class(&e)), &tg, case, e)),
            Ok((given, got)) => {
                sink.obs(&got.to_string());
                // effective projections (a component never set == the default component of new_file workbooks)
                if given != got {
                    let d = first_diff(&given, &got).map(|(p, l, r)| format!("{}: given {} reloaded {}", p, l, r)).unwrap_or_default();
                    sink.violations.push(Violation::new("style-preserved", &format!("changed-after-transfer:{}", component_symptom(&given, &got)), &tg, case, d));
                }
            }
        }
    }
}

/// Two cells given the SAME style (one shared entry in every table of the saved file); after a reload one of them is
/// edited in place with one more variation. Differential oracle: a twin workbook that was given the final styles directly.
struct EditAfterLoad {
    s1: Vec<Spec>,
    vars: Vec<(usize, usize)>,
    /// false: the workbook is SAVED (output discarded) but not reloaded before the edit - the same in-memory object,
    /// with whatever a save leaves behind in it, is edited and saved again
    reload: bool,
}
impl EditAfterLoad {
    fn decode(&self, i: u64) -> (usize, usize) {
        ((i / self.vars.len() as u64) as usize, (i % self.vars.len() as u64) as usize)
    }
}
impl Space for EditAfterLoad {
    fn len(&self) -> u64 {
        (self.s1.len() * self.vars.len()) as u64
    }
    fn describe(&self, i: u64) -> Value {
        let (a, b) = self.decode(i);
        json!({"kind": if self.reload { "edit-after-load" } else { "edit-between-saves" },"shared_style": spec_json(&self.s1[a]), "edit": format!("{}#{}", ATTRS[self.vars[b].0].0, self.vars[b].1), "history": if self.reload { "B1 and B2 get the shared style; save+reload; get_style_mut(B1) gets the edit; save+reload" } else { "B1 and B2 get the shared style; save (same object kept, no reload); get_style_mut(B1) gets the edit; save+reload" }})
    }
    fn tags(&self, i: u64) -> Vec<String> {
        let (a, b) = self.decode(i);
        let mut t = spec_tags(&self.s1[a]);
        t.push(format!("edit:{}", ATTRS[self.vars[b].0].0));
        t.push(if self.reload { "edit-after-load".into() } else { "edit-between-saves".into() });
        t
    }
    fn run(&self, i: u64, sink: &mut Sink) {
        let (a, b) = self.decode(i);
        let tags = self.tags(i);
        let tg: Vec<&str> = tags.iter().map(|s| s.as_str()).collect();
        let case = self.describe(i);
        sink.evaluations += 1;
        let shared = self.s1[a].clone();
        let (va, vk) = self.vars[b];
        let mut edited = shared.clone();
        edited.push((va, vk));
        let light = i % 2 == 1;
        let run = || -> Result<[Value; 4], String> {
            let mut h = if self.reload {
                roundtrip(&build_style_book(&[shared.clone(), shared.clone()]), light)?.1
            } else {
                let b = build_style_book(&[shared.clone(), shared.clone()]);
                crate::dump::save_bytes(&b, light)?;
                b
            };
            apply_var(h.get_sheet_mut(&0).unwrap().get_style_mut("B1"), va, vk);
            let (_, h2) = roundtrip(&h, light)?;
            let (_, t2) = roundtrip(&build_style_book(&[edited.clone(), shared.clone()]), light)?;
            let dh = calibrate(h2.get_sheet(&0).unwrap());
            let dt = calibrate(t2.get_sheet(&0).unwrap());
            Ok([
                effective(&style_p(h2.get_sheet(&0).unwrap().get_style("B1")), &dh),
                effective(&style_p(h2.get_sheet(&0).unwrap().get_style("B2")), &dh),
                effective(&style_p(t2.get_sheet(&0).unwrap().get_style("B1")), &dt),
                effective(&style_p(t2.get_sheet(&0).unwrap().get_style("B2")), &dt),
            ])
        };
        match run() {
            Err(e) => sink.violations.push(Violation::new("roundtrip-succeeds", &format!("failed:{}", panic_class(&e)), &tg, case, e)),
            Ok([hx, hy, tx, ty]) => {
                sink.obs(&format!("{}{}", hx, hy));
                if hx != tx {
                    let d = first_diff(&tx, &hx).map(|(p, l, r)| format!("{}: twin {} history {}", p, l, r)).unwrap_or_default();
                    sink.violations.push(Violation::new("style-preserved", &format!("edited-cell-differs-from-twin:{}", component_symptom(&tx, &hx)), &tg, case.clone(), d));
                }
                if hy != ty {
                    let d = first_diff(&ty, &hy).map(|(p, l, r)| format!("{}: twin {} history {}", p, l, r)).unwrap_or_default();
                    sink.violations.push(Violation::new("styles-stay-distinct", &format!("sibling-changed-by-edit:{}", component_symptom(&ty, &hy)), &tg, case, d));
                }
            }
        }
    }
}

/// Second editing session: a saved workbook is reloaded and NEW cells are formatted with styles built from scratch, some
/// equal to styles the file already contains, some new. Twin oracle: a workbook given all styles in one session.
struct SecondSession {
    s1: Vec<Spec>,
    fresh: Vec<Spec>,
}
impl SecondSession {
    fn decode(&self, i: u64) -> (usize, usize) {
        ((i / self.fresh.len() as u64) as usize, (i % self.fresh.len() as u64) as usize)
    }
    fn specs(&self, i: u64) -> (Vec<Spec>, Vec<Spec>) {
        let (a, f) = self.decode(i);
        let other: Spec = vec![(2, 0), (3, 0)];
        // first session: B1 = s_a, B2 = another style; second session: B3 = B4 = s_a rebuilt, B5 = a fresh style, B6 = s_a again
        let first = vec![self.s1[a].clone(), other];
        let second = vec![self.s1[a].clone(), self.s1[a].clone(), self.fresh[f].clone(), self.s1[a].clone()];
        (first, second)
    }
}
impl Space for SecondSession {
    fn len(&self) -> u64 {
        (self.s1.len() * self.fresh.len()) as u64
    }
    fn describe(&self, i: u64) -> Value {
        let (first, second) = self.specs(i);
        json!({"kind":"second-session","first_session": first.iter().map(spec_json).collect::<Vec<_>>(), "second_session": second.iter().map(spec_json).collect::<Vec<_>>(), "history": "first-session cells B1..; save+reload; second-session cells appended below with styles built from scratch; save+reload"})
    }
    fn tags(&self, i: u64) -> Vec<String> {
        let (a, f) = self.decode(i);
        let mut t = spec_tags(&self.s1[a]);
        t.extend(spec_tags(&self.fresh[f]).into_iter().map(|x| format!("fresh-{}", x)));
        t.push("second-session".into());
        t
    }
    fn run(&self, i: u64, sink: &mut Sink) {
        let tags = self.tags(i);
        let tg: Vec<&str> = tags.iter().map(|s| s.as_str()).collect();
        let case = self.describe(i);
        sink.evaluations += 1;
        let (first, second) = self.specs(i);
        let light = i % 2 == 1;
        let n1 = first.len();
        let all: Vec<Spec> = first.iter().chain(second.iter()).cloned().collect();
        let run = || -> Result<(Vec<Value>, Vec<Value>), String> {
            let (_, mut h) = roundtrip(&build_style_book(&first), light)?;
            {
                let ws = h.get_sheet_mut(&0).unwrap();
                for (k, sp) in second.iter().enumerate() {
                    let c = ws.get_cell_mut((2u32, (n1 + k) as u32 + 1));
                    c.set_value_number(k as f64);
                    c.set_style(make_style(sp));
                }
            }
            let (_, h2) = roundtrip(&h, light)?;
            let (_, t2) = roundtrip(&build_style_book(&all), light)?;
            let dh = calibrate(h2.get_sheet(&0).unwrap());
            let dt = calibrate(t2.get_sheet(&0).unwrap());
            let proj = |b: &Spreadsheet, d: &Map<String, Value>| -> Vec<Value> { (0..all.len()).map(|k| effective(&style_p(b.get_sheet(&0).unwrap().get_style((2u32, k as u32 + 1))), d)).collect() };
            Ok((proj(&h2, &dh), proj(&t2, &dt)))
        };
        match std::panic::catch_unwind(std::panic::AssertUnwindSafe(run)) {
            Err(e) => sink.violations.push(Violation::new("roundtrip-succeeds", &format!("panic:{}", panic_class(&panic_msg(&e))), &tg, case, panic_msg(&e))),
            Ok(Err(e)) => sink.violations.push(Violation::new("roundtrip-succeeds", &format!("failed:{}", panic_class(&e)), &tg, case, e)),
            Ok(Ok((h, t))) => {
                sink.obs(&json!(h).to_string());
                for k in 0..all.len() {
                    if h[k] != t[k] {
                        let d = first_diff(&t[k], &h[k]).map(|(p, l, r)| format!("B{} {}: twin {} history {}", k + 1, p, l, r)).unwrap_or_default();
                        let clause = if k < n1 { "styles-stay-distinct" } else { "style-preserved" };
                        sink.violations.push(Violation::new(clause, &format!("second-session-differs-from-twin:{}", component_symptom(&t[k], &h[k])), &tg, case.clone(), d));
                        break;
                    }
                }
            }
        }
    }
}

trait AsRefStyle {
    fn as_ref_style(&self) -> &Style;
}
impl AsRefStyle for Style {
    fn as_ref_style(&self) -> &Style {
        self
    }
}

pub fn space(tier: Tier, id: &str) -> Option<Box<dyn Space>> {
    match id {
        "pairs" => Some(Box::new(PairsSpace { s1: sigma1() })),
        "all-at-once" => {
            let mut sets: Vec<(&'static str, Vec<Spec>)> = vec![("collision-family", collision_family()), ("sigma1", sigma1())];
            if tier == Tier::Thorough {
                let mut all = sigma1();
                all.extend(sigma2());
                all.extend(collision_family());
                sets.push(("sigma1+sigma2+collisions", all));
            } else {
                // quick: all pairs of variations among the font attributes (where interning keys are hand-concatenated)
                let s2: Vec<Spec> = sigma2().into_iter().filter(|s| s.iter().all(|(a, _)| *a <= 6)).collect();
                sets.push(("sigma2-font-attributes", s2));
            }
            Some(Box::new(AllAtOnce { sets }))
        }
        "dims" => Some(Box::new(Dims)),
        "overwrite-same-attribute" => {
            // one workbook per attribute: every ordered pair (k1, k2) of its values applied to the SAME style object one
            // after the other (a gradient fill, then a background colour; a theme font colour, then an rgb one ...): what
            // the style shows in memory after the second call is what the reloaded cell must show
            let mut sets: Vec<(&'static str, Vec<Spec>)> = vec![];
            for (a, (name, n)) in ATTRS.iter().enumerate() {
                let mut v = vec![];
                for k1 in 0..*n {
                    for k2 in 0..*n {
                        if k1 != k2 {
                            v.push(vec![(a, k1), (a, k2)]);
                        }
                    }
                }
                if !v.is_empty() {
                    sets.push((*name, v));
                }
            }
            Some(Box::new(AllAtOnce { sets }))
        }
        "transfer" => Some(Box::new(Transfer { s1: sigma1() })),
        "second-session" => {
            let fresh: Vec<Spec> = vec![vec![], vec![(4, 0)], vec![(0, 2)], vec![(1, 1)], vec![(0, 0), (1, 2)]];
            let s1 = if tier == Tier::Thorough { let mut v = sigma1(); v.extend(collision_family()); v } else { sigma1() };
            Some(Box::new(SecondSession { s1, fresh }))
        }
        "edit-after-load" => {
            let vars: Vec<(usize, usize)> = sigma1().into_iter().filter(|s| s.len() == 1).map(|s| s[0]).collect();
            let s1 = if tier == Tier::Thorough { sigma1() } else { sigma1().into_iter().step_by(3).collect() };
            Some(Box::new(EditAfterLoad { s1, vars, reload: true }))
        }
        "edit-between-saves" => {
            let vars: Vec<(usize, usize)> = sigma1().into_iter().filter(|s| s.len() == 1).map(|s| s[0]).collect();
            let s1 = if tier == Tier::Thorough { sigma1() } else { sigma1().into_iter().step_by(3).collect() };
            Some(Box::new(EditAfterLoad { s1, vars, reload: false }))
        }
        _ => None,
    }
}

fn replay(tier: Tier, case: &Value) -> Vec<Violation> {
    let c = if case["case"].is_object() { &case["case"] } else { case };
    let mut c2 = c.clone();
    if let (Some(m), Some(i)) = (c2.as_object_mut(), case.get("_index")) {
        m.insert("_index".into(), i.clone());
    }
    let sp = case["_space"].as_str().or(c["_space"].as_str()).unwrap_or("");
    replay_e1(space(tier, sp), &c2)
}

fn run(ctx: &Ctx) -> i32 {
    let ids = ["pairs", "all-at-once", "dims", "transfer", "edit-after-load", "edit-between-saves", "second-session", "overwrite-same-attribute"];
    let spaces = ids.iter().map(|id| (*id, space(ctx.tier, id).unwrap())).collect();
    run_e1(
        ctx,
        E1Spec {
            spaces,
            cfg: PoolCfg { chunk: 16, case_timeout: std::time::Duration::from_secs(300), ..Default::default() },
            level: "exploration",
            rule: "style alphabet = base + every single-attribute variation (sigma1) + every pair of variations (sigma2) + a separator-collision family; (pairs) every ordered pair of sigma1 in a two-cell workbook, alternating writers; (all-at-once) whole sets in one workbook in forward and reverse order, which covers every ordered (earlier, later) pair for interning merges; (dims) every assignment of 5 states (absent / size / style / all / hidden only) to columns 1..5 and rows 1..3; (transfer) every sigma1 style read back from one workbook and given to a cell of another reloaded workbook whose tables use the same ids for other components; (edit-after-load) two cells sharing one sigma1 style (quick: every third), reloaded, one of them edited in place with every single variation, compared with a twin workbook that was given the final styles directly (the sibling must not change); (edit-between-saves) the same with the first reload left out: the workbook object that has just been saved is edited and saved again; (overwrite-same-attribute) per attribute every ordered pair of its values applied to the same style object one after the other; (second-session) a saved workbook is reloaded and new cells get styles built from scratch - three times a style the file already contains and once another one - compared cell by cell with a twin that was given everything in one session. Oracle: field-by-field effective style projection given == reloaded, where a never-set component equals the component shown by control cells after reload; style tables of generation 2 == generation 3 (read by the independent Python decoder). distinct_nontrivial = distinct reloaded effective projections".into(),
            alphabets: json!({"attributes": ATTRS.iter().map(|a| format!("{}x{}", a.0, a.1)).collect::<Vec<_>>(), "sigma1": sigma1().len(), "sigma2": sigma2().len(), "collision_family": collision_family().len()}),
            bounds: json!({"all-at-once": if ctx.tier == Tier::Thorough {"sigma1 + sigma2 + collision family in one workbook"} else {"sigma1; collision family; sigma2 restricted to the seven font attributes"}}),
            exhaustive: true,
            caps_hit: vec![],
            assumptions: vec!["a component that was never set is equivalent to the workbook default component (calibrated from two control cells of the same reloaded workbook)".into()],
            min_distinct: 50,
        },
    )
}
