//! C03 — the reader agrees with an independent decoder on valid xlsx files.
//! (generated) every file of the grammar-enumerating generator pyref/xlsx_gen.py: three-way oracle
//!   generator intent == Python decoder (else machinery error) == library dump after read_reader;
//! (corpus) every corpus file: Python decoder == library dump.
use crate::c02::{compare_model_p, corpus_files};
use crate::common::*;
use crate::dump::*;
use crate::e1::*;
use crate::pool::*;
use crate::pyref::with_py;
use base64::Engine;
use serde_json::{json, Value};
use umya_spreadsheet::*;

pub fn entry() -> crate::Entry {
    crate::Entry { id: "C03", run, space, replay }
}

fn gen_count() -> (u64, Value) {
    let r = with_py(|py| py.call(json!({"op": "gen", "what": "count"}), &[]));
    (r["count"].as_u64().unwrap_or(0), r["families"].clone())
}

fn strip_ws(s: &str) -> String {
    s.chars().filter(|c| !c.is_whitespace()).collect()
}

/// Library dump of a loaded book in the shape compare_model_p expects (annotations on, styles off).
fn lib_dump(b: &Spreadsheet) -> Value {
    book_p(b, Opts { styles: false, annotations: true, dims: true })
}

fn push(sink: &mut Sink, clause: &str, sym: &str, tags: &[String], case: &Value, detail: String) {
    let tg: Vec<&str> = tags.iter().map(|s| s.as_str()).collect();
    sink.violations.push(Violation::new(clause, sym, &tg, case.clone(), detail));
}

/// Compare the library's reading with a reference decoding (`refd` has the shape of xlsx_ref.decode()).
fn compare_reader(b: &Spreadsheet, refd: &Value, tags: &[String], case: &Value, sink: &mut Sink) {
    let model = lib_dump(b);
    let mut tags_v: Vec<String> = tags.to_vec();
    if model.to_string().contains("\\r") {
        tags_v.push("text-has-cr".into());
    }
    if refd["defined_names"].as_array().map(|a| a.iter().any(|d| d["text"].as_str().unwrap_or("").starts_with('"'))).unwrap_or(false) {
        tags_v.push("defined-name-is-string-literal".into());
    }
    let tags: &[String] = &tags_v;
    let mut seen = std::collections::BTreeSet::new();
    for d in compare_model_p(&model, refd) {
        // re-label for C03: the file is the authority, the library model is what is judged
        let clause = match d.clause {
            "decoder-cells" => "reader-cells",
            "decoder-formulas" => "reader-formulas",
            "decoder-hyperlinks" => "reader-hyperlinks",
            "decoder-merges" => "reader-merges",
            "decoder-defined-names" => "reader-defined-names",
            "decoder-sheet-list" => "reader-sheet-list",
            x => x,
        };
        let mut sym = d.symptom.clone();
        if clause == "reader-formulas" {
            // formula text: blanks are not significant for this comparison unless they separate operands
            // (none of the generated templates contains an intersection operator)
            let parts: Vec<&str> = d.detail.split("model formula ").collect();
            let _ = parts;
        }
        if sym.starts_with("kind:") || sym.starts_with("formula-cached-kind:") {
            // model->file direction in c02; here say file->model
            let body = sym.splitn(2, ':').nth(1).unwrap_or("").to_string();
            let mut it = body.split("->");
            let (m, f) = (it.next().unwrap_or(""), it.next().unwrap_or(""));
            sym = format!("{}file:{}->model:{}", if sym.starts_with("formula") { "formula-cached-kind:" } else { "kind:" }, f, m);
        }
        if seen.insert((clause, sym.clone())) {
            push(sink, clause, &sym, tags, case, d.detail);
        }
    }
    // rich runs (text per run) for cells the reference marks as rich
    if let (Some(ms), Some(ps)) = (model["sheets"].as_array(), refd["sheets"].as_array()) {
        for (m, q) in ms.iter().zip(ps.iter()) {
            if let Some(pc) = q["cells"].as_object() {
                for (k, d) in pc {
                    if let Some(runs) = d["runs"].as_array() {
                        let want: Vec<String> = runs.iter().map(|r| r["text"].as_str().unwrap_or("").to_string()).collect();
                        let got: Vec<String> = m["cells"][k]["runs"].as_array().map(|a| a.iter().map(|r| r["text"].as_str().unwrap_or("").to_string()).collect()).unwrap_or_default();
                        if !got.is_empty() && got != want && seen.insert(("reader-cells", "rich-run-texts".to_string())) {
                            push(sink, "reader-cells", "rich-run-texts", tags, case, format!("{}: file runs {:?}, model runs {:?}", k, want, got));
                        }
                    }
                }
            }
        }
    }
}

fn approx_eq(a: f64, b: f64) -> bool {
    (a - b).abs() < 1e-9
}

/// Generator-only expectations (style resolution, dimensions, table columns, number-format code).
fn compare_intent_extras(b: &Spreadsheet, intent: &Value, tags: &[String], case: &Value, sink: &mut Sink) {
    let sheets = intent["sheets"].as_array().cloned().unwrap_or_default();
    for (si, s) in sheets.iter().enumerate() {
        let ws = match b.get_sheet(&si) {
            Some(w) => w,
            None => continue,
        };
        let check_style = |st: &Style, want: &Value, what: &str, sink: &mut Sink| {
            let p = style_p(st);
            if let Some(f) = want.get("font") {
                let pf = &p["font"];
                for (k, v) in f.as_object().cloned().unwrap_or_default() {
                    let ok = match k.as_str() {
                        "bold" | "italic" | "strike" => pf[&k] == v,
                        "name" | "underline" => pf[&k] == v,
                        "size" => pf["size"].as_str().map(|s| s.split('#').next().unwrap_or("").parse::<f64>().map(|x| approx_eq(x, v.as_f64().unwrap_or(-1.0))).unwrap_or(false)).unwrap_or(false),
                        "color_argb" => pf["color"]["argb"] == v,
                        _ => true,
                    };
                    if !ok {
                        push(sink, "reader-styles", &format!("font-{}", k), tags, case, format!("{}: file says font {} = {}, model shows {}", what, k, v, pf));
                    }
                }
            }
            if let Some(f) = want.get("fill") {
                let pf = &p["fill"]["pattern"];
                if pf["type"].as_str().map(|s| s.to_lowercase()) != f["type"].as_str().map(|s| s.to_lowercase()) {
                    push(sink, "reader-styles", "fill-pattern-type", tags, case, format!("{}: file fill {}, model {}", what, f, p["fill"]));
                } else if pf["fg"]["argb"] != f["fg_argb"] {
                    push(sink, "reader-styles", "fill-fg-color", tags, case, format!("{}: file fill {}, model {}", what, f, p["fill"]));
                }
            }
            if let Some(f) = want.get("borders") {
                for (k, v) in f.as_object().cloned().unwrap_or_default() {
                    let got = p["borders"][&k]["style"].as_str().unwrap_or("none");
                    let got = if got.is_empty() { "none" } else { got };
                    if json!(got) != v {
                        push(sink, "reader-styles", "border-style", tags, case, format!("{}: file border {} = {}, model {}", what, k, v, p["borders"][&k]));
                    }
                }
            }
            if let Some(f) = want.get("numfmt") {
                if &p["numfmt"] != f {
                    push(sink, "reader-styles", "numfmt-code", tags, case, format!("{}: file number format {}, model {}", what, f, p["numfmt"]));
                }
            }
            if let Some(f) = want.get("alignment") {
                let a = &p["alignment"];
                let ok = a["h"].as_str().map(|s| s.to_lowercase()) == f["h"].as_str().map(|s| s.to_string()) && a["v"].as_str().map(|s| s.to_lowercase()) == f["v"].as_str().map(|s| s.to_string()) && a["wrap"] == f["wrap"] && a["rotation"] == f["rotation"];
                if !ok {
                    push(sink, "reader-styles", "alignment", tags, case, format!("{}: file alignment {}, model {}", what, f, a));
                }
            }
            if let Some(f) = want.get("protection") {
                if p["protection"]["locked"] != f["locked"] || p["protection"]["hidden"] != f["hidden"] {
                    push(sink, "reader-styles", "protection", tags, case, format!("{}: file protection {}, model {}", what, f, p["protection"]));
                }
            }
        };
        if let Some(cells) = s["cells"].as_object() {
            for (k, c) in cells {
                let row: u32 = k[1..8].parse().unwrap_or(0);
                let col: u32 = k[9..].parse().unwrap_or(0);
                if let Some(w) = c.get("style_want") {
                    check_style(ws.get_style((col, row)), w, &format!("cell {}", k), sink);
                }
                if let Some(code) = c.get("numfmt") {
                    let got = ws.get_style((col, row)).get_numbering_format().map(|n| n.get_format_code().to_string());
                    if got.as_deref() != code.as_str() {
                        push(sink, "reader-attributes", "numfmt-code", tags, case, format!("cell {}: file number format {}, model {:?}", k, code, got));
                    }
                }
            }
        }
        if let Some(rs) = s.get("row_style_want").and_then(|x| x.as_object()) {
            for (k, w) in rs {
                let r: u32 = k.parse().unwrap_or(0);
                match ws.get_row_dimension(&r) {
                    Some(row) => check_style(row.get_style(), w, &format!("row {}", r), sink),
                    None => push(sink, "reader-styles", "row-entry-missing", tags, case, format!("row {} has a style in the file but no row entry in the model", r)),
                }
            }
        }
        if let Some(cs) = s.get("col_style_want").and_then(|x| x.as_object()) {
            for (k, w) in cs {
                let c: u32 = k.parse().unwrap_or(0);
                match ws.get_column_dimension_by_number(&c) {
                    Some(col) => check_style(col.get_style(), w, &format!("column {}", c), sink),
                    None => push(sink, "reader-styles", "column-entry-missing", tags, case, format!("column {} has a style in the file but no column entry in the model", c)),
                }
            }
        }
        if let Some(rs) = s.get("rows").and_then(|x| x.as_object()) {
            for (k, w) in rs {
                let r: u32 = k.parse().unwrap_or(0);
                let want: f64 = w["height"].as_str().and_then(|x| x.parse().ok()).unwrap_or(0.0);
                let got = ws.get_row_dimension(&r).map(|x| *x.get_height());
                if got.map(|g| !approx_eq(g, want)).unwrap_or(true) {
                    push(sink, "reader-dimensions", "row-height", tags, case, format!("row {}: file height {}, model {:?}", r, want, got));
                }
            }
        }
        if let Some(cs) = s.get("cols").and_then(|x| x.as_object()) {
            for (k, w) in cs {
                let c: u32 = k.parse().unwrap_or(0);
                let want: f64 = w["width"].as_str().and_then(|x| x.parse().ok()).unwrap_or(0.0);
                let got = ws.get_column_dimension_by_number(&c).map(|x| (*x.get_width(), *x.get_hidden()));
                let wh = w["hidden"] == json!(true);
                if got.map(|g| !approx_eq(g.0, want) || g.1 != wh).unwrap_or(true) {
                    push(sink, "reader-dimensions", "column-width-or-hidden", tags, case, format!("column {}: file width {} hidden {}, model {:?}", c, want, wh, got));
                }
            }
        }
        if let Some(tc) = s.get("table_columns").and_then(|x| x.as_array()) {
            let want: Vec<String> = tc.iter().map(|x| x.as_str().unwrap_or("").to_string()).collect();
            let got: Vec<String> = ws.get_tables().first().map(|t| t.get_columns().iter().map(|c| c.get_name().to_string()).collect()).unwrap_or_default();
            if got != want {
                push(sink, "reader-attributes", "table-column-name", tags, case, format!("file table columns {:?}, model {:?}", want, got));
            }
        }
        if let Some(links) = s["links"].as_object() {
            for (k, l) in links {
                if let Some(tt) = l.get("tooltip") {
                    let row: u32 = k[1..8].parse().unwrap_or(0);
                    let col: u32 = k[9..].parse().unwrap_or(0);
                    let got = ws.get_cell((col, row)).and_then(|c| c.get_hyperlink()).map(|h| h.get_tooltip().to_string());
                    if got.as_deref() != tt.as_str() {
                        push(sink, "reader-attributes", "link-tooltip", tags, case, format!("{}: file tooltip {}, model {:?}", k, tt, got));
                    }
                }
            }
        }
    }
}

struct Generated {
    n: u64,
}
impl Space for Generated {
    fn len(&self) -> u64 {
        self.n
    }
    fn describe(&self, i: u64) -> Value {
        let r = with_py(|py| py.call(json!({"op": "gen", "index": i}), &[]));
        json!({"kind": "generated", "label": r["label"], "tags": r["tags"]})
    }
    fn tags(&self, i: u64) -> Vec<String> {
        let r = with_py(|py| py.call(json!({"op": "gen", "index": i}), &[]));
        r["tags"].as_array().map(|a| a.iter().filter_map(|x| x.as_str().map(|s| s.to_string())).collect()).unwrap_or_default()
    }
    fn run(&self, i: u64, sink: &mut Sink) {
        let r = with_py(|py| py.call(json!({"op": "gen", "index": i}), &[]));
        let bytes = base64::engine::general_purpose::STANDARD.decode(r["b64"].as_str().unwrap_or("")).unwrap_or_default();
        let intent = r["intent"].clone();
        let tags: Vec<String> = r["tags"].as_array().map(|a| a.iter().filter_map(|x| x.as_str().map(|s| s.to_string())).collect()).unwrap_or_default();
        let case = json!({"kind": "generated", "label": r["label"]});
        // the generated file must be valid and the two independent references must agree (else: machinery)
        let (probs, pbook) = with_py(|py| py.validate_decode(&bytes, false));
        if !probs.is_empty() {
            eprintln!("MACHINERY: generator produced an invalid package for {}: {:?}", r["label"], probs);
            std::process::exit(2);
        }
        let agree = compare_model_shapes(&intent, &pbook);
        if let Some(msg) = agree {
            eprintln!("MACHINERY: generator intent and Python decoder disagree on {}: {}", r["label"], msg);
            std::process::exit(2);
        }
        sink.evaluations += 1;
        match load_bytes(&bytes, true) {
            Err(e) => push(sink, "reader-accepts-valid-file", &format!("load-failed:{}", panic_class(&e)), &tags, &case, e),
            Ok(b) => {
                sink.hashes.push(fnv(lib_dump(&b).to_string().as_bytes()));
                compare_reader(&b, &intent, &tags, &case, sink);
                compare_intent_extras(&b, &intent, &tags, &case, sink);
                // lazy reading followed by materialisation must give the same cells (cheap cross-check here; C11 is the real check)
            }
        }
    }
}

/// intent vs P decode on the fields the intent sets; None = agree
fn compare_model_shapes(intent: &Value, p: &Value) -> Option<String> {
    let (is, ps) = (intent["sheets"].as_array()?, p["sheets"].as_array()?);
    if is.len() != ps.len() {
        return Some("sheet count".into());
    }
    for (a, b) in is.iter().zip(ps.iter()) {
        if a["name"] != b["name"] {
            return Some(format!("sheet name {} vs {}", a["name"], b["name"]));
        }
        for (k, c) in a["cells"].as_object()? {
            let d = &b["cells"][k];
            if d.is_null() {
                return Some(format!("{} missing in decoder", k));
            }
            if c["kind"] != d["kind"] || c["formula"] != d["formula"] {
                return Some(format!("{}: {} vs {}", k, c, d));
            }
            if c["kind"] == json!("n") {
                if c["bits"] != d["bits"] {
                    return Some(format!("{} bits", k));
                }
            } else if c["kind"] != json!("") && c["value"] != d["value"] {
                return Some(format!("{}: value {} vs {}", k, c["value"], d["value"]));
            }
        }
        for (k, l) in a["links"].as_object()? {
            let d = &b["links"][k];
            if d["target"] != l["target"] || d["location"] != l["location"] {
                return Some(format!("link {}: {} vs {}", k, l, d));
            }
        }
    }
    None
}

struct Corpus {
    files: Vec<String>,
}
impl Space for Corpus {
    fn len(&self) -> u64 {
        self.files.len() as u64
    }
    fn describe(&self, i: u64) -> Value {
        json!({"kind": "corpus", "file": self.files[i as usize].rsplit('/').next()})
    }
    fn tags(&self, i: u64) -> Vec<String> {
        vec![format!("corpus:{}", self.files[i as usize].rsplit('/').next().unwrap_or(""))]
    }
    fn run(&self, i: u64, sink: &mut Sink) {
        let tags = self.tags(i);
        let case = self.describe(i);
        let data = match std::fs::read(&self.files[i as usize]) {
            Ok(d) => d,
            Err(_) => return,
        };
        let (probs, pbook) = with_py(|py| py.validate_decode(&data, false));
        // "for every VALID xlsx file": a corpus file our validator rejects is outside the quantifier
        if probs.iter().any(|p| p.0 == "xml-malformed" || p.0 == "zip-bad") {
            sink.count("corpus_files_not_valid_for_the_independent_reader", 1);
            return;
        }
        sink.evaluations += 1;
        match load_bytes(&data, true) {
            Err(e) => push(sink, "reader-accepts-valid-file", &format!("load-failed:{}", panic_class(&e)), &tags, &case, e),
            Ok(b) => {
                sink.hashes.push(fnv(lib_dump(&b).to_string().as_bytes()));
                compare_reader(&b, &pbook, &tags, &case, sink);
            }
        }
    }
}

pub fn space(tier: Tier, id: &str) -> Option<Box<dyn Space>> {
    match id {
        "generated" => Some(Box::new(Generated { n: gen_count().0 })),
        "corpus" => {
            let mut files = corpus_files();
            if tier == Tier::Quick {
                files.retain(|f| std::fs::metadata(f).map(|m| m.len() < 600_000).unwrap_or(false));
            }
            Some(Box::new(Corpus { files }))
        }
        _ => None,
    }
}

fn replay(tier: Tier, case: &Value) -> Vec<Violation> {
    replay_e1(space(tier, case["_space"].as_str().unwrap_or("")), case)
}

fn run(ctx: &Ctx) -> i32 {
    let ids = ["generated", "corpus"];
    let spaces = ids.iter().map(|id| (*id, space(ctx.tier, id).unwrap())).collect();
    let (n, fams) = gen_count();
    let _ = strip_ws;
    run_e1(
        ctx,
        E1Spec {
            spaces,
            cfg: PoolCfg { chunk: 8, case_timeout: std::time::Duration::from_secs(120), ..Default::default() },
            level: "exploration",
            rule: "every file of the grammar-enumerating generator pyref/xlsx_gen.py (families: cell encodings x text payloads; shared-formula blocks = template x anchor x shape x si numbering with every child offset; entity-escaped attribute channels x special strings; optional attributes / column spans; cellXfs style resolution) and every corpus file. Three-way oracle for generated files: generator intent == independent Python decoder (disagreement = machinery error, exit 2) == library dump after read_reader; corpus: Python decoder == library dump. distinct_nontrivial = distinct library dumps".into(),
            alphabets: json!({"generator_families": fams, "generated_files": n, "corpus_files": corpus_files().len()}),
            bounds: json!({"shared_formula_block": "up to 3x3, anchors C3/D5/AA3, 14 templates, dense and sparse si", "corpus": if ctx.tier == Tier::Quick {"files < 600 kB"} else {"all files"}}),
            exhaustive: true,
            caps_hit: vec![],
            assumptions: vec!["producer quirks outside the grammar (omitted r= attributes, start/end tag pairs for <sheet>, _xHHHH_ escapes) are outside the alphabet".into(), "corpus files that the independent reader finds malformed are outside the quantifier (counted)".into()],
            min_distinct: 100,
        },
    )
}
