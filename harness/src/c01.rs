//! C01 — not built yet (stub).
use crate::common::*;
use crate::pool::*;
use serde_json::Value;

pub fn entry() -> crate::Entry {
    crate::Entry { id: "C01", run, space, replay }
}
pub fn space(_tier: Tier, _id: &str) -> Option<Box<dyn Space>> {
    None
}
fn replay(_tier: Tier, _case: &Value) -> Vec<Violation> {
    vec![]
}
fn run(_ctx: &Ctx) -> i32 {
    eprintln!("MACHINERY: C01 is not built yet");
    2
}
