//! C01 — cell content survives save and reload (both writers), bounded-exhaustive over value x position alphabets.
use crate::common::*;
use crate::dump::*;
use crate::e1::*;
use crate::pool::*;
use serde_json::{json, Value};
use umya_spreadsheet::*;

pub fn entry() -> crate::Entry {
    crate::Entry { id: "C01", run, space, replay }
}

pub const ATOMS: [(&str, &str); 22] = [
    ("plain", "a"), ("amp", "&"), ("lt", "<"), ("gt", ">"), ("dquote", "\""), ("apos", "'"), ("space", " "), ("tab", "\t"), ("lf", "\n"),
    ("cr", "\r"), ("nbsp", "\u{a0}"), ("ideographic-space", "\u{3000}"), ("latin1", "é"), ("non-bmp", "\u{1F600}"), ("cdata-end", "]]>"),
    ("amp-entity", "&amp;"), ("digit", "1"), ("bool-word", "TRUE"), ("error-word", "#N/A"),
    // text that LOOKS like the OOXML _xHHHH_ escape (ST_Xstring) is still the user's text, character for character
    ("xstring-letter", "_x0041_"), ("xstring-cr", "_x000D_"), ("xstring-underscore", "_x005F_"),
];
pub const ERRORS: [&str; 7] = ["#DIV/0!", "#N/A", "#NAME?", "#NULL!", "#NUM!", "#REF!", "#VALUE!"];
pub const POSITIONS: [&str; 9] = ["A1", "B1", "A2", "C3", "Z1", "AA1", "XFD1", "A1048576", "XFD1048576"];
pub const FORMULAS: [&str; 12] = [
    "1+1", "PI()", "A1", "SUM(A1:B2)", "\"x\"&\"y\"", "IF(1<2,\"a&b\",\"c\")", "1<>2", "A1>=B1", "$A$1*2", "Sheet1!A1", "TRUE", "\"a \"\" quote\"",
];

#[derive(Clone, Debug)]
pub enum V {
    Auto(String),
    Str(String),
    Num(f64),
    Bool(bool),
    Rich(Vec<(String, bool)>),
    Formula(String, Option<String>),
    /// text first, formula second: the formula keeps the text as its cached result, whatever it looks like
    StrFormula(String, String),
}

impl V {
    pub fn apply(&self, c: &mut Cell) {
        match self {
            V::Auto(s) => {
                c.set_value(s.clone());
            }
            V::Str(s) => {
                c.set_value_string(s.clone());
            }
            V::Num(x) => {
                c.set_value_number(*x);
            }
            V::Bool(b) => {
                c.set_value_bool(*b);
            }
            V::Rich(runs) => {
                let mut rt = RichText::default();
                for (t, bold) in runs {
                    let mut e = TextElement::default();
                    e.set_text(t.clone());
                    if *bold {
                        e.get_run_properties_mut().set_bold(true);
                    }
                    rt.add_rich_text_elements(e);
                }
                c.set_rich_text(rt);
            }
            V::Formula(f, cached) => {
                c.set_formula(f.clone());
                if let Some(v) = cached {
                    c.set_formula_result_default(v.clone());
                }
            }
            V::StrFormula(t, f) => {
                c.set_value_string(t.clone());
                c.set_formula(f.clone());
            }
        }
    }
    pub fn json(&self) -> Value {
        match self {
            V::Auto(s) => json!({"set_value": s}),
            V::Str(s) => json!({"set_value_string": s}),
            V::Num(x) => json!({"set_value_number": format!("{:e}", x), "bits": format!("{:016x}", x.to_bits())}),
            V::Bool(b) => json!({"set_value_bool": b}),
            V::Rich(r) => json!({"set_rich_text": r}),
            V::Formula(f, c) => json!({"set_formula": f, "set_formula_result_default": c}),
            V::StrFormula(t, f) => json!({"set_value_string": t, "then_set_formula": f}),
        }
    }
    pub fn tags(&self) -> Vec<String> {
        fn text_tags(s: &str, out: &mut Vec<String>) {
            if s.is_empty() {
                out.push("t:empty".into());
            }
            for (n, a) in ATOMS.iter() {
                if *n != "plain" && *n != "digit" && s.contains(a) {
                    out.push(format!("t:{}", n));
                }
            }
            if s.starts_with(|c: char| c.is_whitespace()) || s.ends_with(|c: char| c.is_whitespace()) {
                out.push("t:edge-whitespace".into());
            }
        }
        let mut t = vec![];
        match self {
            V::Auto(s) => {
                t.push("auto".into());
                text_tags(s, &mut t);
            }
            V::Str(s) => {
                t.push("string".into());
                text_tags(s, &mut t);
            }
            V::Num(x) => {
                t.push("number".into());
                if x.abs() >= 1e16 || (x.abs() < 1e-5 && *x != 0.0) {
                    t.push("n:extreme-magnitude".into());
                }
            }
            V::Bool(_) => t.push("bool".into()),
            V::Rich(r) => {
                t.push("rich".into());
                for (s, _) in r {
                    text_tags(s, &mut t);
                }
            }
            V::StrFormula(tx, _) => {
                t.push("formula".into());
                t.push("f:text-then-formula".into());
                text_tags(tx, &mut t);
            }
            V::Formula(f, c) => {
                t.push("formula".into());
                match c {
                    None => t.push("f:no-cached".into()),
                    Some(v) => {
                        let up = v.to_uppercase();
                        if v.is_empty() {
                            t.push("f:cached-empty".into());
                        } else if up == "TRUE" || up == "FALSE" {
                            t.push("f:cached-bool".into());
                        } else if ERRORS.contains(&up.as_str()) {
                            t.push("f:cached-error".into());
                        } else if v.parse::<f64>().is_ok() {
                            t.push("f:cached-number".into());
                        } else {
                            t.push("f:cached-text".into());
                            text_tags(v, &mut t);
                        }
                    }
                }
                if f.contains('"') {
                    t.push("f:string-literal".into());
                }
                if f.contains('&') || f.contains('<') || f.contains('>') {
                    t.push("f:xml-special".into());
                }
            }
        }
        t.sort();
        t.dedup();
        t
    }
}

fn texts(max_atoms: usize) -> Vec<String> {
    let mut v = vec![String::new()];
    for (_, a) in ATOMS.iter() {
        v.push(a.to_string());
    }
    if max_atoms >= 2 {
        for (_, a) in ATOMS.iter() {
            for (_, b) in ATOMS.iter() {
                v.push(format!("{}{}", a, b));
            }
        }
    }
    if max_atoms >= 3 {
        for (_, a) in ATOMS.iter() {
            for (_, b) in ATOMS.iter() {
                for (_, c) in ATOMS.iter() {
                    v.push(format!("{}{}{}", a, b, c));
                }
            }
        }
    }
    v
}

pub fn number_thresholds() -> Vec<f64> {
    let mut v = vec![
        0.0, -0.0, 1.0, -1.0, 0.1, 1.0 / 3.0, 2.0 / 3.0, 1e-7, 1e-5, 123456789.0, 0.30000000000000004, 1e15, 1e16, 1e17, 1e21, 1e22, 1e300, -1e300, f64::MAX, f64::MIN, f64::MIN_POSITIVE,
        5e-324, 2.2250738585072009e-308, 9007199254740991.0, 9007199254740992.0, 9007199254740993.0, 4503599627370496.5, 1.7976931348623157e308, 123456789012345680.0, 0.000001, 1234.5678,
        45435.0, 45435.5, 2958465.0, 1e-320, 3.141592653589793, 2.718281828459045, 1e10, 1e-10, 99999999999999.98,
    ];
    v.dedup_by(|a, b| a.to_bits() == b.to_bits());
    v
}

/// single-cell value alphabet
fn single_values(tier: Tier) -> Vec<V> {
    let mut v = vec![];
    let tx = texts(if tier == Tier::Thorough { 3 } else { 2 });
    for t in &tx {
        v.push(V::Str(t.clone()));
    }
    for t in texts(2) {
        v.push(V::Auto(t));
    }
    for x in number_thresholds() {
        v.push(V::Num(x));
    }
    v.push(V::Bool(true));
    v.push(V::Bool(false));
    for e in ERRORS {
        v.push(V::Auto(e.to_string()));
    }
    for t in texts(1) {
        v.push(V::Rich(vec![(t.clone(), true), ("tail".into(), false)]));
        v.push(V::Rich(vec![("head".into(), false), (t.clone(), true)]));
    }
    v.push(V::Rich(vec![("only".into(), false)]));
    let cached: Vec<Option<String>> = {
        let mut c: Vec<Option<String>> = vec![None, Some("".into()), Some("1.5".into()), Some("-3".into()), Some("1e21".into()), Some("TRUE".into()), Some("FALSE".into()), Some("text".into()), Some(" padded ".into()), Some("a&b<c".into()), Some("line1\nline2".into())];
        for e in ERRORS {
            c.push(Some(e.to_string()));
        }
        c
    };
    for f in FORMULAS {
        for c in &cached {
            v.push(V::Formula(f.to_string(), c.clone()));
        }
    }
    v
}

/// 70-value core for pairs
fn core_values() -> Vec<V> {
    let mut v = vec![];
    for t in ["a", "b", " a", "a ", "A", "1", "1.0", "TRUE", "#N/A", "&", "<", "a&b", "\n", "a\nb", "é", "\u{1F600}", "", "&amp;", "a\tb", "\r"] {
        v.push(V::Str(t.to_string()));
    }
    for t in ["a", "1", "1.50", "TRUE", "true", "#N/A", "abc", " a", "1e3", "0x10"] {
        v.push(V::Auto(t.to_string()));
    }
    for x in [0.0, 1.0, 1.5, -3.0, 1e21, 0.1, 1.0 / 3.0, 9007199254740993.0] {
        v.push(V::Num(x));
    }
    v.push(V::Bool(true));
    v.push(V::Bool(false));
    for t in ["a", "b", " a", "&", "a\nb"] {
        v.push(V::Rich(vec![(t.to_string(), true)]));
        v.push(V::Rich(vec![(t.to_string(), false)]));
        v.push(V::Rich(vec![(t.to_string(), true), ("a".into(), false)]));
    }
    for (f, c) in [("1+1", Some("2")), ("1+1", None), ("A1", Some("a")), ("A1", Some("TRUE")), ("A1", Some("#N/A")), ("\"a\"&\"b\"", Some("ab")), ("1<2", Some("TRUE")), ("PI()", Some("3.141592653589793")), ("IF(1>2,\"x\",\"\")", Some("")), ("A1&\"\"", Some(" "))] {
        v.push(V::Formula(f.to_string(), c.map(|s| s.to_string())));
    }
    for e in ["#DIV/0!", "#REF!"] {
        v.push(V::Auto(e.to_string()));
    }
    // rich texts whose runs have no font: two runs, and ONE run whose text is what a key builder would get by joining
    // the two with the word it uses for "no font" (None / null / empty)
    v.push(V::Rich(vec![("ab".to_string(), false), ("cd".to_string(), false)]));
    for joiner in ["None", "null", "", "|"] {
        v.push(V::Rich(vec![(format!("ab{}cd", joiner), false)]));
    }
    for t in ["", " ", "007", "abc"] {
        v.push(V::StrFormula(t.to_string(), "IF(1>2,\"x\",\"\")".to_string()));
    }
    v
}

fn core16() -> Vec<V> {
    let c = core_values();
    let idx = [0usize, 1, 2, 5, 7, 9, 16, 20, 21, 30, 32, 38, 40, 41, 53, 55];
    idx.iter().filter_map(|i| c.get(*i).cloned()).collect()
}

// ------------------------------------------------------------------------------------------------
/// The oracle: content projection before save == after reload.
fn content(b: &Spreadsheet) -> Value {
    book_p(b, Opts::CONTENT)
}

fn classify(path: &str, l: &str, r: &str) -> String {
    // path like /sheets[0]/cells/R..C../field
    let field = path.rsplit('/').next().unwrap_or("");
    if l == "<absent>" {
        return "cell-appeared".into();
    }
    if r == "<absent>" {
        return if field.starts_with('R') { "cell-lost".into() } else { format!("{}-lost", field) };
    }
    match field {
        "kind" => format!("kind:{}->{}", l.trim_matches('"'), r.trim_matches('"')),
        "raw" => format!("raw:{}->{}", l.trim_matches('"'), r.trim_matches('"')),
        "bits" => "number-bits-changed".into(),
        "formula" => "formula-text-changed".into(),
        "value" => {
            let lu: String = serde_json::from_str(l).unwrap_or_default();
            let ru: String = serde_json::from_str(r).unwrap_or_default();
            if lu.trim() == ru.trim() {
                "text-edge-whitespace-changed".into()
            } else if lu.replace('\r', "") == ru.replace('\r', "") {
                "text-cr-changed".into()
            } else if lu.split_whitespace().collect::<Vec<_>>() == ru.split_whitespace().collect::<Vec<_>>() {
                "text-inner-whitespace-changed".into()
            } else {
                "value-text-changed".into()
            }
        }
        "text" | "font" => "rich-run-changed".into(),
        _ => {
            if path.contains("/runs") {
                "rich-runs-changed".into()
            } else {
                format!("field:{}", field)
            }
        }
    }
}

fn check_book(b: &Spreadsheet, light: bool, tags: &[String], case: &Value, sink: &mut Sink) {
    let tg: Vec<&str> = tags.iter().map(|s| s.as_str()).collect();
    let before = content(b);
    sink.evaluations += 1;
    match roundtrip(b, light) {
        Err(e) => sink.violations.push(Violation::new("roundtrip-succeeds", &format!("failed:{}", panic_class(&e)), &tg, case.clone(), e)),
        Ok((_bytes, b2)) => {
            let after = content(&b2);
            sink.hashes.push(fnv(after.to_string().as_bytes()));
            // report every differing cell field class once
            let mut a = before.clone();
            let bb = after.clone();
            let mut guard = 0;
            let mut seen = std::collections::BTreeSet::new();
            while let Some((path, l, r)) = first_diff(&a, &bb) {
                let sym = classify(&path, &l, &r);
                if seen.insert(sym.clone()) {
                    sink.violations.push(Violation::new("content-equal", &sym, &tg, case.clone(), format!("{}: before {} after {}", path, l, r)));
                }
                // patch `a` at path so that the next difference is found
                if !patch(&mut a, &bb, &path) {
                    break;
                }
                guard += 1;
                if guard > 50 {
                    break;
                }
            }
        }
    }
}

pub fn patch_pub(dst: &mut Value, src: &Value, path: &str) -> bool {
    patch(dst, src, path)
}

/// Copy the value at `path` from `src` into `dst` (or remove it when absent in src).
fn patch(dst: &mut Value, src: &Value, path: &str) -> bool {
    fn steps(path: &str) -> Vec<String> {
        let mut v = vec![];
        for seg in path.split('/').filter(|s| !s.is_empty()) {
            if let Some(p) = seg.find('[') {
                v.push(seg[..p].to_string());
                for idx in seg[p..].split('[').filter(|s| !s.is_empty()) {
                    v.push(format!("#{}", idx.trim_end_matches(']')));
                }
            } else {
                v.push(seg.to_string());
            }
        }
        v
    }
    let st = steps(path);
    fn get<'a>(v: &'a Value, st: &[String]) -> Option<&'a Value> {
        let mut cur = v;
        for s in st {
            cur = if let Some(i) = s.strip_prefix('#') { cur.get(i.parse::<usize>().ok()?)? } else { cur.get(s.as_str())? };
        }
        Some(cur)
    }
    let newv = get(src, &st).cloned();
    let (last, parent) = match st.split_last() {
        Some(x) => x,
        None => return false,
    };
    let mut cur = dst;
    for s in parent {
        let next = if let Some(i) = s.strip_prefix('#') { cur.get_mut(i.parse::<usize>().unwrap_or(0)) } else { cur.get_mut(s.as_str()) };
        cur = match next {
            Some(n) => n,
            None => return false,
        };
    }
    match (cur, newv) {
        (Value::Object(m), Some(v)) => {
            m.insert(last.clone(), v);
            true
        }
        (Value::Object(m), None) => {
            m.remove(last.as_str());
            true
        }
        (Value::Array(a), Some(v)) => {
            let i = last.trim_start_matches('#').parse::<usize>().unwrap_or(0);
            if i < a.len() {
                a[i] = v;
            } else {
                a.push(v);
            }
            true
        }
        (Value::Array(a), None) => {
            let i = last.trim_start_matches('#').parse::<usize>().unwrap_or(0);
            if i < a.len() {
                a.truncate(i);
            }
            true
        }
        _ => false,
    }
}

// ------------------------------------------------------------------------------------------------
struct Singles {
    values: Vec<V>,
}
impl Singles {
    fn decode(&self, i: u64) -> (usize, usize, bool) {
        let np = POSITIONS.len() as u64;
        let vi = i / (np * 2);
        let r = i % (np * 2);
        (vi as usize, (r / 2) as usize, r % 2 == 1)
    }
}
impl Space for Singles {
    fn len(&self) -> u64 {
        self.values.len() as u64 * POSITIONS.len() as u64 * 2
    }
    fn describe(&self, i: u64) -> Value {
        let (v, p, l) = self.decode(i);
        json!({"kind":"single","value": self.values[v].json(), "position": POSITIONS[p], "light": l})
    }
    fn tags(&self, i: u64) -> Vec<String> {
        let (v, p, l) = self.decode(i);
        let mut t = self.values[v].tags();
        if p >= 4 {
            t.push(format!("pos:{}", POSITIONS[p]));
        }
        if l {
            t.push("light-writer".into());
        }
        t
    }
    fn run(&self, i: u64, sink: &mut Sink) {
        let (v, p, l) = self.decode(i);
        let mut b = new_file();
        self.values[v].apply(b.get_sheet_mut(&0).unwrap().get_cell_mut(POSITIONS[p]));
        check_book(&b, l, &self.tags(i), &self.describe(i), sink);
    }
}

struct Pairs {
    values: Vec<V>,
}
const LAYOUTS: [&str; 3] = ["same-row", "same-column", "two-sheets"];
impl Pairs {
    fn decode(&self, i: u64) -> (usize, usize, usize) {
        let n = self.values.len() as u64;
        let lay = i % 3;
        let r = i / 3;
        ((r / n) as usize, (r % n) as usize, lay as usize)
    }
}
impl Space for Pairs {
    fn len(&self) -> u64 {
        (self.values.len() * self.values.len() * 3) as u64
    }
    fn describe(&self, i: u64) -> Value {
        let (a, b, l) = self.decode(i);
        json!({"kind":"pair","first": self.values[a].json(), "second": self.values[b].json(), "layout": LAYOUTS[l], "light": (a + b) % 2 == 1})
    }
    fn tags(&self, i: u64) -> Vec<String> {
        let (a, b, l) = self.decode(i);
        let mut t = self.values[a].tags();
        t.extend(self.values[b].tags());
        t.push(format!("layout:{}", LAYOUTS[l]));
        t.sort();
        t.dedup();
        t
    }
    fn run(&self, i: u64, sink: &mut Sink) {
        let (a, b, l) = self.decode(i);
        let mut book = new_file();
        match l {
            0 => {
                let ws = book.get_sheet_mut(&0).unwrap();
                self.values[a].apply(ws.get_cell_mut("B2"));
                self.values[b].apply(ws.get_cell_mut("D2"));
            }
            1 => {
                let ws = book.get_sheet_mut(&0).unwrap();
                self.values[a].apply(ws.get_cell_mut("B2"));
                self.values[b].apply(ws.get_cell_mut("B5"));
            }
            _ => {
                book.new_sheet("Second").unwrap();
                self.values[a].apply(book.get_sheet_mut(&0).unwrap().get_cell_mut("B2"));
                self.values[b].apply(book.get_sheet_mut(&1).unwrap().get_cell_mut("A1"));
            }
        }
        check_book(&book, (a + b) % 2 == 1, &self.tags(i), &self.describe(i), sink);
    }
}

struct Triples {
    values: Vec<V>,
}
impl Space for Triples {
    fn len(&self) -> u64 {
        (self.values.len().pow(3)) as u64
    }
    fn describe(&self, i: u64) -> Value {
        let n = self.values.len() as u64;
        let (a, b, c) = ((i / (n * n)) as usize, ((i / n) % n) as usize, (i % n) as usize);
        json!({"kind":"triple","values": [self.values[a].json(), self.values[b].json(), self.values[c].json()], "cells": ["A1","B1","A2"], "light": i % 2 == 1})
    }
    fn tags(&self, i: u64) -> Vec<String> {
        let n = self.values.len() as u64;
        let mut t = vec![];
        for k in [(i / (n * n)) as usize, ((i / n) % n) as usize, (i % n) as usize] {
            t.extend(self.values[k].tags());
        }
        t.sort();
        t.dedup();
        t
    }
    fn run(&self, i: u64, sink: &mut Sink) {
        let n = self.values.len() as u64;
        let (a, b, c) = ((i / (n * n)) as usize, ((i / n) % n) as usize, (i % n) as usize);
        let mut book = new_file();
        let ws = book.get_sheet_mut(&0).unwrap();
        self.values[a].apply(ws.get_cell_mut("A1"));
        self.values[b].apply(ws.get_cell_mut("B1"));
        self.values[c].apply(ws.get_cell_mut("A2"));
        check_book(&book, i % 2 == 1, &self.tags(i), &self.describe(i), sink);
    }
}

/// number grid m*10^e, m in 1..=999, e in -20..=20; one workbook per (e, sign)
struct Grid;
impl Space for Grid {
    fn len(&self) -> u64 {
        41 * 2
    }
    fn describe(&self, i: u64) -> Value {
        json!({"kind":"number-grid","exponent": (i / 2) as i64 - 20, "negative": i % 2 == 1, "mantissas": "1..=999"})
    }
    fn tags(&self, _i: u64) -> Vec<String> {
        vec!["number".into(), "number-grid".into()]
    }
    fn run(&self, i: u64, sink: &mut Sink) {
        let e = (i / 2) as i32 - 20;
        let neg = i % 2 == 1;
        let mut book = new_file();
        let ws = book.get_sheet_mut(&0).unwrap();
        for m in 1..=999u32 {
            // the f64 whose shortest representation is "<m>e<e>"
            let x: f64 = format!("{}{}e{}", if neg { "-" } else { "" }, m, e).parse().unwrap();
            ws.get_cell_mut((1 + (m % 10), 1 + m / 10)).set_value_number(x);
        }
        sink.evaluations += 998;
        check_book(&book, i % 3 == 0, &self.tags(i), &self.describe(i), sink);
    }
}

/// workbooks whose cells got to their place through structural API calls (move / copy / insert / remove)
/// instead of direct setters: the set of non-blank cells before save must still equal the set after reload
struct Built {
    values: Vec<V>,
}
const BUILD_OPS: [&str; 8] = ["move-into-fresh-rows", "copy-into-fresh-rows", "move-right", "insert-row-before", "insert-column-before", "remove-row-before", "remove-column-before", "move-then-set-below"];
impl Space for Built {
    fn len(&self) -> u64 {
        (self.values.len() * BUILD_OPS.len()) as u64
    }
    fn describe(&self, i: u64) -> Value {
        let n = BUILD_OPS.len() as u64;
        json!({"kind":"built-by-structural-ops","value": self.values[(i / n) as usize].json(), "build": BUILD_OPS[(i % n) as usize], "light": i % 2 == 1})
    }
    fn tags(&self, i: u64) -> Vec<String> {
        let n = BUILD_OPS.len() as u64;
        let mut t = self.values[(i / n) as usize].tags();
        t.push(format!("build:{}", BUILD_OPS[(i % n) as usize]));
        t
    }
    fn run(&self, i: u64, sink: &mut Sink) {
        let n = BUILD_OPS.len() as u64;
        let v = &self.values[(i / n) as usize];
        let mut book = new_file();
        {
            let ws = book.get_sheet_mut(&0).unwrap();
            v.apply(ws.get_cell_mut("B2"));
            ws.get_cell_mut("C2").set_value_number(7);
            ws.get_cell_mut("B3").set_value_string("below");
            match BUILD_OPS[(i % n) as usize] {
                "move-into-fresh-rows" => {
                    ws.move_range("B2:C3", &10, &1);
                }
                "copy-into-fresh-rows" => {
                    ws.copy_range("B2:C3", &20, &0);
                }
                "move-right" => {
                    ws.move_range("B2:C2", &0, &5);
                }
                "insert-row-before" => ws.insert_new_row(&2, &3),
                "insert-column-before" => ws.insert_new_column_by_index(&1, &2),
                "remove-row-before" => ws.remove_row(&1, &1),
                "remove-column-before" => ws.remove_column_by_index(&1, &1),
                _ => {
                    ws.move_range("B2:C3", &10, &0);
                    ws.get_cell_mut("A30").set_value_string("written after the move");
                }
            }
        }
        check_book(&book, i % 2 == 1, &self.tags(i), &self.describe(i), sink);
    }
}


/// The same cell written twice (three times in the thorough tier), optionally with a save + reload in between: the value a
/// cell had before must leave nothing behind (kind, cached result, formula, shared-string item of a loaded cell).
struct Overwrite {
    values: Vec<V>,
    depth: usize,
}
const BOUNDARIES: [&str; 3] = ["same-object", "reload-between", "reload-between-light"];
impl Overwrite {
    fn decode(&self, i: u64) -> (Vec<usize>, usize) {
        let n = self.values.len() as u64;
        let b = (i % BOUNDARIES.len() as u64) as usize;
        let mut r = i / BOUNDARIES.len() as u64;
        let mut idx = vec![];
        for _ in 0..self.depth {
            idx.push((r % n) as usize);
            r /= n;
        }
        (idx, b)
    }
}
impl Space for Overwrite {
    fn len(&self) -> u64 {
        (self.values.len() as u64).pow(self.depth as u32) * BOUNDARIES.len() as u64
    }
    fn describe(&self, i: u64) -> Value {
        let (idx, b) = self.decode(i);
        json!({"kind":"overwrite","writes": idx.iter().map(|k| self.values[*k].json()).collect::<Vec<_>>(), "boundary": BOUNDARIES[b]})
    }
    fn tags(&self, i: u64) -> Vec<String> {
        let (idx, b) = self.decode(i);
        let mut t = self.values[*idx.last().unwrap()].tags();
        for k in &idx[..idx.len() - 1] {
            for x in self.values[*k].tags() {
                t.push(format!("earlier:{}", x));
            }
        }
        t.push(format!("boundary:{}", BOUNDARIES[b]));
        t.sort();
        t.dedup();
        t
    }
    fn run(&self, i: u64, sink: &mut Sink) {
        let (idx, b) = self.decode(i);
        let tags = self.tags(i);
        let tg: Vec<&str> = tags.iter().map(|s| s.as_str()).collect();
        let case = self.describe(i);
        let mut book = new_file();
        book.get_sheet_mut(&0).unwrap().get_cell_mut("A1").set_value_string("anchor");
        for (n, k) in idx.iter().enumerate() {
            self.values[*k].apply(book.get_sheet_mut(&0).unwrap().get_cell_mut("B2"));
            if b > 0 && n + 1 < idx.len() {
                match roundtrip(&book, b == 2) {
                    Ok((_, b2)) => book = b2,
                    Err(e) => {
                        sink.violations.push(Violation::new("roundtrip-succeeds", &format!("failed:{}", panic_class(&e)), &tg, case.clone(), format!("intermediate generation: {}", e)));
                        return;
                    }
                }
            }
        }
        check_book(&book, i % 2 == 1, &tags, &case, sink);
        // differential: the history must end in the same content as writing the last value into a fresh cell
        let mut fresh = new_file();
        fresh.get_sheet_mut(&0).unwrap().get_cell_mut("A1").set_value_string("anchor");
        self.values[*idx.last().unwrap()].apply(fresh.get_sheet_mut(&0).unwrap().get_cell_mut("B2"));
        if let (Ok((_, h)), Ok((_, f))) = (roundtrip(&book, false), roundtrip(&fresh, false)) {
            let (ch, cf) = (content(&h), content(&f));
            if let Some((path, l, r)) = first_diff(&ch, &cf) {
                sink.violations.push(Violation::new("history-independent", &format!("residue:{}", classify(&path, &l, &r)), &tg, case.clone(), format!("{}: after the history {} but {} when only the last value is written", path, l, r)));
            }
        }
    }
}

// ------------------------------------------------------------------------------------------------
/// (annotated) a cell's content must not depend on what else is attached to its position: every core16 value at an
/// off-diagonal / diagonal position, with one annotation that the reader applies in a pass of its own (hyperlink,
/// comment, data validation, conditional format, merged block), with and without a cell at the transposed position.
const ANN_POS: [(&str, &str); 4] = [("A5", "E1"), ("C7", "G3"), ("D2", "B4"), ("B2", "B2")];
const ANNOTATIONS: [&str; 7] = ["link-url", "link-location", "comment", "validation", "cond-format", "merge-corner", "link+comment"];
struct Annotated {
    values: Vec<V>,
}
impl Annotated {
    fn decode(&self, i: u64) -> (usize, usize, bool, usize) {
        let a = (i % ANNOTATIONS.len() as u64) as usize;
        let r = i / ANNOTATIONS.len() as u64;
        let tr = r % 2 == 1;
        let r = r / 2;
        let p = (r % ANN_POS.len() as u64) as usize;
        ((r / ANN_POS.len() as u64) as usize, p, tr, a)
    }
}
impl Space for Annotated {
    fn len(&self) -> u64 {
        (self.values.len() * ANN_POS.len() * 2 * ANNOTATIONS.len()) as u64
    }
    fn describe(&self, i: u64) -> Value {
        let (v, p, tr, a) = self.decode(i);
        json!({"kind":"annotated","value": self.values[v].json(), "position": ANN_POS[p].0, "annotation": ANNOTATIONS[a], "cell_at_transposed_position": if tr { json!(ANN_POS[p].1) } else { Value::Null }})
    }
    fn tags(&self, i: u64) -> Vec<String> {
        let (v, p, tr, a) = self.decode(i);
        let mut t = self.values[v].tags();
        t.push(format!("annotation:{}", ANNOTATIONS[a]));
        if ANN_POS[p].0 != ANN_POS[p].1 {
            t.push("off-diagonal".into());
        }
        if tr {
            t.push("transposed-cell-present".into());
        }
        t
    }
    fn run(&self, i: u64, sink: &mut Sink) {
        let (v, p, tr, a) = self.decode(i);
        let pos = ANN_POS[p].0;
        let mut b = new_file();
        let ws = b.get_sheet_mut(&0).unwrap();
        self.values[v].apply(ws.get_cell_mut(pos));
        if tr && ANN_POS[p].1 != pos {
            ws.get_cell_mut(ANN_POS[p].1).set_value_string("transposed");
        }
        let ann = ANNOTATIONS[a];
        if ann.starts_with("link") {
            let h = ws.get_cell_mut(pos).get_hyperlink_mut();
            if ann == "link-location" {
                h.set_url("Sheet1!A1");
                h.set_location(true);
            } else {
                h.set_url("https://example.com/x?a=1&b=2");
                h.set_tooltip("tip");
            }
        }
        if ann.ends_with("comment") {
            let mut c = Comment::default();
            c.new_comment(pos);
            c.set_author("author");
            c.set_text_string("a comment");
            ws.add_comments(c);
        }
        match ann {
            "validation" => {
                let mut dv = DataValidation::default();
                dv.set_type(DataValidationValues::Whole);
                dv.set_formula1("1");
                dv.set_formula2("10");
                dv.set_operator(DataValidationOperatorValues::Between);
                let mut seq = SequenceOfReferences::default();
                seq.set_sqref(pos);
                dv.set_sequence_of_references(seq);
                let mut dvs = DataValidations::default();
                dvs.add_data_validation_list(dv);
                ws.set_data_validations(dvs);
            }
            "cond-format" => {
                let mut form = Formula::default();
                form.set_string_value("5");
                let mut rule = ConditionalFormattingRule::default();
                rule.set_type(ConditionalFormatValues::CellIs).set_operator(ConditionalFormattingOperatorValues::GreaterThan).set_priority(1).set_formula(form);
                let mut seq = SequenceOfReferences::default();
                seq.set_sqref(pos);
                let mut cf = ConditionalFormatting::default();
                cf.set_sequence_of_references(seq);
                cf.set_conditional_collection(vec![rule]);
                ws.set_conditional_formatting_collection(vec![cf]);
            }
            "merge-corner" => {
                // the cell is the top-left corner of a 2x2 merged block
                let (c, r) = {
                    let co = ws.get_cell(pos).map(|c| (*c.get_coordinate().get_col_num(), *c.get_coordinate().get_row_num())).unwrap_or((1, 1));
                    co
                };
                let end = umya_spreadsheet::helper::coordinate::coordinate_from_index(&(c + 1), &(r + 1));
                ws.add_merge_cells(format!("{}:{}", pos, end));
            }
            _ => {}
        }
        check_book(&b, i % 2 == 1, &self.tags(i), &self.describe(i), sink);
    }
}

pub fn space(tier: Tier, id: &str) -> Option<Box<dyn Space>> {
    match id {
        "annotated" => Some(Box::new(Annotated { values: core16() })),
        "overwrite" => Some(Box::new(Overwrite { values: core16(), depth: if tier == Tier::Thorough { 3 } else { 2 } })),
        "built" => Some(Box::new(Built { values: core16() })),
        "singles" => Some(Box::new(Singles { values: single_values(tier) })),
        "pairs" => Some(Box::new(Pairs { values: core_values() })),
        "triples" => Some(Box::new(Triples { values: core16() })),
        "grid" => Some(Box::new(Grid)),
        _ => None,
    }
}

fn replay(tier: Tier, case: &Value) -> Vec<Violation> {
    replay_e1(space(tier, case["_space"].as_str().unwrap_or("")), case)
}

fn run(ctx: &Ctx) -> i32 {
    let ids: Vec<&'static str> = if ctx.tier == Tier::Thorough { vec!["singles", "pairs", "triples", "grid", "built", "overwrite", "annotated"] } else { vec!["singles", "pairs", "grid", "built", "overwrite", "annotated"] };
    let spaces = ids.iter().map(|id| (*id, space(ctx.tier, id).unwrap())).collect();
    run_e1(
        ctx,
        E1Spec {
            spaces,
            cfg: PoolCfg { chunk: 64, case_timeout: std::time::Duration::from_secs(60), ..Default::default() },
            level: "exploration",
            rule: "every workbook of: (singles) each value of the value alphabet x 9 positions x both writers; (pairs) every ordered pair of the 70-value core in 3 layouts (same row, same column, two sheets); (triples, thorough) every ordered triple of a 16-value core; (grid) every m*10^e, m=1..999, e=-20..20, both signs; (built) each value of the 16-value core in a workbook whose cells reached their place through 8 structural API calls (move/copy into fresh rows, insert/remove rows and columns); (overwrite) every sequence of 2 (thorough: 3) writes of the 16-value core into the SAME cell, with and without a save + reload between the writes (both writers): besides the round trip, the reloaded content must equal that of a workbook where only the last value was written (clause history-independent). Oracle: content projection (cell set, value text, kind, raw variant, f64 bits, rich runs, formula text) before save == after reload. distinct_nontrivial = distinct reloaded content dumps".into(),
            alphabets: json!({"text_atoms": ATOMS.iter().map(|a| a.0).collect::<Vec<_>>(), "single_values": single_values(ctx.tier).len(), "positions": POSITIONS, "core_values": core_values().len(), "core16": core16().len(), "formulas": FORMULAS, "errors": ERRORS, "number_thresholds": number_thresholds().len()}),
            bounds: json!({"text_atoms_max": if ctx.tier == Tier::Thorough {3} else {2}, "cells_per_workbook": "1 (singles), 2 (pairs), 3 (triples), 999 (grid)"}),
            exhaustive: true,
            caps_hit: vec![],
            assumptions: vec!["set_value_lazy is outside the alphabet (a lazy cell has no defined kind before it is resolved)".into(), "blank unstyled cells may vanish (statement: non-blank cells)".into()],
            min_distinct: 100,
        },
    )
}
