//! E1: bounded-exhaustive enumerator.  A `Space` is a finite, deterministically indexed case space.
//! The parent shards it over worker *processes* (so that a hang or an abort in the subject can be
//! attributed to one case and stepped over), enforces a per-case watchdog through a shared progress
//! page, and merges counts, observation hashes, samples and violations.
use crate::common::*;
use serde_json::{json, Value};
use std::collections::{BTreeMap, HashSet};
use std::io::{BufRead, BufReader, Write};
use std::os::unix::io::AsRawFd;
use std::process::{Child, Command, Stdio};
use std::sync::mpsc;
use std::time::{Duration, Instant};

pub struct Sink {
    pub evaluations: u64,
    /// hashes of non-trivial observations (what "non-trivial" means is stated in the check's `rule`)
    pub hashes: Vec<u64>,
    pub violations: Vec<Violation>,
    pub counters: BTreeMap<String, u64>,
    pub samples: Vec<Value>,
    /// set by the worker for the few cases whose description should be copied into the evidence
    pub sample_this: bool,
    /// liveness + "what am I executing" channel to the supervising parent (long cases call `note`)
    pub beat: Beat,
}

/// Pointer into the shared progress page (null when not running under the pool).
#[derive(Clone, Copy)]
pub struct Beat(pub *mut u8);
unsafe impl Send for Beat {}
unsafe impl Sync for Beat {}
impl Beat {
    /// Record what is about to be executed (truncated to 4000 bytes) and bump the liveness tick.
    #[inline]
    pub fn note(&self, s: &str) {
        if self.0.is_null() {
            return;
        }
        let b = s.as_bytes();
        let n = b.len().min(4000);
        unsafe {
            std::ptr::copy_nonoverlapping(b.as_ptr(), self.0.add(24), n);
            std::ptr::write_volatile(self.0.add(16) as *mut u64, n as u64);
            let t = std::ptr::read_volatile(self.0 as *const u64);
            std::ptr::write_volatile(self.0 as *mut u64, t.wrapping_add(1));
        }
    }
}
impl Sink {
    pub fn new() -> Sink {
        Sink { evaluations: 0, hashes: vec![], violations: vec![], counters: BTreeMap::new(), samples: vec![], sample_this: false, beat: Beat(std::ptr::null_mut()) }
    }
    pub fn count(&mut self, k: &str, n: u64) {
        *self.counters.entry(k.to_string()).or_insert(0) += n;
    }
    pub fn obs(&mut self, s: &str) {
        self.hashes.push(fnv(s.as_bytes()));
    }
}

pub trait Space: Sync {
    fn len(&self) -> u64;
    /// Evaluate case `i` (subject + oracle).  Must be a deterministic function of `i`.
    fn run(&self, i: u64, sink: &mut Sink);
    fn describe(&self, i: u64) -> Value;
    fn tags(&self, _i: u64) -> Vec<String> {
        vec![]
    }
}

/// The same cases in DESCENDING index order (id suffix "~rev"): library code with process-wide state (caches, memo
/// tables, statics) sees every case after a different predecessor than in the ascending pass.
pub struct Reversed(pub Box<dyn Space>);
impl Space for Reversed {
    fn len(&self) -> u64 {
        self.0.len()
    }
    fn run(&self, i: u64, sink: &mut Sink) {
        self.0.run(self.0.len() - 1 - i, sink)
    }
    fn describe(&self, i: u64) -> Value {
        let mut v = self.0.describe(self.0.len() - 1 - i);
        if let Some(m) = v.as_object_mut() {
            m.insert("order".into(), Value::String("descending pass".into()));
        }
        v
    }
    fn tags(&self, i: u64) -> Vec<String> {
        self.0.tags(self.0.len() - 1 - i)
    }
}
pub fn reversed_of(id: &str, inner: impl Fn(&str) -> Option<Box<dyn Space>>) -> Option<Option<Box<dyn Space>>> {
    id.strip_suffix("~rev").map(|base| inner(base).map(|s| Box::new(Reversed(s)) as Box<dyn Space>))
}

/// SUPPLEMENTARY, not part of any exhaustive claim: `threads` consecutive cases of the inner space run at the same
/// time on free-running OS threads (id suffix "~par"). The interleavings are whatever the machine produces - sampled,
/// not enumerated - so a clean pass proves nothing; but the oracles are absolute, so anything it reports is a real
/// wrong result. It exists because a lock or cache that a change introduces carries no hook point the cooperative
/// scheduler could own.
pub struct Concurrent {
    pub inner: Box<dyn Space>,
    pub threads: u64,
}
impl Space for Concurrent {
    fn len(&self) -> u64 {
        (self.inner.len() + self.threads - 1) / self.threads
    }
    fn run(&self, i: u64, sink: &mut Sink) {
        let lo = i * self.threads;
        let hi = ((i + 1) * self.threads).min(self.inner.len());
        let inner = &self.inner;
        let parts: Vec<Sink> = std::thread::scope(|sc| {
            let hs: Vec<_> = (lo..hi)
                .map(|j| {
                    sc.spawn(move || {
                        let mut sk = Sink::new();
                        inner.run(j, &mut sk);
                        sk
                    })
                })
                .collect();
            hs.into_iter().filter_map(|h| h.join().ok()).collect()
        });
        for p in parts {
            sink.evaluations += p.evaluations;
            sink.hashes.extend(p.hashes);
            for (k, v) in p.counters {
                *sink.counters.entry(k).or_insert(0) += v;
            }
            for mut v in p.violations {
                v.tags.push("concurrent-pass".to_string());
                v.detail = format!("(while {} cases ran at the same time on free-running threads) {}", hi - lo, v.detail);
                sink.violations.push(v);
            }
        }
    }
    fn describe(&self, i: u64) -> Value {
        let lo = i * self.threads;
        let hi = ((i + 1) * self.threads).min(self.inner.len());
        serde_json::json!({"concurrent_cases": (lo..hi).map(|j| self.inner.describe(j)).collect::<Vec<_>>(), "order": "at the same time, free-running threads (supplementary, sampled)"})
    }
    fn tags(&self, i: u64) -> Vec<String> {
        let mut t = self.inner.tags((i * self.threads).min(self.inner.len() - 1));
        t.push("concurrent-pass".into());
        t
    }
}
pub fn concurrent_of(id: &str, inner: impl Fn(&str) -> Option<Box<dyn Space>>) -> Option<Option<Box<dyn Space>>> {
    id.strip_suffix("~par").map(|base| inner(base).map(|s| Box::new(Concurrent { inner: s, threads: 4 }) as Box<dyn Space>))
}

pub struct PoolCfg {
    pub workers: usize,
    pub chunk: u64,
    pub case_timeout: Duration,
    /// kept violations per (clause,symptom,tags) class
    pub keep_per_class: usize,
}
impl Default for PoolCfg {
    fn default() -> Self {
        PoolCfg { workers: ncpu(), chunk: 64, case_timeout: Duration::from_secs(10), keep_per_class: 3 }
    }
}

pub fn ncpu() -> usize {
    std::thread::available_parallelism().map(|n| n.get()).unwrap_or(4).min(16)
}

pub struct PoolResult {
    pub len: u64,
    pub evaluations: u64,
    pub distinct: u64,
    pub violations: Vec<Violation>,
    pub class_counts: BTreeMap<(String, String), u64>,
    pub counters: BTreeMap<String, u64>,
    pub samples: Vec<Value>,
    pub hangs: u64,
    pub crashes: u64,
    pub cases_done: u64,
}

// ------------------------------------------------------------------------------------------------
// progress page
struct Progress {
    ptr: *mut u64,
    _file: std::fs::File,
}
impl Progress {
    fn create(path: &str) -> Progress {
        let file = std::fs::OpenOptions::new().read(true).write(true).create(true).truncate(true).open(path).expect("progress file");
        file.set_len(4096).unwrap();
        let ptr = unsafe { libc::mmap(std::ptr::null_mut(), 4096, libc::PROT_READ | libc::PROT_WRITE, libc::MAP_SHARED, file.as_raw_fd(), 0) };
        assert!(ptr != libc::MAP_FAILED);
        Progress { ptr: ptr as *mut u64, _file: file }
    }
    #[inline]
    fn set(&self, index: u64) {
        unsafe {
            std::ptr::write_volatile(self.ptr.add(1), index);
            std::ptr::write_volatile(self.ptr.add(2), 0);
            let t = std::ptr::read_volatile(self.ptr);
            std::ptr::write_volatile(self.ptr, t.wrapping_add(1));
        }
    }
}
fn read_progress(path: &str) -> (u64, u64) {
    match std::fs::read(path) {
        Ok(b) if b.len() >= 16 => (u64::from_le_bytes(b[0..8].try_into().unwrap()), u64::from_le_bytes(b[8..16].try_into().unwrap())),
        _ => (0, 0),
    }
}
fn read_note(path: &str) -> String {
    match std::fs::read(path) {
        Ok(b) if b.len() >= 24 => {
            let n = (u64::from_le_bytes(b[16..24].try_into().unwrap()) as usize).min(b.len() - 24);
            String::from_utf8_lossy(&b[24..24 + n]).to_string()
        }
        _ => String::new(),
    }
}

// ------------------------------------------------------------------------------------------------
// worker side

/// args: <shard> <nshards> <start> <chunk> <keep> <progress-path> <hash-path> <sample-stride> <seed>
pub fn run_worker(space: &dyn Space, args: &[String]) -> i32 {
    let shard: u64 = args[0].parse().unwrap();
    let nshards: u64 = args[1].parse().unwrap();
    let start: u64 = args[2].parse().unwrap();
    let chunk: u64 = args[3].parse().unwrap();
    let keep: usize = args[4].parse().unwrap();
    let prog = Progress::create(&args[5]);
    let mut hash_file = std::fs::OpenOptions::new().create(true).append(true).open(&args[6]).expect("hash file");
    let stride: u64 = args[7].parse().unwrap();
    let seed: u64 = args[8].parse().unwrap();
    // address-space cap: an allocation blow-up aborts this worker only
    unsafe {
        let lim = libc::rlimit { rlim_cur: 6 << 30, rlim_max: 6 << 30 };
        libc::setrlimit(libc::RLIMIT_AS, &lim);
    }
    quiet_panics();
    let stdout = std::io::stdout();
    let n = space.len();
    let mut kept: BTreeMap<(String, String, Vec<String>), usize> = BTreeMap::new();
    let mut c = (start / chunk).max(0);
    // first chunk that belongs to this shard at or after `start`
    while c % nshards != shard {
        c += 1;
    }
    let mut samples_given = 0;
    while c * chunk < n {
        let lo = (c * chunk).max(start);
        let hi = ((c + 1) * chunk).min(n);
        let mut sink = Sink::new();
        let mut classes: BTreeMap<(String, String), u64> = BTreeMap::new();
        let mut done = 0u64;
        for i in lo..hi {
            prog.set(i);
            sink.beat = Beat(prog.ptr as *mut u8);
            sink.sample_this = samples_given < 3 && (i.wrapping_add(seed)) % stride == 0;
            let nv0 = sink.violations.len();
            let r = std::panic::catch_unwind(std::panic::AssertUnwindSafe(|| space.run(i, &mut sink)));
            if let Err(e) = r {
                // a panic that escaped the check's own catch_unwind: attribute it to the case
                let msg = panic_msg(&e);
                sink.violations.push(Violation {
                    clause: "no-panic".into(),
                    symptom: format!("panic:{}", panic_class(&msg)),
                    tags: space.tags(i),
                    case: space.describe(i),
                    detail: format!("uncaught panic in case {}: {}", i, msg),
                });
            }
            if sink.sample_this {
                if sink.samples.is_empty() {
                    sink.samples.push(space.describe(i));
                }
                samples_given += 1;
            }
            if sink.violations.len() > nv0 {
                let mut seen_here: HashSet<(String, String)> = HashSet::new();
                let new: Vec<Violation> = sink.violations.drain(nv0..).collect();
                for mut v in new {
                    if let Value::Object(m) = &mut v.case {
                        m.insert("_index".into(), json!(i));
                    }
                    if seen_here.insert((v.clause.clone(), v.symptom.clone())) {
                        *classes.entry((v.clause.clone(), v.symptom.clone())).or_insert(0) += 1;
                    }
                    let k = kept.entry((v.clause.clone(), v.symptom.clone(), v.tags.clone())).or_insert(0);
                    if *k < keep {
                        *k += 1;
                        let mut o = stdout.lock();
                        let _ = writeln!(o, "V {}", v.to_json());
                        let _ = o.flush();
                    }
                }
            }
            done += 1;
        }
        // chunk summary
        let mut hb: Vec<u8> = Vec::with_capacity(sink.hashes.len() * 8);
        for h in &sink.hashes {
            hb.extend_from_slice(&h.to_le_bytes());
        }
        let _ = hash_file.write_all(&hb);
        let _ = hash_file.flush();
        let cls: Vec<Value> = classes.iter().map(|((a, b), n)| json!([a, b, n])).collect();
        let s = json!({"ev": sink.evaluations, "cases": done, "counters": sink.counters, "classes": cls, "samples": sink.samples});
        {
            let mut o = stdout.lock();
            let _ = writeln!(o, "S {}", s);
            let _ = o.flush();
        }
        c += nshards;
    }
    {
        let mut o = stdout.lock();
        let _ = writeln!(o, "D");
        let _ = o.flush();
    }
    0
}

// ------------------------------------------------------------------------------------------------
// parent side

/// CPU seconds (user+system) consumed so far by process `pid` (0.0 if unreadable).
fn cpu_seconds(pid: u32) -> f64 {
    let txt = match std::fs::read_to_string(format!("/proc/{}/stat", pid)) {
        Ok(t) => t,
        Err(_) => return 0.0,
    };
    // fields after the closing parenthesis of comm: state is field 3, utime 14, stime 15
    let rest = match txt.rfind(')') {
        Some(p) => &txt[p + 1..],
        None => return 0.0,
    };
    let f: Vec<&str> = rest.split_whitespace().collect();
    if f.len() < 13 {
        return 0.0;
    }
    let ut: f64 = f[11].parse().unwrap_or(0.0);
    let st: f64 = f[12].parse().unwrap_or(0.0);
    let hz = unsafe { libc::sysconf(libc::_SC_CLK_TCK) } as f64;
    (ut + st) / if hz > 0.0 { hz } else { 100.0 }
}

struct Slot {
    cpu_at_change: f64,
    shard: u64,
    child: Child,
    prog_path: String,
    last_tick: u64,
    last_change: Instant,
    done: bool,
    started: Instant,
}

enum Msg {
    Line(u64, String),
    Eof(u64),
}

fn spawn_worker(ctx: &Ctx, space_id: &str, shard: u64, nshards: u64, start: u64, cfg: &PoolCfg, len: u64, gen: u64, tx: &mpsc::Sender<Msg>) -> Slot {
    let wd = work_dir(&ctx.prop);
    let prog_path = format!("{}/{}.prog.{}", wd, space_id, shard);
    let hash_path = format!("{}/{}.hash.{}", wd, space_id, shard);
    let _ = std::fs::remove_file(&prog_path);
    if gen == 0 {
        let _ = std::fs::remove_file(&hash_path);
    }
    let stride = (len / 6).max(1);
    let exe = std::env::current_exe().expect("current_exe");
    let mut child = Command::new(exe)
        .arg("--worker")
        .arg(&ctx.prop)
        .arg(ctx.tier.name())
        .arg(space_id)
        .arg(shard.to_string())
        .arg(nshards.to_string())
        .arg(start.to_string())
        .arg(cfg.chunk.to_string())
        .arg(cfg.keep_per_class.to_string())
        .arg(&prog_path)
        .arg(&hash_path)
        .arg(stride.to_string())
        .arg(ctx.seed.to_string())
        .stdin(Stdio::null())
        .stdout(Stdio::piped())
        .stderr(Stdio::inherit())
        .spawn()
        .expect("spawn worker");
    let out = child.stdout.take().unwrap();
    let tx2 = tx.clone();
    std::thread::spawn(move || {
        let r = BufReader::with_capacity(1 << 16, out);
        for line in r.lines() {
            match line {
                Ok(l) => {
                    if tx2.send(Msg::Line(shard, l)).is_err() {
                        return;
                    }
                }
                Err(_) => break,
            }
        }
        let _ = tx2.send(Msg::Eof(shard));
    });
    Slot { cpu_at_change: 0.0, shard, child, prog_path, last_tick: 0, last_change: Instant::now(), done: false, started: Instant::now() }
}

pub fn run_parent(ctx: &Ctx, space_id: &str, space: &dyn Space, cfg: &PoolCfg) -> PoolResult {
    let len = space.len();
    let mut res = PoolResult {
        len,
        evaluations: 0,
        distinct: 0,
        violations: vec![],
        class_counts: BTreeMap::new(),
        counters: BTreeMap::new(),
        samples: vec![],
        hangs: 0,
        crashes: 0,
        cases_done: 0,
    };
    if len == 0 {
        return res;
    }
    let nchunks = (len + cfg.chunk - 1) / cfg.chunk;
    let nshards = (cfg.workers as u64).min(nchunks).max(1);
    let (tx, rx) = mpsc::channel::<Msg>();
    let mut slots: Vec<Slot> = (0..nshards).map(|s| spawn_worker(ctx, space_id, s, nshards, 0, cfg, len, 0, &tx)).collect();
    let mut kept: BTreeMap<(String, String, Vec<String>), usize> = BTreeMap::new();
    let mut eof: HashSet<u64> = HashSet::new();
    let mut pending: std::collections::VecDeque<Msg> = std::collections::VecDeque::new();
    let startup_allowance = Duration::from_secs(120);
    let mut live = nshards;
    while live > 0 {
        // drain messages
        let mut got = false;
        while let Some(m) = pending.pop_front().or_else(|| rx.try_recv().ok()) {
            got = true;
            match m {
                Msg::Line(shard, l) => {
                    if let Some(rest) = l.strip_prefix("V ") {
                        if let Ok(v) = serde_json::from_str::<Value>(rest) {
                            let mut v = Violation::from_json(&v);
                            if let Value::Object(m) = &mut v.case {
                                m.insert("_space".into(), json!(space_id));
                            }
                            let k = kept.entry((v.clause.clone(), v.symptom.clone(), v.tags.clone())).or_insert(0);
                            if *k < cfg.keep_per_class {
                                *k += 1;
                                res.violations.push(v);
                            }
                        }
                    } else if let Some(rest) = l.strip_prefix("S ") {
                        if let Ok(v) = serde_json::from_str::<Value>(rest) {
                            res.evaluations += v["ev"].as_u64().unwrap_or(0);
                            res.cases_done += v["cases"].as_u64().unwrap_or(0);
                            if let Some(m) = v["counters"].as_object() {
                                for (k, n) in m {
                                    *res.counters.entry(k.clone()).or_insert(0) += n.as_u64().unwrap_or(0);
                                }
                            }
                            if let Some(a) = v["classes"].as_array() {
                                for c in a {
                                    let key = (c[0].as_str().unwrap_or("").to_string(), c[1].as_str().unwrap_or("").to_string());
                                    *res.class_counts.entry(key).or_insert(0) += c[2].as_u64().unwrap_or(0);
                                }
                            }
                            if let Some(a) = v["samples"].as_array() {
                                for s in a {
                                    if res.samples.len() < 12 {
                                        res.samples.push(s.clone());
                                    }
                                }
                            }
                        }
                    } else if l == "D" {
                        for s in slots.iter_mut() {
                            if s.shard == shard {
                                s.done = true;
                            }
                        }
                    }
                }
                Msg::Eof(shard) => {
                    eof.insert(shard);
                }
            }
        }
        // supervise
        for idx in 0..slots.len() {
            let shard = slots[idx].shard;
            if slots[idx].done && eof.contains(&shard) {
                let _ = slots[idx].child.wait();
                eof.remove(&shard);
                slots[idx].done = false;
                slots[idx].last_tick = u64::MAX; // retired marker
                live -= 1;
                continue;
            }
            if slots[idx].last_tick == u64::MAX {
                continue;
            }
            let (tick, index) = read_progress(&slots[idx].prog_path);
            if tick != slots[idx].last_tick {
                slots[idx].last_tick = tick;
                slots[idx].last_change = Instant::now();
                slots[idx].cpu_at_change = cpu_seconds(slots[idx].child.id());
            }
            let exited = matches!(slots[idx].child.try_wait(), Ok(Some(_)));
            if exited && eof.contains(&shard) && !slots[idx].done {
                // died without "D": crash in case `index` (abort, stack overflow, allocation failure, kill)
                let status = slots[idx].child.wait().ok();
                let note = read_note(&slots[idx].prog_path);
                eof.remove(&shard);
                if tick == 0 {
                    eprintln!("MACHINERY: worker {} of {} died before its first case ({:?})", shard, ctx.prop, status);
                    std::process::exit(2);
                }
                res.crashes += 1;
                let v = Violation {
                    clause: "terminates".into(),
                    symptom: "crash".into(),
                    tags: space.tags(index),
                    case: space.describe(index),
                    detail: format!("worker process died ({:?}) while running case {}; executing: {}", status, index, note),
                };
                *res.class_counts.entry((v.clause.clone(), v.symptom.clone())).or_insert(0) += 1;
                let k = kept.entry((v.clause.clone(), v.symptom.clone(), v.tags.clone())).or_insert(0);
                if *k < cfg.keep_per_class {
                    *k += 1;
                    res.violations.push(v);
                }
                let s = spawn_worker(ctx, space_id, shard, nshards, index + 1, cfg, len, 1, &tx);
                slots[idx] = s;
                continue;
            }
            // A case is hung when the worker has burnt `case_timeout` of CPU time without progress (a loaded
            // machine must not turn a starved, healthy worker into a "hang"), or - for workers that block
            // without using CPU - when 10 x case_timeout (at least 120 s) of wall time passed without progress.
            let since = if tick == 0 { slots[idx].started.elapsed() } else { slots[idx].last_change.elapsed() };
            let hung = if tick == 0 {
                since > startup_allowance
            } else if since > cfg.case_timeout {
                let cpu = cpu_seconds(slots[idx].child.id()) - slots[idx].cpu_at_change;
                cpu > cfg.case_timeout.as_secs_f64() || since > (cfg.case_timeout * 10).max(Duration::from_secs(120))
            } else {
                false
            };
            if !exited && !slots[idx].done && hung {
                let note = read_note(&slots[idx].prog_path);
                let _ = slots[idx].child.kill();
                let _ = slots[idx].child.wait();
                // wait for its reader thread to finish
                let t0 = Instant::now();
                while !eof.contains(&shard) && t0.elapsed() < Duration::from_secs(5) {
                    if let Ok(m) = rx.recv_timeout(Duration::from_millis(100)) {
                        match m {
                            Msg::Eof(s) if s == shard => {
                                eof.insert(s);
                            }
                            // messages of other shards (and late lines of this one) must not be lost
                            other => pending.push_back(other),
                        }
                    }
                }
                eof.remove(&shard);
                if tick == 0 {
                    eprintln!("MACHINERY: worker {} of {} did not start within {:?}", shard, ctx.prop, startup_allowance);
                    std::process::exit(2);
                }
                res.hangs += 1;
                let v = Violation {
                    clause: "terminates".into(),
                    symptom: "hang".into(),
                    tags: space.tags(index),
                    case: space.describe(index),
                    detail: format!("case {} made no progress for {:?} (watchdog); worker killed; executing: {}", index, cfg.case_timeout, note),
                };
                *res.class_counts.entry((v.clause.clone(), v.symptom.clone())).or_insert(0) += 1;
                let k = kept.entry((v.clause.clone(), v.symptom.clone(), v.tags.clone())).or_insert(0);
                if *k < cfg.keep_per_class {
                    *k += 1;
                    res.violations.push(v);
                }
                let s = spawn_worker(ctx, space_id, shard, nshards, index + 1, cfg, len, 1, &tx);
                slots[idx] = s;
            }
        }
        if !got {
            std::thread::sleep(Duration::from_millis(20));
        }
    }
    // merge hash files
    let wd = work_dir(&ctx.prop);
    let mut set: HashSet<u64> = HashSet::new();
    for s in 0..nshards {
        let p = format!("{}/{}.hash.{}", wd, space_id, s);
        if let Ok(b) = std::fs::read(&p) {
            for c in b.chunks_exact(8) {
                set.insert(u64::from_le_bytes(c.try_into().unwrap()));
            }
        }
        let _ = std::fs::remove_file(&p);
        let _ = std::fs::remove_file(format!("{}/{}.prog.{}", wd, space_id, s));
    }
    res.distinct = set.len() as u64;
    res
}

/// Run one case in-process (replay).
pub fn run_one(space: &dyn Space, i: u64) -> Sink {
    let mut sink = Sink::new();
    sink.sample_this = true;
    space.run(i, &mut sink);
    sink
}
