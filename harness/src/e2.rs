//! E2: explicit-state breadth-first explorer over *real* library objects stepped in lock-step with a
//! reference model.  A node carries the live object(s) cloned from its parent, so state produced by the
//! history (stale tables, half-updated indexes, shared handles) is really there.  The explorer is run
//! inside a pool case (one case = one seeded initial state, optionally restricted to one first operation),
//! which gives hang/crash attribution and parallelism; merged-state counts are taken per case and globally
//! (state keys go to the pool's hash set).
use crate::common::*;
use crate::pool::Sink;
use serde_json::{json, Value};
use std::collections::HashSet;

pub trait Machine {
    type S: Clone;
    type Op: Clone;
    /// Operations enabled in `s` at this depth (deterministic order, simplest first).
    fn ops(&self, s: &Self::S, depth: usize) -> Vec<Self::Op>;
    fn op_json(&self, op: &Self::Op) -> Value;
    /// Clone `s`, apply `op` to the real object(s) (inside catch_unwind) and to the reference model,
    /// evaluate the oracle on the result.  Returns the successor (None = no successor, e.g. the
    /// operation panicked and the property does not let us continue).  Violations get their `case`
    /// filled in by the explorer (init + path); `step` may leave `case` as Value::Null.
    fn step(&self, s: &Self::S, op: &Self::Op, out: &mut Vec<Violation>) -> Option<Self::S>;
    /// Canonical key of everything later operations can observe (two nodes are merged iff equal).
    fn key(&self, s: &Self::S) -> u128;
}

#[derive(Default, Clone, Debug)]
pub struct Stats {
    pub states: u64,
    pub transitions: u64,
    pub no_successor: u64,
    pub per_depth: Vec<(u64, u64, u64)>, // (frontier size, transitions, new states)
    pub max_depth: usize,
    pub capped: bool,
}

pub fn key_of(s: &str) -> u128 {
    // two independent 64-bit FNV-style hashes
    let mut a: u64 = 0xcbf29ce484222325;
    let mut b: u64 = 0x9e3779b97f4a7c15;
    for x in s.as_bytes() {
        a ^= *x as u64;
        a = a.wrapping_mul(0x100000001b3);
        b = (b ^ (*x as u64)).wrapping_mul(0xff51afd7ed558ccd).rotate_left(23);
    }
    ((a as u128) << 64) | b as u128
}

/// Breadth-first exploration to `depth`.  `first`: if Some(k), only the k-th operation is taken at depth 0
/// (used to split one initial state over several pool cases).  `max_states` caps the number of stored
/// states (reported as `capped`, never silently).
pub fn bfs<M: Machine>(m: &M, init: M::S, init_desc: Value, first: Option<usize>, depth: usize, max_states: u64, sink: &mut Sink) -> Stats {
    let mut st = Stats::default();
    let mut seen: HashSet<u128> = HashSet::new();
    let k0 = m.key(&init);
    seen.insert(k0);
    sink.hashes.push(k0 as u64);
    st.states = 1;
    // frontier node: (state, path of op descriptions, path of op indices)
    let mut frontier: Vec<(M::S, Vec<Value>, Vec<u32>)> = vec![(init, vec![], vec![])];
    for d in 0..depth {
        let mut next = vec![];
        let mut trans = 0u64;
        let mut newst = 0u64;
        let fsize = frontier.len() as u64;
        for (s, path, ipath) in frontier.into_iter() {
            let ops = m.ops(&s, d);
            for (oi, op) in ops.iter().enumerate() {
                if d == 0 {
                    if let Some(f) = first {
                        if oi != f {
                            continue;
                        }
                    }
                }
                let oj = m.op_json(op);
                let mut p2 = path.clone();
                p2.push(oj);
                let mut ip2 = ipath.clone();
                ip2.push(oi as u32);
                sink.beat.note(&format!("init={} path={}", init_desc, Value::Array(p2.clone())));
                let mut vs = vec![];
                let succ = m.step(&s, op, &mut vs);
                trans += 1;
                sink.evaluations += 1;
                for mut v in vs {
                    v.case = json!({"init": init_desc, "path": p2, "ipath": ip2, "extra": v.case});
                    sink.violations.push(v);
                }
                match succ {
                    None => st.no_successor += 1,
                    Some(s2) => {
                        let k = m.key(&s2);
                        if seen.insert(k) {
                            sink.hashes.push(k as u64);
                            newst += 1;
                            if d + 1 < depth {
                                if (seen.len() as u64) < max_states {
                                    next.push((s2, p2, ip2));
                                } else {
                                    st.capped = true;
                                }
                            }
                        }
                    }
                }
            }
        }
        st.transitions += trans;
        st.states += newst;
        st.per_depth.push((fsize, trans, newst));
        st.max_depth = d + 1;
        frontier = next;
        if frontier.is_empty() {
            break;
        }
    }
    sink.count("transitions", st.transitions);
    sink.count("states_per_case_sum", st.states);
    sink.count("no_successor", st.no_successor);
    if st.capped {
        sink.count("capped_cases", 1);
    }
    for (d, (f, t, n)) in st.per_depth.iter().enumerate() {
        sink.count(&format!("depth{}_frontier", d + 1), *f);
        sink.count(&format!("depth{}_transitions", d + 1), *t);
        sink.count(&format!("depth{}_new_states", d + 1), *n);
    }
    st
}

/// Replay a recorded index path from `init`; returns the violations of every step.
pub fn replay_path<M: Machine>(m: &M, init: M::S, ipath: &[u32]) -> Vec<Violation> {
    let mut out = vec![];
    let mut s = init;
    let mut desc = vec![];
    for (d, &oi) in ipath.iter().enumerate() {
        let ops = m.ops(&s, d);
        if oi as usize >= ops.len() {
            eprintln!("replay: op index {} out of range at depth {} (divergence)", oi, d);
            std::process::exit(2);
        }
        let op = ops[oi as usize].clone();
        desc.push(m.op_json(&op));
        let mut vs = vec![];
        let succ = m.step(&s, &op, &mut vs);
        for mut v in vs {
            v.case = json!({"path": desc, "extra": v.case});
            out.push(v);
        }
        match succ {
            Some(s2) => s = s2,
            None => break,
        }
    }
    out
}
