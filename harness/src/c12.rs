//! C12 — a saved file contains only content of the workbook being saved (E2, history tree).
//!
//! State: up to three workbook handles (original, clones, reloaded copies) + a reference model per handle
//! (the text a caller expects in every cell).  Texts are markers (mk_ALPHA ...), so every string found in a
//! package can be traced to the step of the history that produced it.  Oracle at every save: the strings of
//! the package (own zip/XML decoder, c12_pkg.rs) == the strings of the handle's model.
//!
//! Sharing: `Spreadsheet::clone()` copies the handle of the shared-string table, and a save mutates that
//! table through `&Spreadsheet`.  A search node therefore cannot be forked by cloning its real objects (the
//! fork would share the table with its siblings).  Real objects are REBUILT from `new_file()` by replaying
//! the node's history whenever a table-mutating operation (save, reload) is about to be applied; all other
//! operations are applied to clones of the rebuilt objects (they never touch the table).  Nodes are never
//! merged (the table content is not observable without a save): the search is the complete history tree.
use crate::common::*;
use crate::dump;
use crate::e1::*;
use crate::e2::{self, Machine};
use crate::pool::*;
use serde_json::{json, Value};
use std::cell::RefCell;
use std::collections::{BTreeMap, BTreeSet, HashSet};
use umya_spreadsheet::Spreadsheet;

#[path = "c12_pkg.rs"]
mod pkg;
use pkg::{CellTxt, Content};

pub fn entry() -> crate::Entry {
    crate::Entry { id: "C12", run, space, replay }
}

const PREFIX: &str = "mk_";
const MARKERS: [&str; 8] = ["mk_ALPHA", "mk_BETA", "mk_GAMMA", "mk_DELTA", "mk_EPSILON", "mk_ZETA", "2024", "2024"];
/// marker 4 is written as a rich text of two runs
const RICH: u8 = 4;
/// this marker reaches its cell as the cached text of a formula (written as a t="str" cell, never a shared string)
const FTEXT: u8 = 5;
/// the text "2024" stored as TEXT (set_value_string) ...
const NUMTEXT: u8 = 6;
/// ... and the same characters through the auto-typing setter set_value: the cell then holds the NUMBER 2024, no text at
/// all - an overwrite that removes a string from the workbook although the characters stay the same
const NUMVAL: u8 = 7;
const RICH_RUNS: [&str; 2] = ["mk_EPS", "ILON"];
const SHEET1: &str = "Sheet1";
const SHEET2: &str = "S2";
const MAX_HANDLES: usize = 3;

// feature tags (kinds of operation that occur in the history)
const K_SET: u16 = 1;
const K_OVERWRITE: u16 = 2;
const K_DELCELL: u16 = 4;
const K_REMROW: u16 = 8;
const K_ADDSHEET: u16 = 16;
const K_REMSHEET: u16 = 32;
const K_CLONE: u16 = 64;
const K_SAVE: u16 = 128;
const K_RELOAD: u16 = 256;
const K_RICH: u16 = 512;
const K_RELOAD_LAZY: u16 = 1024;
const KIND_NAMES: [(u16, &str); 11] = [
    (K_SET, "set"),
    (K_OVERWRITE, "overwrite"),
    (K_DELCELL, "delete-cell"),
    (K_REMROW, "remove-row"),
    (K_ADDSHEET, "add-sheet"),
    (K_REMSHEET, "remove-sheet"),
    (K_CLONE, "clone"),
    (K_SAVE, "save"),
    (K_RELOAD, "reload"),
    (K_RICH, "rich-text"),
    (K_RELOAD_LAZY, "reload-lazy"),
];

// how a string left a handle's model
const O_NONE: u8 = 0;
const O_OVERWRITTEN: u8 = 1;
const O_DELCELL: u8 = 2;
const O_REMROW: u8 = 3;
const O_REMSHEET: u8 = 4;
const O_CLONE_SOURCE: u8 = 5;
fn origin_name(o: u8) -> &'static str {
    match o {
        O_OVERWRITTEN => "overwritten",
        O_DELCELL => "deleted-cell",
        O_REMROW => "removed-row",
        O_REMSHEET => "removed-sheet",
        O_CLONE_SOURCE => "lost-by-clone-source",
        _ => "?",
    }
}

#[derive(Clone, Copy, PartialEq, Eq, Debug)]
enum Op {
    Set { h: u8, row: u8, m: u8 },
    DelCell { h: u8, row: u8 },
    RemRow { h: u8, row: u8 },
    AddSheet { h: u8, m: u8 },
    RemSheet { h: u8 },
    CloneH { h: u8 },
    Save { h: u8, twice: bool },
    /// handle replaced by read_reader(own save); lazy = sheets stay raw until first touched
    Reload { h: u8, lazy: bool },
}
impl Op {
    fn mutates_table(&self) -> bool {
        matches!(self, Op::Save { .. } | Op::Reload { .. })
    }
    fn to_json(&self) -> Value {
        match *self {
            Op::Set { h, row, m } => json!({"op":"set_text","handle":h,"cell":format!("A{}",row),"text":MARKERS[m as usize],"rich": m==RICH, "as_cached_text_of_a_formula": m==FTEXT}),
            Op::DelCell { h, row } => json!({"op":"remove_cell","handle":h,"cell":format!("A{}",row)}),
            Op::RemRow { h, row } => json!({"op":"remove_row","handle":h,"row":row}),
            Op::AddSheet { h, m } => json!({"op":"add_sheet_with_text","handle":h,"sheet":SHEET2,"cell":"A1","text":MARKERS[m as usize]}),
            Op::RemSheet { h } => json!({"op":"remove_sheet","handle":h,"sheet":SHEET2}),
            Op::CloneH { h } => json!({"op":"clone","handle":h}),
            Op::Save { h, twice } => json!({"op": if twice {"save_twice"} else {"save"},"handle":h}),
            Op::Reload { h, lazy } => json!({"op": if lazy {"reload_lazy"} else {"reload"},"handle":h}),
        }
    }
}

/// reference model of one handle
#[derive(Clone, Copy, PartialEq, Eq, Debug)]
struct HM {
    /// Sheet1!A1, Sheet1!A2
    s1: [Option<u8>; 2],
    /// second sheet exists, with this marker in A1
    s2: Option<u8>,
    /// identity of "objects related by clone() without a reload in between" (labels only)
    family: u8,
    /// per marker: how it last left this handle's model (labels only)
    lost: [u8; 8],
    /// markers this object itself has saved (labels only)
    self_saved: u8,
    /// sheet (Sheet1, S2) is still raw after a lazy reload (not yet deserialized): its cells cannot be read
    /// through the in-memory getters
    raw: [bool; 2],
}
impl HM {
    fn mask(&self) -> u8 {
        let mut m = 0;
        for c in self.s1.iter().flatten() {
            m |= 1 << c;
        }
        if let Some(c) = self.s2 {
            m |= 1 << c;
        }
        m
    }
    fn sheets(&self) -> Vec<(String, BTreeMap<(u32, u32), String>)> {
        let mut a = BTreeMap::new();
        for (i, c) in self.s1.iter().enumerate() {
            if let Some(c) = c {
                if *c != NUMVAL {
                    a.insert((1u32, i as u32 + 1), MARKERS[*c as usize].to_string());
                }
            }
        }
        let mut v = vec![(SHEET1.to_string(), a)];
        if let Some(c) = self.s2 {
            let mut b = BTreeMap::new();
            if c != NUMVAL {
                b.insert((1u32, 1u32), MARKERS[c as usize].to_string());
            }
            v.push((SHEET2.to_string(), b));
        }
        v
    }
    fn note_change(&mut self, before: u8, origin: u8) {
        let after = self.mask();
        for x in 0..8u8 {
            let b = 1 << x;
            if before & b != 0 && after & b == 0 {
                self.lost[x as usize] = origin;
            }
            if after & b != 0 {
                self.lost[x as usize] = O_NONE;
            }
        }
    }
}

#[derive(Clone, Debug)]
struct St {
    path: Vec<Op>,
    hs: Vec<HM>,
    /// per family: markers saved by any member since the family exists / markers that may have been in the
    /// file the family's first member was loaded from (labels only)
    fam_saved: Vec<u8>,
    fam_loaded: Vec<u8>,
    /// markers ever put into any handle
    ever: u8,
    kinds: u16,
}
impl St {
    fn root() -> St {
        St { path: vec![], hs: vec![HM { s1: [None, None], s2: None, family: 0, lost: [0; 8], self_saved: 0, raw: [false, false] }], fam_saved: vec![0], fam_loaded: vec![0], ever: 0, kinds: 0 }
    }
    fn tags(&self) -> Vec<&'static str> {
        KIND_NAMES.iter().filter(|(b, _)| self.kinds & b != 0).map(|(_, n)| *n).collect()
    }
}

fn model_step(s: &St, op: &Op) -> St {
    let mut n = s.clone();
    n.path.push(*op);
    match *op {
        Op::Set { h, row, m } => {
            let hm = &mut n.hs[h as usize];
            let before = hm.mask();
            let had = hm.s1[row as usize - 1].is_some();
            hm.s1[row as usize - 1] = Some(m);
            hm.raw[0] = false;
            hm.note_change(before, O_OVERWRITTEN);
            n.ever |= 1 << m;
            n.kinds |= if had { K_OVERWRITE } else { K_SET };
            if m == RICH {
                n.kinds |= K_RICH;
            }
        }
        Op::DelCell { h, row } => {
            let hm = &mut n.hs[h as usize];
            let before = hm.mask();
            hm.s1[row as usize - 1] = None;
            hm.raw[0] = false;
            hm.note_change(before, O_DELCELL);
            n.kinds |= K_DELCELL;
        }
        Op::RemRow { h, row } => {
            let hm = &mut n.hs[h as usize];
            let before = hm.mask();
            if row == 1 {
                hm.s1[0] = hm.s1[1];
            }
            hm.s1[1] = None;
            hm.raw[0] = false;
            hm.note_change(before, O_REMROW);
            n.kinds |= K_REMROW;
        }
        Op::AddSheet { h, m } => {
            let hm = &mut n.hs[h as usize];
            let before = hm.mask();
            hm.s2 = Some(m);
            hm.raw[1] = false;
            hm.note_change(before, O_NONE);
            n.ever |= 1 << m;
            n.kinds |= K_ADDSHEET;
            if m == RICH {
                n.kinds |= K_RICH;
            }
        }
        Op::RemSheet { h } => {
            let hm = &mut n.hs[h as usize];
            let before = hm.mask();
            hm.s2 = None;
            hm.raw[1] = false;
            hm.note_change(before, O_REMSHEET);
            n.kinds |= K_REMSHEET;
        }
        Op::CloneH { h } => {
            let mut c = n.hs[h as usize];
            for x in c.lost.iter_mut() {
                if *x != O_NONE {
                    *x = O_CLONE_SOURCE;
                }
            }
            c.self_saved = 0;
            n.hs.push(c);
            n.kinds |= K_CLONE;
        }
        Op::Save { h, .. } => {
            let m = n.hs[h as usize].mask();
            n.hs[h as usize].self_saved |= m;
            n.fam_saved[n.hs[h as usize].family as usize] |= m;
            n.kinds |= K_SAVE;
        }
        Op::Reload { h, lazy } => {
            let m = n.hs[h as usize].mask();
            n.hs[h as usize].raw = [lazy, lazy && n.hs[h as usize].s2.is_some()];
            let f = n.hs[h as usize].family as usize;
            n.fam_saved[f] |= m;
            let maybe_in_file = n.fam_saved[f] | n.fam_loaded[f];
            n.fam_saved.push(0);
            n.fam_loaded.push(maybe_in_file);
            n.hs[h as usize].family = (n.fam_saved.len() - 1) as u8;
            n.hs[h as usize].self_saved = 0;
            n.kinds |= if lazy { K_RELOAD_LAZY } else { K_RELOAD };
        }
    }
    n
}

#[derive(Clone, Copy)]
struct Alpha {
    /// total operations of a history, the last one being a save
    d: usize,
    /// markers of this space (4 = the rich-text marker)
    markers: &'static [u8],
    /// markers a second sheet can be created with
    sheet_markers: [u8; 2],
}

fn enabled_ops(a: &Alpha, s: &St) -> Vec<Op> {
    let nh = s.hs.len() as u8;
    let mut v = vec![];
    if s.path.len() + 1 >= a.d {
        // last layer: only an observation can produce a verdict
        for h in 0..nh {
            v.push(Op::Save { h, twice: true });
        }
        return v;
    }
    for h in 0..nh {
        let hm = &s.hs[h as usize];
        for row in 1..=2u8 {
            for &m in a.markers {
                if hm.s1[row as usize - 1] != Some(m) {
                    v.push(Op::Set { h, row, m });
                }
            }
        }
        for row in 1..=2u8 {
            if hm.s1[row as usize - 1].is_some() {
                v.push(Op::DelCell { h, row });
            }
        }
        if hm.s1[0].is_some() || hm.s1[1].is_some() {
            v.push(Op::RemRow { h, row: 1 });
        }
        if hm.s1[1].is_some() {
            v.push(Op::RemRow { h, row: 2 });
        }
        match hm.s2 {
            None => {
                for m in a.sheet_markers {
                    if !v.contains(&Op::AddSheet { h, m }) {
                        v.push(Op::AddSheet { h, m });
                    }
                }
            }
            Some(_) => v.push(Op::RemSheet { h }),
        }
    }
    if (nh as usize) < MAX_HANDLES {
        for h in 0..nh {
            v.push(Op::CloneH { h });
        }
    }
    for h in 0..nh {
        v.push(Op::Save { h, twice: false });
    }
    for h in 0..nh {
        v.push(Op::Reload { h, lazy: false });
    }
    for h in 0..nh {
        v.push(Op::Reload { h, lazy: true });
    }
    v
}

// ------------------------------------------------------------------------------------------------
// the implementation side

/// Writer of the second save of a last-layer `save_twice` after a history of `n` operations: the deflating
/// writer (write_writer) is five times slower than write_writer_light and differs only in compression, so
/// it is used where the history is short (every history of <= 3 operations is followed by both writers).
fn second_save_light(n: usize) -> bool {
    n > 3
}

struct Real {
    hs: Vec<Spreadsheet>,
    /// handle and decoded content of the save that was the LAST operation of the replayed history
    last_save: Option<(u8, Content)>,
}

fn set_text(book: &mut Spreadsheet, sheet: usize, row: u32, m: u8) {
    let ws = book.get_sheet_mut(&sheet).expect("sheet index");
    let cell = ws.get_cell_mut((1u32, row));
    if m == RICH {
        let mut rt = umya_spreadsheet::RichText::default();
        for r in RICH_RUNS {
            let mut e = umya_spreadsheet::TextElement::default();
            e.set_text(r);
            rt.add_rich_text_elements(e);
        }
        cell.set_rich_text(rt);
    } else if m == FTEXT {
        cell.set_formula("B9&\"\"");
        cell.set_formula_result_default(MARKERS[m as usize]);
    } else if m == NUMVAL {
        cell.set_value(MARKERS[m as usize]);
    } else {
        cell.set_value_string(MARKERS[m as usize]);
    }
}

/// operations that do not touch the shared-string table
fn apply_plain(hs: &mut Vec<Spreadsheet>, op: &Op) {
    match *op {
        Op::Set { h, row, m } => set_text(&mut hs[h as usize], 0, row as u32, m),
        Op::DelCell { h, row } => {
            hs[h as usize].get_sheet_mut(&0).expect("sheet 0").remove_cell((1u32, row as u32));
        }
        Op::RemRow { h, row } => {
            hs[h as usize].get_sheet_mut(&0).expect("sheet 0").remove_row(&(row as u32), &1);
        }
        Op::AddSheet { h, m } => {
            hs[h as usize].new_sheet(SHEET2).expect("new_sheet");
            set_text(&mut hs[h as usize], 1, 1, m);
        }
        Op::RemSheet { h } => {
            hs[h as usize].remove_sheet(1).expect("remove_sheet");
        }
        Op::CloneH { h } => {
            let c = hs[h as usize].clone();
            hs.push(c);
        }
        Op::Save { .. } | Op::Reload { .. } => unreachable!(),
    }
}

fn guarded<T, F: FnOnce() -> T>(f: F) -> Result<T, String> {
    std::panic::catch_unwind(std::panic::AssertUnwindSafe(f)).map_err(|e| panic_msg(&e))
}

/// text cells of a live workbook through public getters
fn real_cells(b: &Spreadsheet) -> Vec<(String, BTreeMap<(u32, u32), CellTxt>)> {
    b.get_sheet_collection_no_check()
        .iter()
        .map(|ws| {
            let mut m = BTreeMap::new();
            for c in ws.get_cell_collection() {
                let v = c.get_value().to_string();
                let co = (*c.get_coordinate().get_col_num(), *c.get_coordinate().get_row_num());
                if c.get_data_type() == "s" {
                    m.insert(co, CellTxt::Text(v));
                } else if !v.is_empty() {
                    m.insert(co, CellTxt::Other(v));
                }
            }
            (ws.get_name().to_string(), m)
        })
        .collect()
}

// ------------------------------------------------------------------------------------------------
// oracle

struct Finding {
    clause: &'static str,
    symptom: String,
    detail: String,
}

fn marker_id(x: &str) -> Option<u8> {
    MARKERS.iter().position(|m| *m == x).map(|i| i as u8)
}

/// label of a string found in a file saved from handle h although h's model does not contain it
fn provenance(s: &St, h: usize, x: &str) -> String {
    let m = match marker_id(x) {
        None => return "not-a-marker-string/unexplained".into(),
        Some(m) => m,
    };
    let hm = &s.hs[h];
    let bit = 1u8 << m;
    let origin = if hm.lost[m as usize] != O_NONE {
        origin_name(hm.lost[m as usize])
    } else if s.ever & bit != 0 {
        "only-in-other-handle"
    } else {
        "never-set-anywhere"
    };
    let f = hm.family as usize;
    let via = if (hm.raw[0] || hm.raw[1]) && s.fam_loaded[f] & bit != 0 {
        // the handle still has an unloaded (raw) sheet: its bytes are written back verbatim and index the
        // table that was loaded with it, so no loaded entry can be dropped while such a sheet exists
        "pinned-by-unloaded-sheet"
    } else if hm.self_saved & bit != 0 {
        "registered-by-earlier-save-of-same-handle"
    } else if s.fam_saved[f] & bit != 0 {
        "registered-by-earlier-save-of-clone-relative"
    } else if s.fam_loaded[f] & bit != 0 {
        "carried-by-loaded-file"
    } else {
        "never-saved"
    };
    format!("{}/{}", origin, via)
}

fn compare_cells(want: &[(String, BTreeMap<(u32, u32), String>)], got: &[(String, BTreeMap<(u32, u32), CellTxt>)], wh: &str, out: &mut Vec<Finding>) {
    let want_strings: BTreeSet<&String> = want.iter().flat_map(|(_, m)| m.values()).collect();
    for (name, wm) in want {
        let gm = match got.iter().find(|(n, _)| n == name) {
            Some((_, g)) => g,
            None => {
                out.push(Finding { clause: "missing-string", symptom: format!("sheet-absent:{}", wh), detail: format!("sheet {:?} of the model is absent {}", name, wh) });
                continue;
            }
        };
        for (co, text) in wm {
            match gm.get(co) {
                Some(CellTxt::Text(t)) if t == text => {}
                Some(CellTxt::Text(t)) => {
                    let (clause, sym) = if want_strings.contains(t) {
                        ("wrong-text", "another-cells-string")
                    } else if marker_id(t).is_some() {
                        ("wrong-text", "foreign-string-shown")
                    } else if t.is_empty() {
                        ("missing-string", "cell-text-empty")
                    } else {
                        ("missing-string", "cell-text-garbled")
                    };
                    out.push(Finding { clause, symptom: format!("{}:{}", sym, wh), detail: format!("{}!{:?} shows {:?} {}, model says {:?}", name, co, t, wh, text) });
                }
                Some(CellTxt::Dangling(i)) => out.push(Finding { clause: "wrong-text", symptom: format!("dangling-string-index:{}", wh), detail: format!("{}!{:?} refers to shared string {:?} which does not exist; model says {:?}", name, co, i, text) }),
                Some(CellTxt::Other(v)) => out.push(Finding { clause: "missing-string", symptom: format!("cell-not-text:{}", wh), detail: format!("{}!{:?} is not a text cell {} (raw {:?}); model says {:?}", name, co, wh, v, text) }),
                None => out.push(Finding { clause: "missing-string", symptom: format!("cell-absent:{}", wh), detail: format!("{}!{:?} is absent {}; model says {:?}", name, co, wh, text) }),
            }
        }
    }
    for (name, gm) in got {
        let wm = want.iter().find(|(n, _)| n == name).map(|(_, m)| m);
        for (co, c) in gm {
            let in_model = wm.map(|m| m.contains_key(co)).unwrap_or(false);
            if !in_model {
                if let CellTxt::Text(t) = c {
                    out.push(Finding { clause: "foreign-string", symptom: format!("extra-text-cell:{}", wh), detail: format!("{}!{:?} shows {:?} {}, the model has no such cell", name, co, t, wh) });
                } else if let CellTxt::Dangling(t) = c {
                    out.push(Finding { clause: "foreign-string", symptom: format!("extra-text-cell:{}", wh), detail: format!("{}!{:?} (dangling index {:?}) {}, the model has no such cell", name, co, t, wh) });
                }
            }
        }
    }
}

/// Oracle on one written package.  `s` is the state BEFORE the save (labels must not see this save).
fn check_package(s: &St, h: usize, c: &Content, bytes: &[u8], out: &mut Vec<Finding>) {
    let want = s.hs[h].sheets();
    let want_strings: BTreeSet<String> = want.iter().flat_map(|(_, m)| m.values().cloned()).collect();
    // every string of the package, with the place it was found
    let mut found: Vec<(String, String)> = vec![];
    for x in &c.sst {
        found.push((x.clone(), String::new()));
    }
    for x in &c.inline {
        found.push((x.clone(), "@inline-string".into()));
    }
    for x in &c.str_values {
        found.push((x.clone(), "@str-cell".into()));
    }
    for (part, x) in &c.elsewhere {
        let cls = if part.starts_with("xl/worksheets/") { "@orphan-sheet-part" } else { "@other-part" };
        found.push((x.clone(), cls.into()));
    }
    let mut seen: BTreeSet<(String, String)> = BTreeSet::new();
    for (x, loc) in &found {
        if want_strings.contains(x) || !seen.insert((x.clone(), loc.clone())) {
            continue;
        }
        out.push(Finding {
            clause: "foreign-string",
            symptom: format!("{}{}", provenance(s, h, x), loc),
            detail: format!("package saved from handle {} contains {:?}{} but the handle's text is {:?}; shared strings of the package: {:?}", h, x, loc, want_strings, c.sst),
        });
    }
    let mut sorted = c.sst.clone();
    sorted.sort();
    if sorted.windows(2).any(|w| w[0] == w[1]) {
        out.push(Finding { clause: "duplicate-string", symptom: "shared-string-listed-twice".into(), detail: format!("sharedStrings.xml lists a string twice: {:?}", c.sst) });
    }
    for x in &want_strings {
        if !c.sst.contains(x) && !c.inline.contains(x) && !c.str_values.contains(x) {
            let sym = if c.has_sst { "absent-from-package" } else { "no-shared-strings-part" };
            out.push(Finding { clause: "missing-string", symptom: sym.into(), detail: format!("the handle's text {:?} is nowhere in the package (shared strings {:?})", x, c.sst) });
        }
    }
    compare_cells(&want, &c.sheets, "in-file", out);
    match dump::load_bytes(bytes, true) {
        Err(e) => out.push(Finding { clause: "readable", symptom: format!("reload-failed:{}", panic_class(&e)), detail: format!("the library cannot read its own package: {}", e) }),
        Ok(b) => match guarded(|| real_cells(&b)) {
            Err(e) => out.push(Finding { clause: "readable", symptom: format!("reload-failed:{}", panic_class(&e)), detail: e }),
            Ok(g) => compare_cells(&want, &g, "on-reload", out),
        },
    }
}

fn check_twice(first: &Content, second: &Content, how: &str, out: &mut Vec<Finding>) {
    if first.canon() != second.canon() {
        let mut a = first.sst.clone();
        let mut b = second.sst.clone();
        a.sort();
        b.sort();
        let sym = if a != b { "shared-strings-differ" } else { "cell-text-differs" };
        out.push(Finding { clause: "save-not-idempotent", symptom: sym.into(), detail: format!("two saves in a row ({}) differ: first {} / second {}", how, first.canon(), second.canon()) });
    } else if first.sst_counts != second.sst_counts {
        out.push(Finding {
            clause: "save-not-idempotent",
            symptom: "sst-count-attribute-grows".into(),
            detail: format!("two saves in a row ({}) of an unchanged workbook: <sst count/uniqueCount> {:?} then {:?} (same strings {:?})", how, first.sst_counts, second.sst_counts, first.sst),
        });
    }
}

// ------------------------------------------------------------------------------------------------

struct C12Machine {
    a: Alpha,
    /// rebuilt, still pristine real objects of one node
    cache: RefCell<Option<(Vec<Op>, Real)>>,
    counters: RefCell<BTreeMap<String, u64>>,
    obs: RefCell<HashSet<u64>>,
    /// violations handed to the explorer per (clause, symptom, tags) class in this pool case; the pool keeps
    /// three per class anyway, everything beyond EMIT_PER_CLASS is only counted
    emitted: RefCell<BTreeMap<(String, String, u16), u32>>,
}
const EMIT_PER_CLASS: u32 = 4;

/// wall-clock accounting (microseconds per activity, summed over workers; informational only)
struct Timer<'a> {
    m: &'a C12Machine,
    k: &'static str,
    t: std::time::Instant,
}
impl<'a> Timer<'a> {
    fn new(m: &'a C12Machine, k: &'static str) -> Timer<'a> {
        Timer { m, k, t: std::time::Instant::now() }
    }
}
impl<'a> Drop for Timer<'a> {
    fn drop(&mut self) {
        self.m.count(self.k, self.t.elapsed().as_micros() as u64);
    }
}

impl C12Machine {
    fn new(a: Alpha) -> C12Machine {
        C12Machine { a, cache: RefCell::new(None), counters: RefCell::new(BTreeMap::new()), obs: RefCell::new(HashSet::new()), emitted: RefCell::new(BTreeMap::new()) }
    }
    fn count(&self, k: &str, n: u64) {
        *self.counters.borrow_mut().entry(k.to_string()).or_insert(0) += n;
    }

    /// fresh real objects for a history (no oracle; every step of it was checked when it was first taken)
    fn rebuild(&self, path: &[Op]) -> Result<Real, String> {
        self.count("rebuilds", 1);
        let _t = Timer::new(self, "us_rebuild");
        guarded(|| {
            let mut r = Real { hs: vec![umya_spreadsheet::new_file()], last_save: None };
            for (i, op) in path.iter().enumerate() {
                let last = i + 1 == path.len();
                match *op {
                    Op::Save { h, twice } => {
                        let bytes = dump::save_bytes(&r.hs[h as usize], true)?;
                        if last {
                            r.last_save = Some((h, pkg::decode(&bytes, PREFIX)?));
                        }
                        if twice {
                            dump::save_bytes(&r.hs[h as usize], second_save_light(i))?;
                        }
                    }
                    Op::Reload { h, lazy } => {
                        let bytes = dump::save_bytes(&r.hs[h as usize], true)?;
                        r.hs[h as usize] = dump::load_bytes(&bytes, !lazy)?;
                    }
                    _ => apply_plain(&mut r.hs, op),
                }
            }
            Ok::<Real, String>(r)
        })?
    }

    fn take_pristine(&self, s: &St) -> Result<Real, String> {
        let cached = self.cache.borrow_mut().take();
        match cached {
            Some((p, r)) if p == s.path => Ok(r),
            _ => self.rebuild(&s.path),
        }
    }

    fn conformance(&self, hs: &[Spreadsheet], s2: &St, after: &str, out: &mut Vec<Finding>) -> bool {
        let mut ok = true;
        if hs.len() != s2.hs.len() {
            out.push(Finding { clause: "model-conformance", symptom: "handle-count".into(), detail: format!("{} real handles, model {}", hs.len(), s2.hs.len()) });
            return false;
        }
        for (i, b) in hs.iter().enumerate() {
            let want = s2.hs[i].sheets();
            match guarded(|| real_cells(b)) {
                Err(e) => {
                    out.push(Finding { clause: "no-panic", symptom: format!("panic:{}", panic_class(&e)), detail: format!("reading cells of handle {} after {}: {}", i, after, e) });
                    ok = false;
                }
                Ok(got) => {
                    let mut f = vec![];
                    // cells of a sheet that is still raw are not visible in memory: compare the loaded ones
                    let raw = s2.hs[i].raw;
                    let is_raw = |name: &str| (name == SHEET1 && raw[0]) || (name == SHEET2 && raw[1]);
                    let want_l: Vec<_> = want.iter().map(|(n, m)| if is_raw(n) { (n.clone(), BTreeMap::new()) } else { (n.clone(), m.clone()) }).collect();
                    let got_l: Vec<_> = got.iter().map(|(n, m)| if is_raw(n) { (n.clone(), BTreeMap::new()) } else { (n.clone(), m.clone()) }).collect();
                    compare_cells(&want_l, &got_l, "in-memory", &mut f);
                    let names_w: Vec<&String> = want.iter().map(|x| &x.0).collect();
                    let names_g: Vec<&String> = got.iter().map(|x| &x.0).collect();
                    if !f.is_empty() || names_w != names_g {
                        ok = false;
                        let d = f.first().map(|x| x.detail.clone()).unwrap_or_else(|| format!("sheets {:?}, model {:?}", names_g, names_w));
                        out.push(Finding { clause: "model-conformance", symptom: format!("cells-differ-after:{}", after), detail: format!("handle {}: {}", i, d) });
                    }
                }
            }
        }
        ok
    }

    fn observe(&self, s: &St, h: usize, c: &Content) {
        let key = format!("{:?}|{}", s.hs[h].sheets(), c.canon());
        self.obs.borrow_mut().insert(fnv(key.as_bytes()));
    }

    fn step_inner(&self, s: &St, op: &Op, s2: &St, f: &mut Vec<Finding>) -> bool {
        let opname = op.to_json()["op"].as_str().unwrap_or("").to_string();
        if !op.mutates_table() {
            // clones of the pristine objects share its table, which this operation does not touch
            let base = match self.take_pristine(s) {
                Ok(r) => r,
                Err(e) => {
                    f.push(Finding { clause: "no-panic", symptom: format!("panic:{}", panic_class(&e)), detail: format!("replaying the history: {}", e) });
                    return false;
                }
            };
            let mut hs = base.hs.clone();
            *self.cache.borrow_mut() = Some((s.path.clone(), base));
            if let Err(e) = guarded(|| apply_plain(&mut hs, op)) {
                f.push(Finding { clause: "no-panic", symptom: format!("panic:{}:{}", opname, panic_class(&e)), detail: e });
                return false;
            }
            return self.conformance(&hs, s2, &opname, f);
        }
        let mut real = match self.take_pristine(s) {
            Ok(r) => r,
            Err(e) => {
                f.push(Finding { clause: "no-panic", symptom: format!("panic:{}", panic_class(&e)), detail: format!("replaying the history: {}", e) });
                return false;
            }
        };
        let (h, twice, reload, lazy) = match *op {
            Op::Save { h, twice } => (h as usize, twice, false, false),
            Op::Reload { h, lazy } => (h as usize, false, true, lazy),
            _ => unreachable!(),
        };
        self.count(if reload { "reloads" } else { "saves" }, 1);
        let t1 = Timer::new(self, "us_save_light");
        let saved = dump::save_bytes(&real.hs[h], true);
        drop(t1);
        let bytes = match saved {
            Ok(b) => b,
            Err(e) => {
                f.push(Finding { clause: "no-panic", symptom: format!("save-failed:{}", panic_class(&e)), detail: e });
                return false;
            }
        };
        let t2 = Timer::new(self, "us_decode");
        let decoded = pkg::decode(&bytes, PREFIX);
        drop(t2);
        let content = match decoded {
            Ok(c) => c,
            Err(e) => {
                f.push(Finding { clause: "well-formed", symptom: format!("package-undecodable:{}", panic_class(&e)), detail: e });
                return false;
            }
        };
        self.observe(s, h, &content);
        let n0 = f.len();
        let t3 = Timer::new(self, "us_oracle_incl_library_reload");
        check_package(s, h, &content, &bytes, f);
        drop(t3);
        let leaks = f[n0..].iter().filter(|x| x.clause == "foreign-string").count();
        self.count(if leaks > 0 { "packages_with_foreign_strings" } else { "packages_clean" }, 1);
        for x in f[n0..].iter().filter(|x| x.clause == "foreign-string") {
            self.count(&format!("foreign:{}", x.symptom), 1);
        }
        // law: save(h); save(h)
        if !reload {
            if let Some((h0, c0)) = &real.last_save {
                if *h0 as usize == h {
                    self.count("save_twice_checks", 1);
                    check_twice(c0, &content, "consecutive save operations of the history", f);
                }
            }
            if twice {
                let _t4 = Timer::new(self, "us_second_save_and_decode");
                let light2 = second_save_light(s.path.len());
                self.count(if light2 { "second_saves_write_writer_light" } else { "second_saves_write_writer" }, 1);
                match dump::save_bytes(&real.hs[h], light2).and_then(|b| pkg::decode(&b, PREFIX)) {
                    Err(e) => f.push(Finding { clause: "no-panic", symptom: format!("save-failed:{}", panic_class(&e)), detail: format!("second save: {}", e) }),
                    Ok(c2) => {
                        self.count("save_twice_checks", 1);
                        check_twice(&content, &c2, if light2 { "write_writer_light twice" } else { "write_writer_light then write_writer" }, f);
                    }
                }
            }
        }
        if reload {
            match dump::load_bytes(&bytes, !lazy) {
                Ok(b) => real.hs[h] = b,
                Err(e) => {
                    f.push(Finding { clause: "readable", symptom: format!("reload-failed:{}", panic_class(&e)), detail: e });
                    return false;
                }
            }
        }
        // a save must leave every workbook as it was; a reload must give back the model's cells
        self.conformance(&real.hs, s2, &opname, f)
    }
}

impl Machine for C12Machine {
    type S = St;
    type Op = Op;
    fn ops(&self, s: &St, _depth: usize) -> Vec<Op> {
        enabled_ops(&self.a, s)
    }
    fn op_json(&self, op: &Op) -> Value {
        op.to_json()
    }
    fn step(&self, s: &St, op: &Op, out: &mut Vec<Violation>) -> Option<St> {
        let s2 = model_step(s, op);
        let mut f = vec![];
        let ok = self.step_inner(s, op, &s2, &mut f);
        let tags = s2.tags();
        for x in f {
            self.count("oracle_failures_total", 1);
            let mut em = self.emitted.borrow_mut();
            let n = em.entry((x.clause.to_string(), x.symptom.clone(), s2.kinds)).or_insert(0);
            *n += 1;
            if *n <= EMIT_PER_CLASS {
                out.push(Violation::new(x.clause, &x.symptom, &tags, Value::Null, x.detail));
            }
        }
        if ok {
            Some(s2)
        } else {
            None
        }
    }
    fn key(&self, s: &St) -> u128 {
        e2::key_of(&format!("{:?}", s.path))
    }
}

// ------------------------------------------------------------------------------------------------
// pool space: case 0 explores the first K layers from the root; every node of layer K is the root of one
// further case (its history is replayed silently first).

fn prefix_len(a: &Alpha) -> usize {
    if a.d >= 6 {
        3
    } else {
        2
    }
}

struct Tree {
    a: Alpha,
    /// layer-K nodes: (index path, state)
    prefixes: Vec<(Vec<u32>, St)>,
}

impl Tree {
    fn new(a: Alpha) -> Tree {
        let mut prefixes = vec![];
        let k = prefix_len(&a);
        if a.d > k {
            let mut layer = vec![(vec![], St::root())];
            for _ in 0..k {
                let mut next = vec![];
                for (ip, s) in &layer {
                    for (i, op) in enabled_ops(&a, s).iter().enumerate() {
                        let mut ip2: Vec<u32> = ip.clone();
                        ip2.push(i as u32);
                        next.push((ip2, model_step(s, op)));
                    }
                }
                layer = next;
            }
            prefixes = layer;
        }
        Tree { a, prefixes }
    }
}

fn flush(m: &C12Machine, sink: &mut Sink) {
    for (k, n) in m.counters.borrow().iter() {
        sink.count(k, *n);
    }
    sink.count("distinct_observations_per_case_sum", m.obs.borrow().len() as u64);
}

impl Space for Tree {
    fn len(&self) -> u64 {
        1 + self.prefixes.len() as u64
    }
    fn describe(&self, i: u64) -> Value {
        if i == 0 {
            json!({"kind": "root-layers", "depth": prefix_len(&self.a).min(self.a.d)})
        } else {
            let (ip, s) = &self.prefixes[i as usize - 1];
            json!({"kind": "subtree", "prefix": s.path.iter().map(|o| o.to_json()).collect::<Vec<_>>(), "prefix_ipath": ip, "depth": self.a.d - prefix_len(&self.a)})
        }
    }
    fn tags(&self, i: u64) -> Vec<String> {
        if i == 0 {
            vec!["root".into()]
        } else {
            self.prefixes[i as usize - 1].1.tags().iter().map(|s| s.to_string()).collect()
        }
    }
    fn run(&self, i: u64, sink: &mut Sink) {
        let m = C12Machine::new(self.a);
        if i == 0 {
            e2::bfs(&m, St::root(), json!({"prefix": [], "prefix_ipath": []}), None, prefix_len(&self.a).min(self.a.d), u64::MAX, sink);
        } else {
            let (ip, s) = &self.prefixes[i as usize - 1];
            let desc = json!({"prefix": s.path.iter().map(|o| o.to_json()).collect::<Vec<_>>(), "prefix_ipath": ip});
            e2::bfs(&m, s.clone(), desc, None, self.a.d - prefix_len(&self.a), u64::MAX, sink);
        }
        flush(&m, sink);
    }
}

/// "tree": four plain markers.  "rich": one plain marker + the rich-text marker (two runs), so that the
/// <si><r><t> path of the table is driven through the same histories on a smaller alphabet.
fn alpha(tier: Tier, id: &str) -> Option<Alpha> {
    match (id, tier) {
        ("tree", Tier::Quick) => Some(Alpha { d: 5, markers: &[0, 1, 2, 3], sheet_markers: [0, 3] }),
        ("tree", Tier::Thorough) => Some(Alpha { d: 6, markers: &[0, 1, 2, 3], sheet_markers: [0, 3] }),
        ("rich", Tier::Quick) => Some(Alpha { d: 4, markers: &[0, RICH], sheet_markers: [0, RICH] }),
        ("rich", Tier::Thorough) => Some(Alpha { d: 6, markers: &[0, RICH], sheet_markers: [0, RICH] }),
        ("retyped", Tier::Quick) => Some(Alpha { d: 4, markers: &[0, NUMTEXT, NUMVAL], sheet_markers: [0, NUMTEXT] }),
        ("retyped", Tier::Thorough) => Some(Alpha { d: 5, markers: &[0, NUMTEXT, NUMVAL], sheet_markers: [0, NUMTEXT] }),
        ("formula-text", Tier::Quick) => Some(Alpha { d: 4, markers: &[0, FTEXT], sheet_markers: [0, FTEXT] }),
        ("formula-text", Tier::Thorough) => Some(Alpha { d: 5, markers: &[0, FTEXT], sheet_markers: [0, FTEXT] }),
        _ => None,
    }
}

pub fn space(tier: Tier, id: &str) -> Option<Box<dyn Space>> {
    alpha(tier, id).map(|a| Box::new(Tree::new(a)) as Box<dyn Space>)
}

fn replay(tier: Tier, case: &Value) -> Vec<Violation> {
    let mut ipath: Vec<u32> = vec![];
    for key in [&case["init"]["prefix_ipath"], &case["ipath"]] {
        if let Some(a) = key.as_array() {
            ipath.extend(a.iter().filter_map(|x| x.as_u64()).map(|x| x as u32));
        }
    }
    let a = match alpha(tier, case["_space"].as_str().unwrap_or("tree")) {
        Some(a) => a,
        None => {
            eprintln!("replay: unknown space");
            return vec![];
        }
    };
    let m = C12Machine::new(a);
    let n = ipath.len();
    e2::replay_path(&m, St::root(), &ipath).into_iter().filter(|v| v.case["path"].as_array().map(|a| a.len()) == Some(n)).collect()
}

fn run(ctx: &Ctx) -> i32 {
    let a = alpha(ctx.tier, "tree").unwrap();
    let ar = alpha(ctx.tier, "rich").unwrap();
    let tree = Tree::new(a);
    let rich = Tree::new(ar);
    let ftext = Tree::new(alpha(ctx.tier, "formula-text").unwrap());
    let retyped = Tree::new(alpha(ctx.tier, "retyped").unwrap());
    let n_prefix = tree.prefixes.len();
    let n_prefix_rich = rich.prefixes.len();
    run_e1(
        ctx,
        E1Spec {
            spaces: vec![("tree", Box::new(tree)), ("rich", Box::new(rich)), ("formula-text", Box::new(ftext)), ("retyped", Box::new(retyped))],
            cfg: PoolCfg { chunk: 1, case_timeout: std::time::Duration::from_secs(60), ..Default::default() },
            level: "model_checking",
            rule: format!(
                "complete history tree: every sequence of D={} operations over the alphabet whose last operation is a save (all shorter histories and all their saves are inner nodes); at the last layer only save operations are expanded because no other operation is observed by an oracle. No state merging: the content of the shared-string table is not observable through the public API without a save (which changes it), so the state key is the history itself (option (a) of the design). Because Spreadsheet::clone() shares the table and a save mutates it, a node's real objects cannot be forked by cloning: they are rebuilt from new_file() by replaying the history before every save/reload; the other operations run on clones of the rebuilt objects and are checked against the reference model through public getters. Two spaces: 'tree' (4 plain markers) and 'rich' (1 plain marker + 1 rich-text marker of two runs, D={}). Case 0 of a space = layers 1..{} from the root; one pool case per layer-{} node ({} + {} cases). states = number of histories (distinct keys); transitions = executed operations, each validated against the model; save-twice law checked for consecutive saves inside histories and by a second save at every last-layer save (write_writer after histories of <= 3 operations, write_writer_light after longer ones).",
                a.d, ar.d, prefix_len(&a), prefix_len(&a), n_prefix, n_prefix_rich
            ),
            alphabets: json!({
                "markers": a.markers.iter().map(|m| MARKERS[*m as usize]).collect::<Vec<_>>(),
                "markers_rich_space": ar.markers.iter().map(|m| MARKERS[*m as usize]).collect::<Vec<_>>(),
                "markers_formula_text_space": ["mk_ALPHA", "mk_ZETA (cached text of a formula)"],
                "markers_retyped_space": ["mk_ALPHA", "2024 as text (set_value_string)", "2024 through set_value (becomes the number: no text left)"],
                "cells": ["Sheet1!A1", "Sheet1!A2", "S2!A1"],
                "operations": ["set_text(h, A1|A2, marker)", "remove_cell(h, A1|A2)", "remove_row(h, 1|2)", "add_sheet_with_text(h, S2, marker in sheet_markers)", "remove_sheet(h, S2)", "clone(h)", "save(h)", "reload(h) = read_reader(save(h), eager)", "reload_lazy(h) = read_reader(save(h), lazy: sheets stay raw until touched and are written back verbatim)"],
                "sheet_markers": a.sheet_markers.iter().map(|m| MARKERS[*m as usize]).collect::<Vec<_>>(),
                "max_enabled_operations_per_state": 3*8 + 3*2 + 3*2 + 3*2 + 3 + 3 + 3,
            }),
            bounds: json!({"history_length": a.d, "max_handles": MAX_HANDLES, "rows": 2, "sheets": 2}),
            exhaustive: true,
            caps_hit: vec![],
            assumptions: vec![
                "operations that cannot change the state are not enabled (set_text with the text already there, remove_cell/remove_row on empty cells/rows)".into(),
                "save = write_writer_light into memory; the second save of the last-layer law uses write_writer (deflate) after histories of at most 3 operations and write_writer_light after longer ones (both call make_buffer; they differ in compression only)".into(),
                "provenance labels (symptoms) are computed from the history only; the verdict (string set of the package == string set of the model) does not depend on them".into(),
            ],
            min_distinct: 1000,
        },
    )
}
