//! C06 — sheet list and annotations survive save/reload on the same cells.
use crate::c02::{build_channel, channel_accepts, CHANNELS, SPECIALS};
use crate::common::*;
use crate::dump::*;
use crate::e1::*;
use crate::pool::*;
use crate::wbuild::*;
use serde_json::{json, Value};
use umya_spreadsheet::*;

pub fn entry() -> crate::Entry {
    crate::Entry { id: "C06", run, space, replay }
}

/// annotation kinds; `counted` kinds take a count from COUNTS
pub const KINDS: [(&str, bool); 21] = [
    ("merges", true), ("names-global", true), ("names-local", true), ("names-other-sheet", true), ("names-formula", true), ("ext-links", true), ("int-links", true),
    ("comments", true), ("validations", true), ("cond-formats", true), ("filter", false), ("tab-color", false), ("panes", false), ("page-setup", false),
    ("header-footer", false), ("sheet-protection", false), ("book-protection", false), ("visibility", false), ("active-tab", false),
    ("links-on-merged-cells", true), ("tab-color-theme", false),
];
pub const COUNTS: [u32; 3] = [1, 2, 12];
pub const LAYOUTS: [&str; 3] = ["single-sheet", "first-of-3", "last-of-3"];
pub const SHEET_OPS: [&str; 12] = ["none", "remove-first", "remove-last", "rename", "active-0", "active-1", "active-last", "remove-active", "remove-first-then-add", "remove-first-by-name", "remove-middle-by-name", "remove-middle"];

fn quoted(name: &str) -> String {
    if name.chars().all(|c| c.is_ascii_alphanumeric()) {
        name.to_string()
    } else {
        format!("'{}'", name.replace('\'', "''"))
    }
}

/// Add `count` annotations of kind `k` to sheet `idx`.
pub fn add_kind(b: &mut Spreadsheet, idx: usize, k: usize, count: u32) {
    let sname = b.get_sheet(&idx).unwrap().get_name().to_string();
    let other = b.get_sheet(&(if idx == 0 { b.get_sheet_count() - 1 } else { 0 })).unwrap().get_name().to_string();
    match KINDS[k].0 {
        "merges" => add_merges(b.get_sheet_mut(&idx).unwrap(), count),
        "names-global" => {
            for i in 0..count {
                let _ = b.get_sheet_mut(&idx).unwrap().add_defined_name(format!("Glob_{}", i), format!("{}!$A${}:$B${}", quoted(&sname), i + 1, i + 2));
            }
        }
        "names-local" => {
            for i in 0..count {
                let ws = b.get_sheet_mut(&idx).unwrap();
                let _ = ws.add_defined_name(format!("Loc_{}", i), format!("{}!$C${}", quoted(&sname), i + 1));
                let n = ws.get_defined_names().len();
                ws.get_defined_names_mut()[n - 1].set_local_sheet_id(idx as u32);
            }
        }
        "names-other-sheet" => {
            for i in 0..count {
                let _ = b.get_sheet_mut(&idx).unwrap().add_defined_name(format!("Oth_{}", i), format!("{}!$D${}", quoted(&other), i + 1));
            }
        }
        "names-formula" => {
            for i in 0..count {
                let _ = b.get_sheet_mut(&idx).unwrap().add_defined_name(format!("Frm_{}", i), format!("SUM(1,{})", i));
            }
        }
        "links-on-merged-cells" => {
            // two annotation kinds on the SAME cells: merged blocks in columns S:U, an external link on the top-left cell of
            // each block and, for every second block, another one on its bottom-right cell
            let ws = b.get_sheet_mut(&idx).unwrap();
            for i in crate::wbuild::scrambled(0, count.saturating_sub(1)) {
                let r = 3 + i * 4;
                ws.add_merge_cells(format!("S{}:U{}", r, r + 2));
                let c = ws.get_cell_mut((19u32, r));
                c.set_value_string(format!("block {}", i));
                let mut h = Hyperlink::default();
                h.set_url(format!("https://example.com/block/{}", i));
                c.set_hyperlink(h);
                if i % 2 == 1 {
                    let c = ws.get_cell_mut((21u32, r + 2));
                    let mut h = Hyperlink::default();
                    h.set_url(format!("https://example.com/block/{}/corner", i));
                    c.set_hyperlink(h);
                }
            }
        }
        "ext-links" => add_ext_links(b.get_sheet_mut(&idx).unwrap(), count, &|i| if count >= 12 && i == 5 { String::new() } else { format!("https://example.com/{}/p{}?x={}", idx, i, i * 7) }),
        "int-links" => add_int_links(b.get_sheet_mut(&idx).unwrap(), count, &|i| format!("{}!A{}", quoted(&other), i)),
        "comments" => add_comments(b.get_sheet_mut(&idx).unwrap(), count, &|i| ["Author A", "Author B", "Author A", "Author C", "", "Author B", "Author D <d&d>", "Author A", "Author C", "Author E", "", "Author F"][(i % 12) as usize].into(), &|i| format!("note {} line", i)),
        "validations" => add_validations(b.get_sheet_mut(&idx).unwrap(), count, "choose", "\"a,b,c\""),
        "cond-formats" => {
            add_cond_formats(b.get_sheet_mut(&idx).unwrap(), count, "20");
            if count >= 2 {
                // an expression rule and a colour scale in addition to cellIs
                let ws = b.get_sheet_mut(&idx).unwrap();
                let mut list: Vec<ConditionalFormatting> = ws.get_conditional_formatting_collection().to_vec();
                let mut form = Formula::default();
                form.set_string_value("$A1>3");
                let mut rule = ConditionalFormattingRule::default();
                rule.set_type(ConditionalFormatValues::Expression).set_priority(50).set_formula(form);
                let mut st = Style::default();
                st.set_background_color("FF0000FF");
                rule.set_style(st);
                let mut seq = SequenceOfReferences::default();
                seq.set_sqref("R1:R9 T1:T3");
                let mut cf = ConditionalFormatting::default();
                cf.set_sequence_of_references(seq);
                cf.set_conditional_collection(vec![rule]);
                list.push(cf);
                ws.set_conditional_formatting_collection(list);
            }
        }
        "filter" => b.get_sheet_mut(&idx).unwrap().set_auto_filter("A1:D9"),
        "tab-color-theme" => {
            // a colour picked from the theme palette: no rgb value at all, a theme index and a tint
            let c = b.get_sheet_mut(&idx).unwrap().get_tab_color_mut();
            c.set_theme_index(4);
            c.set_tint(0.39997558519241921);
        }
        "tab-color" => {
            b.get_sheet_mut(&idx).unwrap().get_tab_color_mut().set_argb("FF00B050");
        }
        "panes" => {
            let ws = b.get_sheet_mut(&idx).unwrap();
            let mut views = ws.get_sheets_views().clone();
            let mut list: Vec<SheetView> = views.get_sheet_view_list().to_vec();
            if list.is_empty() {
                list.push(SheetView::default());
            }
            let mut pane = Pane::default();
            pane.set_vertical_split(1.0);
            pane.set_horizontal_split(2.0);
            let mut tl = Coordinate::default();
            tl.set_coordinate("C2");
            pane.set_top_left_cell(tl);
            pane.set_active_pane(PaneValues::BottomRight);
            pane.set_state(PaneStateValues::Frozen);
            list[0].set_pane(pane);
            let mut sel = Selection::default();
            sel.set_pane(PaneValues::BottomRight);
            let mut ac = Coordinate::default();
            ac.set_coordinate("D5");
            sel.set_active_cell(ac);
            let mut seq = SequenceOfReferences::default();
            seq.set_sqref("D5");
            sel.set_sequence_of_references(seq);
            list[0].set_selection(sel);
            let mut nv = SheetViews::default();
            for v in list {
                nv.add_sheet_view_list_mut(v);
            }
            let _ = &mut views;
            ws.set_sheets_views(nv);
        }
        "page-setup" => {
            let ps = b.get_sheet_mut(&idx).unwrap().get_page_setup_mut();
            ps.set_orientation(OrientationValues::Landscape);
            ps.set_paper_size(9);
            ps.set_scale(80);
        }
        "header-footer" => {
            let hf = b.get_sheet_mut(&idx).unwrap().get_header_footer_mut();
            hf.get_odd_header_mut().set_value("&CHeader &P");
            hf.get_odd_footer_mut().set_value("&LFooter &D");
        }
        "sheet-protection" => add_sheet_protection(b.get_sheet_mut(&idx).unwrap()),
        "book-protection" => add_book_protection(b),
        "visibility" => {
            // hide a sheet that is not the only visible one
            if b.get_sheet_count() > 1 {
                let h = if idx == 0 { b.get_sheet_count() - 1 } else { 0 };
                b.get_sheet_mut(&h).unwrap().set_state(SheetStateValues::Hidden);
            }
        }
        "active-tab" => {
            let n = b.get_sheet_count() as u32;
            b.set_active_sheet(n - 1);
        }
        _ => {}
    }
}

pub fn build(kinds: &[(usize, u32)], layout: usize, op: usize) -> Spreadsheet {
    let mut b = new_file();
    if layout > 0 {
        b.new_sheet("Data 2").unwrap();
        b.new_sheet("Third & last").unwrap();
    }
    for i in 0..b.get_sheet_count() {
        add_base_cells(b.get_sheet_mut(&i).unwrap(), &format!("s{}", i));
    }
    let idx = if layout == 2 { 2 } else { 0 };
    for (k, c) in kinds {
        add_kind(&mut b, idx, *k, *c);
    }
    let n = b.get_sheet_count();
    match SHEET_OPS[op] {
        "remove-first" if n > 1 => {
            b.remove_sheet(0).unwrap();
        }
        "remove-last" if n > 1 => {
            b.remove_sheet(n - 1).unwrap();
        }
        "rename" => {
            b.set_sheet_name(n - 1, "Renamed <1>").unwrap();
        }
        "active-0" => {
            b.set_active_sheet(0);
        }
        "active-1" if n > 1 => {
            b.set_active_sheet(1);
        }
        "active-last" => {
            b.set_active_sheet(n as u32 - 1);
        }
        "remove-first-then-add" if n > 1 => {
            b.remove_sheet(0).unwrap();
            b.new_sheet("Added later").unwrap();
        }
        "remove-first-by-name" if n > 1 => {
            let name = b.get_sheet(&0).unwrap().get_name().to_string();
            b.remove_sheet_by_name(&name).unwrap();
        }
        "remove-middle-by-name" if n > 2 => {
            let name = b.get_sheet(&1).unwrap().get_name().to_string();
            b.remove_sheet_by_name(&name).unwrap();
        }
        "remove-middle" if n > 2 => {
            b.remove_sheet(1).unwrap();
        }
        "remove-active" if n > 1 => {
            b.set_active_sheet(1);
            b.remove_sheet(1).unwrap();
        }
        _ => {}
    }
    b
}

// ------------------------------------------------------------------------------------------------
/// Annotation dump with defined names canonicalised by SCOPE: a name without localSheetId is workbook
/// scoped whichever object holds it (the reader re-homes such names by the sheet in their address), a name
/// with localSheetId is scoped to the sheet that holds it.
pub fn annotations(b: &Spreadsheet) -> Value {
    let mut v = book_p(b, Opts { styles: false, annotations: true, dims: false });
    canon_names(&mut v);
    v
}

/// Canonicalise the defined names of a book dump by scope (see `annotations`).
pub fn canon_names(v: &mut Value) {
    let mut global: Vec<Value> = vec![];
    let mut scoped: Vec<Value> = vec![];
    if let Some(a) = v["defined_names"].as_array() {
        for d in a {
            if d["local"].is_null() {
                global.push(json!({"name": d["name"], "address": d["address"], "hidden": d["hidden"]}));
            } else {
                scoped.push(json!({"scope_sheet_index": d["local"], "name": d["name"], "address": d["address"], "hidden": d["hidden"]}));
            }
        }
    }
    if let Some(sheets) = v["sheets"].as_array_mut() {
        for (si, s) in sheets.iter_mut().enumerate() {
            if let Some(a) = s["defined_names"].as_array() {
                for d in a {
                    if d["local"].is_null() {
                        global.push(json!({"name": d["name"], "address": d["address"], "hidden": d["hidden"]}));
                    } else {
                        scoped.push(json!({"scope_sheet_index": si, "name": d["name"], "address": d["address"], "hidden": d["hidden"]}));
                    }
                }
            }
            if let Some(m) = s.as_object_mut() {
                m.remove("defined_names");
            }
        }
    }
    global.sort_by_key(|x| x.to_string());
    scoped.sort_by_key(|x| x.to_string());
    v["defined_names"] = json!({"global": global, "scoped": scoped});
}

fn classify(path: &str, l: &str, r: &str) -> String {
    // /sheets[i]/<field>/... or /<field>
    let parts: Vec<&str> = path.split('/').filter(|s| !s.is_empty()).collect();
    let field = if parts.first().map(|p| p.starts_with("sheets")).unwrap_or(false) { parts.get(1).cloned().unwrap_or("sheet") } else { parts.first().cloned().unwrap_or("") };
    let field: String = field.chars().take_while(|c| *c != '[').collect();
    let leaf: String = parts.last().cloned().unwrap_or("").chars().filter(|c| !c.is_ascii_digit() && *c != '[' && *c != ']' && *c != '#').collect();
    let how = if l == "<absent>" {
        "appeared"
    } else if r == "<absent>" {
        "lost"
    } else {
        "changed"
    };
    if field == "cells" {
        if path.contains("/link") {
            return format!("link-{}:{}", how, leaf);
        }
        return format!("cell-{}:{}", how, leaf);
    }
    format!("{}-{}:{}", field, how, leaf)
}

pub fn compare_annotations(before: &Value, after: &Value, tags: &[String], case: &Value, sink: &mut Sink, clause: &str) {
    let tg: Vec<&str> = tags.iter().map(|s| s.as_str()).collect();
    let mut a = before.clone();
    let mut seen = std::collections::BTreeSet::new();
    let mut guard = 0;
    while let Some((path, l, r)) = first_diff(&a, after) {
        let sym = classify(&path, &l, &r);
        if seen.insert(sym.clone()) {
            sink.violations.push(Violation::new(clause, &sym, &tg, case.clone(), format!("{}: before {} after {}", path, l, r)));
        }
        if !crate::c01::patch_pub(&mut a, after, &path) {
            break;
        }
        guard += 1;
        if guard > 200 {
            break;
        }
    }
}

fn check(b: &Spreadsheet, light: bool, tags: &[String], case: &Value, sink: &mut Sink) {
    let before = annotations(b);
    sink.evaluations += 1;
    match roundtrip(b, light) {
        Err(e) => {
            let tg: Vec<&str> = tags.iter().map(|s| s.as_str()).collect();
            sink.violations.push(Violation::new("roundtrip-succeeds", &format!("failed:{}", panic_class(&e)), &tg, case.clone(), e));
        }
        Ok((_bytes, b2)) => {
            let after = annotations(&b2);
            sink.hashes.push(fnv(after.to_string().as_bytes()));
            compare_annotations(&before, &after, tags, case, sink, "annotations-equal");
        }
    }
}

// ------------------------------------------------------------------------------------------------
#[derive(Clone)]
struct KCase {
    kinds: Vec<(usize, u32)>,
    layout: usize,
    op: usize,
    light: bool,
}

fn kind_cases(tier: Tier) -> Vec<KCase> {
    let mut v = vec![];
    let counts_for = |k: usize| -> Vec<u32> { if KINDS[k].1 { COUNTS.to_vec() } else { vec![1] } };
    // each kind alone, every count, every layout, both writers
    for k in 0..KINDS.len() {
        for c in counts_for(k) {
            for layout in 0..3 {
                for light in [false, true] {
                    v.push(KCase { kinds: vec![(k, c)], layout, op: 0, light });
                }
            }
        }
    }
    // every pair of kinds at every count combination (layout first-of-3; thorough: all layouts)
    for a in 0..KINDS.len() {
        for b in (a + 1)..KINDS.len() {
            for ca in counts_for(a) {
                for cb in counts_for(b) {
                    let layouts: Vec<usize> = if tier == Tier::Thorough { vec![0, 1, 2] } else { vec![1] };
                    for layout in layouts {
                        v.push(KCase { kinds: vec![(a, ca), (b, cb)], layout, op: 0, light: (a + b) % 2 == 1 });
                    }
                }
            }
        }
    }
    // thorough: every triple of kinds (counts 2) and a large count (40) for every counted kind
    if tier == Tier::Thorough {
        for a in 0..KINDS.len() {
            for b in (a + 1)..KINDS.len() {
                for c in (b + 1)..KINDS.len() {
                    v.push(KCase { kinds: vec![(a, 2), (b, 2), (c, 2)], layout: 1 + (a + b + c) % 2, op: 0, light: (a + c) % 2 == 0 });
                }
            }
        }
        for k in 0..KINDS.len() {
            if KINDS[k].1 {
                for layout in 0..3 {
                    v.push(KCase { kinds: vec![(k, 40)], layout, op: 0, light: layout == 1 });
                }
            }
        }
    }
    // all at once
    for c in COUNTS {
        for layout in 0..3 {
            let kinds: Vec<(usize, u32)> = (0..KINDS.len()).map(|k| (k, if KINDS[k].1 { c } else { 1 })).collect();
            v.push(KCase { kinds, layout, op: 0, light: false });
        }
    }
    // sheet operations before save: every kind alone (count 2) and all at once, layouts with 3 sheets
    for op in 1..SHEET_OPS.len() {
        for layout in [1usize, 2] {
            for k in 0..KINDS.len() {
                v.push(KCase { kinds: vec![(k, if KINDS[k].1 { 2 } else { 1 })], layout, op, light: false });
            }
            let kinds: Vec<(usize, u32)> = (0..KINDS.len()).map(|k| (k, if KINDS[k].1 { 2 } else { 1 })).collect();
            v.push(KCase { kinds, layout, op, light: true });
            v.push(KCase { kinds: vec![], layout, op, light: false });
        }
    }
    v
}

struct Kinds {
    cases: Vec<KCase>,
}
impl Space for Kinds {
    fn len(&self) -> u64 {
        self.cases.len() as u64
    }
    fn describe(&self, i: u64) -> Value {
        let c = &self.cases[i as usize];
        json!({"kind":"annotations","kinds": c.kinds.iter().map(|(k, n)| format!("{}x{}", KINDS[*k].0, n)).collect::<Vec<_>>(), "layout": LAYOUTS[c.layout], "sheet_op": SHEET_OPS[c.op], "light": c.light})
    }
    fn tags(&self, i: u64) -> Vec<String> {
        let c = &self.cases[i as usize];
        let mut t: Vec<String> = c.kinds.iter().map(|(k, _)| format!("k:{}", KINDS[*k].0)).collect();
        if c.kinds.len() > 3 {
            t = vec!["k:all".into()];
        }
        if c.kinds.iter().any(|(k, n)| KINDS[*k].0 == "comments" && *n >= 2) {
            t.push("comment-with-empty-author".into());
        }
        if c.kinds.iter().any(|(_, n)| *n >= 12) {
            t.push("count:12".into());
        }
        if c.op != 0 {
            t.push(format!("op:{}", SHEET_OPS[c.op]));
            // conjunction tags kind+op
            for (k, _) in c.kinds.iter().take(3) {
                t.push(format!("k:{}+op:{}", KINDS[*k].0, SHEET_OPS[c.op]));
            }
        }
        t.push(format!("layout:{}", LAYOUTS[c.layout]));
        if c.light {
            t.push("light-writer".into());
        }
        t
    }
    fn run(&self, i: u64, sink: &mut Sink) {
        let c = self.cases[i as usize].clone();
        let tags = self.tags(i);
        let case = self.describe(i);
        let b = match std::panic::catch_unwind(|| build(&c.kinds, c.layout, c.op)) {
            Ok(b) => b,
            Err(e) => {
                let tg: Vec<&str> = tags.iter().map(|s| s.as_str()).collect();
                sink.violations.push(Violation::new("build", &format!("panic:{}", panic_class(&panic_msg(&e))), &tg, case, panic_msg(&e)));
                return;
            }
        };
        check(&b, c.light, &tags, &case, sink);
    }
}

/// special characters in every annotation channel, through the library's own round trip
struct Specials {
    cases: Vec<(usize, usize)>,
}
impl Space for Specials {
    fn len(&self) -> u64 {
        self.cases.len() as u64
    }
    fn describe(&self, i: u64) -> Value {
        let (c, s) = self.cases[i as usize];
        json!({"kind":"channel","channel": CHANNELS[c], "special": SPECIALS[s].0, "text": SPECIALS[s].1})
    }
    fn tags(&self, i: u64) -> Vec<String> {
        let (c, s) = self.cases[i as usize];
        vec![format!("ch:{}", CHANNELS[c]), format!("sp:{}", SPECIALS[s].0), format!("ch:{}+sp:{}", CHANNELS[c], SPECIALS[s].0)]
    }
    fn run(&self, i: u64, sink: &mut Sink) {
        let (c, s) = self.cases[i as usize];
        let tags = self.tags(i);
        let case = self.describe(i);
        let b = match std::panic::catch_unwind(|| build_channel(CHANNELS[c], SPECIALS[s].1)) {
            Ok(b) => b,
            Err(_) => return, // reported by C02
        };
        check(&b, i % 2 == 1, &tags, &case, sink);
    }
}

/// A loaded workbook gets one more annotation kind (on the annotated sheet or on another one) and is saved again:
/// what was loaded and what was added must both be there, each on its own cell (ids, part numbers and relationship
/// ids of loaded and new items must not collide).
struct AddAfterLoad {
    cases: Vec<(usize, usize, usize, usize)>, // (loaded kind, added kind, layout, target: 0 = same sheet, 1 = another sheet)
}
impl Space for AddAfterLoad {
    fn len(&self) -> u64 {
        self.cases.len() as u64
    }
    fn describe(&self, i: u64) -> Value {
        let (k1, k2, l, t) = self.cases[i as usize];
        json!({"kind":"add-after-load","loaded": format!("{}x2", KINDS[k1].0), "added": format!("{}x2", KINDS[k2].0), "layout": LAYOUTS[l], "added_to": (if t == 0 { "same sheet" } else { "another sheet" }), "light": i % 2 == 1})
    }
    fn tags(&self, i: u64) -> Vec<String> {
        let (k1, k2, l, t) = self.cases[i as usize];
        vec![format!("k:{}", KINDS[k1].0), format!("added:{}", KINDS[k2].0), format!("k:{}+added:{}", KINDS[k1].0, KINDS[k2].0), format!("layout:{}", LAYOUTS[l]), format!("added-to:{}", ["same", "other"][t]), "add-after-load".into()]
    }
    fn run(&self, i: u64, sink: &mut Sink) {
        let (k1, k2, l, t) = self.cases[i as usize];
        let tags = self.tags(i);
        let case = self.describe(i);
        let tg: Vec<&str> = tags.iter().map(|s| s.as_str()).collect();
        let light = i % 2 == 1;
        let r = std::panic::catch_unwind(|| -> Result<Spreadsheet, String> {
            let b = build(&[(k1, 2)], l, 0);
            let (_, mut b2) = roundtrip(&b, light)?;
            let idx = if l == 2 { 2 } else { 0 };
            let target = if t == 0 || b2.get_sheet_count() == 1 { idx } else { 1 };
            add_kind(&mut b2, target, k2, 2);
            Ok(b2)
        });
        match r {
            Err(e) => sink.violations.push(Violation::new("build", &format!("panic:{}", panic_class(&panic_msg(&e))), &tg, case, panic_msg(&e))),
            Ok(Err(e)) => sink.violations.push(Violation::new("roundtrip-succeeds", &format!("failed:{}", panic_class(&e)), &tg, case, format!("first generation: {}", e))),
            Ok(Ok(b2)) => check(&b2, light, &tags, &case, sink),
        }
    }
}

// ------------------------------------------------------------------------------------------------
// protection settings, field by field: every SUBSET of the 13 workbook-protection fields (each with its own value, so
// that a field written from its neighbour shows), and every single field / pair of fields of the sheet protection
const BOOK_FIELDS: [&str; 13] = ["workbookAlgorithmName", "workbookHashValue", "workbookSaltValue", "workbookSpinCount", "workbookPassword", "revisionsAlgorithmName", "revisionsHashValue", "revisionsSaltValue", "revisionsSpinCount", "revisionsPassword", "lockRevision", "lockStructure", "lockWindows"];
const SHEET_FIELDS: [&str; 21] = ["algorithmName", "hashValue", "saltValue", "spinCount", "password", "sheet", "objects", "deleteRows", "insertColumns", "deleteColumns", "insertHyperlinks", "autoFilter", "scenarios", "formatCells", "formatColumns", "insertRows", "formatRows", "pivotTables", "selectLockedCells", "selectUnlockedCells", "sort"];
fn set_book_field(p: &mut WorkbookProtection, k: usize) {
    match k {
        0 => p.set_workbook_algorithm_name("SHA-512"),
        1 => p.set_workbook_hash_value("d29ya2Jvb2toYXNo"),
        2 => p.set_workbook_salt_value("d29ya2Jvb2tzYWx0"),
        3 => p.set_workbook_spin_count(100000),
        4 => p.set_workbook_password_raw("CC1A"),
        5 => p.set_revisions_algorithm_name("SHA-256"),
        6 => p.set_revisions_hash_value("cmV2aXNpb25zaGFzaA=="),
        7 => p.set_revisions_salt_value("cmV2aXNpb25zc2FsdA=="),
        8 => p.set_revisions_spin_count(50000),
        9 => p.set_revisions_password_raw("DD2B"),
        10 => p.set_lock_revision(true),
        11 => p.set_lock_structure(true),
        _ => p.set_lock_windows(true),
    };
}
fn set_sheet_field(p: &mut SheetProtection, k: usize) {
    match k {
        0 => p.set_algorithm_name("SHA-384"),
        1 => p.set_hash_value("c2hlZXRoYXNo"),
        2 => p.set_salt_value("c2hlZXRzYWx0"),
        3 => p.set_spin_count(12345),
        4 => p.set_password_raw("EE3C"),
        5 => p.set_sheet(true),
        6 => p.set_objects(true),
        7 => p.set_delete_rows(true),
        8 => p.set_insert_columns(true),
        9 => p.set_delete_columns(true),
        10 => p.set_insert_hyperlinks(true),
        11 => p.set_auto_filter(true),
        12 => p.set_scenarios(true),
        13 => p.set_format_cells(true),
        14 => p.set_format_columns(true),
        15 => p.set_insert_rows(true),
        16 => p.set_format_rows(true),
        17 => p.set_pivot_tables(true),
        18 => p.set_select_locked_cells(true),
        19 => p.set_select_unlocked_cells(true),
        _ => p.set_sort(true),
    };
}
#[derive(Clone)]
enum PCase {
    Book(u32),
    Sheet(Vec<usize>),
}
struct ProtectionFields {
    cases: Vec<PCase>,
}
impl ProtectionFields {
    fn new() -> ProtectionFields {
        let mut cases: Vec<PCase> = vec![];
        let mut masks: Vec<u32> = (1..(1u32 << BOOK_FIELDS.len())).collect();
        masks.sort_by_key(|m| (m.count_ones(), *m));
        cases.extend(masks.into_iter().map(PCase::Book));
        for a in 0..SHEET_FIELDS.len() {
            cases.push(PCase::Sheet(vec![a]));
        }
        for a in 0..SHEET_FIELDS.len() {
            for b in (a + 1)..SHEET_FIELDS.len() {
                cases.push(PCase::Sheet(vec![a, b]));
            }
        }
        cases.push(PCase::Sheet((0..SHEET_FIELDS.len()).collect()));
        ProtectionFields { cases }
    }
}
impl Space for ProtectionFields {
    fn len(&self) -> u64 {
        self.cases.len() as u64
    }
    fn describe(&self, i: u64) -> Value {
        match &self.cases[i as usize] {
            PCase::Book(m) => json!({"kind": "workbook-protection-fields", "fields_set": (0..BOOK_FIELDS.len()).filter(|k| m & (1 << k) != 0).map(|k| BOOK_FIELDS[k]).collect::<Vec<_>>()}),
            PCase::Sheet(f) => json!({"kind": "sheet-protection-fields", "fields_set": f.iter().map(|k| SHEET_FIELDS[*k]).collect::<Vec<_>>()}),
        }
    }
    fn tags(&self, i: u64) -> Vec<String> {
        match &self.cases[i as usize] {
            PCase::Book(m) => {
                let n = m.count_ones();
                let mut t = vec!["k:book-protection-fields".to_string()];
                if n <= 2 {
                    t.extend((0..BOOK_FIELDS.len()).filter(|k| m & (1 << k) != 0).map(|k| format!("field:{}", BOOK_FIELDS[k])));
                } else {
                    t.push("fields:3-or-more".into());
                }
                t
            }
            PCase::Sheet(f) => {
                let mut t = vec!["k:sheet-protection-fields".to_string()];
                if f.len() <= 2 {
                    t.extend(f.iter().map(|k| format!("field:{}", SHEET_FIELDS[*k])));
                } else {
                    t.push("fields:all".into());
                }
                t
            }
        }
    }
    fn run(&self, i: u64, sink: &mut Sink) {
        let tags = self.tags(i);
        let case = self.describe(i);
        let mut b = umya_spreadsheet::new_file();
        b.get_sheet_mut(&0).unwrap().get_cell_mut("A1").set_value("x");
        match &self.cases[i as usize] {
            PCase::Book(m) => {
                let p = b.get_workbook_protection_mut();
                for k in 0..BOOK_FIELDS.len() {
                    if m & (1 << k) != 0 {
                        set_book_field(p, k);
                    }
                }
            }
            PCase::Sheet(f) => {
                let p = b.get_sheet_mut(&0).unwrap().get_sheet_protection_mut();
                for k in f {
                    set_sheet_field(p, *k);
                }
            }
        }
        check(&b, i % 2 == 1, &tags, &case, sink);
    }
}

// ------------------------------------------------------------------------------------------------
// (edit-loaded) the items a workbook was LOADED with are edited in place - the first one removed, the last one removed,
// the list reversed, the first conditional-format rule restyled - and the workbook is saved again: tables that pair
// items by position (differential formats, VML shapes, relationship ids) must follow
const EL_KINDS: [&str; 5] = ["merges", "names-global", "comments", "validations", "cond-formats"];
const EL_OPS: [&str; 4] = ["remove-first", "remove-last", "reverse", "restyle-first"];
struct EditLoaded {
    cases: Vec<(usize, usize, usize)>, // (kind, op, layout)
}
impl EditLoaded {
    fn new() -> EditLoaded {
        let mut cases = vec![];
        for k in 0..EL_KINDS.len() {
            for o in 0..EL_OPS.len() {
                if EL_OPS[o] == "restyle-first" && EL_KINDS[k] != "cond-formats" {
                    continue;
                }
                for l in 0..LAYOUTS.len() {
                    cases.push((k, o, l));
                }
            }
        }
        EditLoaded { cases }
    }
}
macro_rules! edit_list {
    ($v:expr, $op:expr) => {{
        let v = $v;
        match $op {
            "remove-first" => {
                if !v.is_empty() {
                    v.remove(0);
                }
            }
            "remove-last" => {
                v.pop();
            }
            "reverse" => v.reverse(),
            _ => {}
        }
    }};
}
impl Space for EditLoaded {
    fn len(&self) -> u64 {
        self.cases.len() as u64
    }
    fn describe(&self, i: u64) -> Value {
        let (k, o, l) = self.cases[i as usize];
        json!({"kind": "edit-loaded", "loaded": format!("{}x3", EL_KINDS[k]), "edit": EL_OPS[o], "layout": LAYOUTS[l]})
    }
    fn tags(&self, i: u64) -> Vec<String> {
        let (k, o, l) = self.cases[i as usize];
        vec![format!("k:{}", EL_KINDS[k]), format!("edit-loaded:{}", EL_OPS[o]), format!("layout:{}", LAYOUTS[l])]
    }
    fn run(&self, i: u64, sink: &mut Sink) {
        let (k, o, l) = self.cases[i as usize];
        let tags = self.tags(i);
        let case = self.describe(i);
        let tg: Vec<&str> = tags.iter().map(|s| s.as_str()).collect();
        let light = i % 2 == 1;
        let kind = KINDS.iter().position(|x| x.0 == EL_KINDS[k]).unwrap();
        let op = EL_OPS[o];
        let r = std::panic::catch_unwind(|| -> Result<Spreadsheet, String> {
            let b = build(&[(kind, 3)], l, 0);
            let (_, mut b2) = roundtrip(&b, light)?;
            let idx = if l == 2 { 2 } else { 0 };
            let ws = b2.get_sheet_mut(&idx).unwrap();
            match EL_KINDS[k] {
                "merges" => edit_list!(ws.get_merge_cells_mut(), op),
                "names-global" => edit_list!(ws.get_defined_names_mut(), op),
                "comments" => edit_list!(ws.get_comments_mut(), op),
                "validations" => {
                    if let Some(d) = ws.get_data_validations_mut() {
                        edit_list!(d.get_data_validation_list_mut(), op);
                    }
                }
                _ => {
                    let mut list: Vec<ConditionalFormatting> = ws.get_conditional_formatting_collection().to_vec();
                    match op {
                        "remove-first" => {
                            list.remove(0);
                        }
                        "remove-last" => {
                            list.pop();
                        }
                        "reverse" => list.reverse(),
                        _ => {
                            let mut st = Style::default();
                            st.set_background_color("FFFFFF00");
                            st.get_font_mut().set_bold(true);
                            if let Some(rule) = list[0].get_conditional_collection_mut().first_mut() {
                                rule.set_style(st);
                            }
                        }
                    }
                    ws.set_conditional_formatting_collection(list);
                }
            }
            Ok(b2)
        });
        match r {
            Err(e) => sink.violations.push(Violation::new("build", &format!("panic:{}", panic_class(&panic_msg(&e))), &tg, case, panic_msg(&e))),
            Ok(Err(e)) => sink.violations.push(Violation::new("roundtrip-succeeds", &format!("failed:{}", panic_class(&e)), &tg, case, format!("first generation: {}", e))),
            Ok(Ok(b2)) => check(&b2, light, &tags, &case, sink),
        }
    }
}

pub fn space(tier: Tier, id: &str) -> Option<Box<dyn Space>> {
    match id {
        "edit-loaded" => Some(Box::new(EditLoaded::new())),
        "protection-fields" => Some(Box::new(ProtectionFields::new())),
        "add-after-load" => {
            let mut cases = vec![];
            for k1 in 0..KINDS.len() {
                for k2 in 0..KINDS.len() {
                    for l in [0usize, 1, 2] {
                        for t in [0usize, 1] {
                            // the same kind twice on the same sheet would put two items on the same cell / under the same name
                            if (k1 == k2 && (t == 0 || l == 0)) || (t == 1 && l == 0) {
                                continue;
                            }
                            if tier == Tier::Quick && l == 2 && t == 1 {
                                continue;
                            }
                            cases.push((k1, k2, l, t));
                        }
                    }
                }
            }
            Some(Box::new(AddAfterLoad { cases }))
        }
        "kinds" => Some(Box::new(Kinds { cases: kind_cases(tier) })),
        "specials" => {
            let mut cases = vec![];
            for (ci, ch) in CHANNELS.iter().enumerate() {
                for (si, (sn, _)) in SPECIALS.iter().enumerate() {
                    // edge blanks of a bare defined-name formula are not significant (statement: same defined names)
                    if channel_accepts(ch, sn) && !(*ch == "defined-name-formula" && *sn == "edge-blank") {
                        cases.push((ci, si));
                    }
                }
            }
            Some(Box::new(Specials { cases }))
        }
        _ => None,
    }
}

fn replay(tier: Tier, case: &Value) -> Vec<Violation> {
    replay_e1(space(tier, case["_space"].as_str().unwrap_or("")), case)
}

fn run(ctx: &Ctx) -> i32 {
    let ids = ["kinds", "specials", "add-after-load", "protection-fields", "edit-loaded"];
    let spaces = ids.iter().map(|id| (*id, space(ctx.tier, id).unwrap())).collect();
    run_e1(
        ctx,
        E1Spec {
            spaces,
            cfg: PoolCfg { chunk: 16, case_timeout: std::time::Duration::from_secs(120), ..Default::default() },
            level: "exploration",
            rule: "annotation kinds x counts {1,2,12} x sheet layouts {single, first of 3, last of 3}: every kind alone, every pair of kinds at every count combination, all kinds at once; sheet operations before save (remove first/last/active, rename, move active tab) for every kind and all at once; every annotation text channel x special string. Oracle: annotation dump (sheet list/order/names/visibility/active tab, merges, defined names, hyperlinks by cell, comments by cell, validations, conditional formats, filter, tab colour, panes/selection, page setup, header/footer, protection) before save == after reload, keyed by cell so that a swap or move is a key mismatch. distinct_nontrivial = distinct reloaded annotation dumps; (add-after-load) every ordered pair (loaded kind, added kind): a workbook with 2 items of the first kind is saved and reloaded, 2 items of the second kind are added to the same or to another sheet, and the result is saved and reloaded again".into(),
            alphabets: json!({"kinds": KINDS.iter().map(|k| k.0).collect::<Vec<_>>(), "counts": COUNTS, "layouts": LAYOUTS, "sheet_ops": SHEET_OPS, "channels": CHANNELS.len(), "specials": SPECIALS.len(), "kind_cases": kind_cases(ctx.tier).len()}),
            bounds: json!({"pairs_layouts": if ctx.tier == Tier::Thorough {"all 3 layouts"} else {"first-of-3 only"}, "max_items_per_kind": if ctx.tier == Tier::Thorough {40} else {12}, "kind_triples": ctx.tier == Tier::Thorough}),
            exhaustive: true,
            caps_hit: vec![],
            assumptions: vec!["hyperlink tooltips and other fields the statement does not list are compared too when the model exposes them; fields the writer is documented to normalise are listed under corrections in DESIGN.md".into()],
            min_distinct: 50,
        },
    )
}
