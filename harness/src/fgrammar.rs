//! Formula grammar shared by C09 and C08 — everything here is independent of the library under test:
//! (1) AST + renderer with feature tags, (2) deterministic enumerator, (3) own lexer + token comparison /
//! damage classification, (4) reference shifter (insert/remove oracle) and translator (move oracle).
#![allow(dead_code)]

pub const MAXC: u32 = 16384;
pub const MAXR: u32 = 1_048_576;

// =================================================================================================
// 1. AST

#[derive(Clone, Debug, PartialEq, Eq, Hash)]
pub enum Qual {
    None,
    /// `Sheet2!`
    Plain(&'static str),
    /// `'My Sheet'!` / `'It''s'!` — holds the REAL sheet name (quotes not doubled)
    Quoted(&'static str),
}
impl Qual {
    pub fn sheet(&self) -> Option<&'static str> {
        match self {
            Qual::None => None,
            Qual::Plain(s) | Qual::Quoted(s) => Some(s),
        }
    }
    pub fn render(&self) -> String {
        match self {
            Qual::None => String::new(),
            Qual::Plain(s) => format!("{}!", s),
            Qual::Quoted(s) => format!("'{}'!", s.replace('\'', "''")),
        }
    }
    pub fn tag(&self) -> Option<&'static str> {
        match self {
            Qual::None => None,
            Qual::Plain(_) => Some("q-plain"),
            Qual::Quoted(s) => Some(if s.contains('\'') { "q-quoted-apos" } else { "q-quoted-space" }),
        }
    }
}

/// one column or row part of a reference
#[derive(Clone, Copy, Debug, PartialEq, Eq, Hash)]
pub struct P {
    pub n: u32,
    pub abs: bool,
}
pub fn p(n: u32, abs: bool) -> P {
    P { n, abs }
}

#[derive(Clone, Copy, Debug, PartialEq, Eq, Hash)]
pub enum RK {
    Cell { c: P, r: P },
    Range { c1: P, r1: P, c2: P, r2: P },
    Cols { c1: P, c2: P },
    Rows { r1: P, r2: P },
}

#[derive(Clone, Debug, PartialEq, Eq, Hash)]
pub struct Ref {
    pub q: Qual,
    pub k: RK,
}

#[derive(Clone, Copy, Debug, PartialEq, Eq, Hash)]
pub enum LitKind {
    Num,
    Bool,
    Str,
    Err,
    Name,
    Structured,
    External,
    Array,
}

#[derive(Clone, Debug, PartialEq, Eq, Hash)]
pub enum Leaf {
    Ref(Ref),
    /// only produced by the shifter / translator: the reference lost all its cells
    RefErr(Qual, &'static str),
    Lit { text: &'static str, tag: &'static str, kind: LitKind },
}

#[derive(Clone, Copy, Debug, PartialEq, Eq, Hash)]
pub enum Un {
    Neg,
    Pos,
    Pct,
    Paren,
    SpParen,
    Trail,
}
pub const UNS: [Un; 6] = [Un::Neg, Un::Pos, Un::Pct, Un::Paren, Un::SpParen, Un::Trail];
impl Un {
    pub fn tag(&self) -> &'static str {
        match self {
            Un::Neg => "unary-minus",
            Un::Pos => "unary-plus",
            Un::Pct => "percent",
            Un::Paren => "paren",
            Un::SpParen => "sp-paren",
            Un::Trail => "sp-trail",
        }
    }
}

pub const OPS: [(&str, &str); 12] = [
    ("+", "op-add"),
    ("-", "op-sub"),
    ("*", "op-mul"),
    ("/", "op-div"),
    ("^", "op-pow"),
    ("&", "op-concat"),
    ("=", "op-eq"),
    ("<>", "op-ne"),
    ("<", "op-lt"),
    (">", "op-gt"),
    ("<=", "op-le"),
    (">=", "op-ge"),
];

#[derive(Clone, Debug, PartialEq, Eq, Hash)]
pub enum F {
    L(Leaf),
    Un(Un, Box<F>),
    /// operator index into OPS, spaced (`a + b`)
    Bin(usize, bool, Box<F>, Box<F>),
    Union(Box<F>, Box<F>),
    Isect(Box<F>, Box<F>),
    /// function name, spaced args (`SUM(a, b)`), args (1..3)
    Call(&'static str, bool, Vec<F>),
}

pub fn col_name(mut n: u32) -> String {
    let mut v = vec![];
    while n > 0 {
        n -= 1;
        v.push((b'A' + (n % 26) as u8) as char);
        n /= 26;
    }
    v.iter().rev().collect()
}
fn colp(x: P) -> String {
    format!("{}{}", if x.abs { "$" } else { "" }, col_name(x.n))
}
fn rowp(x: P) -> String {
    format!("{}{}", if x.abs { "$" } else { "" }, x.n)
}
pub fn render_rk(k: &RK) -> String {
    match k {
        RK::Cell { c, r } => format!("{}{}", colp(*c), rowp(*r)),
        RK::Range { c1, r1, c2, r2 } => format!("{}{}:{}{}", colp(*c1), rowp(*r1), colp(*c2), rowp(*r2)),
        RK::Cols { c1, c2 } => format!("{}:{}", colp(*c1), colp(*c2)),
        RK::Rows { r1, r2 } => format!("{}:{}", rowp(*r1), rowp(*r2)),
    }
}
pub fn rk_tag(k: &RK) -> &'static str {
    match k {
        RK::Cell { c, r } => match (c.abs, r.abs) {
            (false, false) => "ref-rel",
            (true, true) => "ref-abs",
            (true, false) => "ref-mixed-col",
            (false, true) => "ref-mixed-row",
        },
        RK::Range { c1, r1, c2, r2 } if c1.n > c2.n || r1.n > r2.n => {
            let _ = (c1, r1, c2, r2);
            "range-reversed"
        }
        RK::Range { c1, r1, c2, r2 } => {
            let a = [c1.abs, r1.abs, c2.abs, r2.abs];
            if a.iter().all(|x| !*x) {
                "range-rel"
            } else if a.iter().all(|x| *x) {
                "range-abs"
            } else {
                "range-mixed"
            }
        }
        RK::Cols { c1, c2 } => {
            if c1.abs || c2.abs {
                "cols-abs"
            } else {
                "cols-rel"
            }
        }
        RK::Rows { r1, r2 } => {
            if r1.abs || r2.abs {
                "rows-abs"
            } else {
                "rows-rel"
            }
        }
    }
}
pub fn render_leaf(l: &Leaf) -> String {
    match l {
        Leaf::Ref(r) => format!("{}{}", r.q.render(), render_rk(&r.k)),
        Leaf::RefErr(q, _) => format!("{}#REF!", q.render()),
        Leaf::Lit { text, .. } => text.to_string(),
    }
}
pub fn leaf_tags(l: &Leaf) -> Vec<&'static str> {
    match l {
        Leaf::Ref(r) => {
            let mut v = vec![rk_tag(&r.k)];
            if let Some(t) = r.q.tag() {
                v.push(t);
            }
            v
        }
        Leaf::RefErr(q, t) => {
            let mut v = vec![*t];
            if let Some(t) = q.tag() {
                v.push(t);
            }
            v
        }
        Leaf::Lit { tag, .. } => vec![*tag],
    }
}

/// A stretch of rendered text and the AST node that emitted it.
#[derive(Clone, Debug)]
pub struct Piece {
    pub start: usize,
    pub end: usize,
    pub tag: &'static str,
    /// index into `Rendered::leaves` when the piece is a leaf
    pub leaf: Option<usize>,
    /// true for blanks that are layout only (must lex as insignificant)
    pub layout_blank: bool,
}
#[derive(Clone, Debug)]
pub struct Rendered {
    pub text: String,
    pub pieces: Vec<Piece>,
    pub leaves: Vec<Leaf>,
}
impl Rendered {
    fn put(&mut self, s: &str, tag: &'static str, leaf: Option<usize>, layout_blank: bool) {
        let start = self.text.len();
        self.text.push_str(s);
        self.pieces.push(Piece { start, end: self.text.len(), tag, leaf, layout_blank });
    }
    pub fn owner(&self, pos: usize) -> Option<&Piece> {
        self.pieces.iter().find(|p| p.start <= pos && pos < p.end)
    }
}
fn call_tag(n: usize) -> &'static str {
    match n {
        1 => "call-1",
        2 => "call-2",
        _ => "call-3",
    }
}
fn rend(f: &F, o: &mut Rendered) {
    match f {
        F::L(l) => {
            let i = o.leaves.len();
            o.leaves.push(l.clone());
            let t = leaf_tags(l)[0];
            o.put(&render_leaf(l), t, Some(i), false);
        }
        F::Un(u, a) => {
            let t = u.tag();
            match u {
                Un::Neg => {
                    o.put("-", t, None, false);
                    rend(a, o);
                }
                Un::Pos => {
                    o.put("+", t, None, false);
                    rend(a, o);
                }
                Un::Pct => {
                    rend(a, o);
                    o.put("%", t, None, false);
                }
                Un::Paren => {
                    o.put("(", t, None, false);
                    rend(a, o);
                    o.put(")", t, None, false);
                }
                Un::SpParen => {
                    o.put("(", t, None, false);
                    o.put(" ", t, None, true);
                    rend(a, o);
                    o.put(" ", t, None, true);
                    o.put(")", t, None, false);
                }
                Un::Trail => {
                    rend(a, o);
                    o.put(" ", t, None, true);
                }
            }
        }
        F::Bin(op, sp, a, b) => {
            rend(a, o);
            if *sp {
                o.put(" ", "sp-op", None, true);
            }
            o.put(OPS[*op].0, OPS[*op].1, None, false);
            if *sp {
                o.put(" ", "sp-op", None, true);
            }
            rend(b, o);
        }
        F::Union(a, b) => {
            o.put("(", "union", None, false);
            rend(a, o);
            o.put(",", "union", None, false);
            rend(b, o);
            o.put(")", "union", None, false);
        }
        F::Isect(a, b) => {
            rend(a, o);
            o.put(" ", "intersection", None, false);
            rend(b, o);
        }
        F::Call(name, sp, args) => {
            let t = call_tag(args.len());
            o.put(name, t, None, false);
            o.put("(", t, None, false);
            for (i, a) in args.iter().enumerate() {
                if i > 0 {
                    o.put(",", t, None, false);
                    if *sp {
                        o.put(" ", "sp-args", None, true);
                    }
                }
                rend(a, o);
            }
            o.put(")", t, None, false);
        }
    }
}
/// Render without the leading `=` (the form `Cell::set_formula` takes).
pub fn render(f: &F) -> Rendered {
    let mut o = Rendered { text: String::new(), pieces: vec![], leaves: vec![] };
    rend(f, &mut o);
    o
}
/// All feature tags of a formula, sorted, without duplicates.
pub fn formula_tags(f: &F) -> Vec<&'static str> {
    let r = render(f);
    let mut v: Vec<&'static str> = r.pieces.iter().map(|p| p.tag).collect();
    for l in &r.leaves {
        v.extend(leaf_tags(l));
    }
    v.sort();
    v.dedup();
    v
}
pub fn own_tags(f: &F) -> Vec<&'static str> {
    match f {
        F::L(l) => leaf_tags(l),
        F::Un(u, _) => vec![u.tag()],
        F::Bin(op, sp, _, _) => {
            let mut v = vec![OPS[*op].1];
            if *sp {
                v.push("sp-op");
            }
            v
        }
        F::Union(..) => vec!["union"],
        F::Isect(..) => vec!["intersection"],
        F::Call(_, sp, a) => {
            let mut v = vec![call_tag(a.len())];
            if *sp {
                v.push("sp-args");
            }
            v
        }
    }
}
pub fn children(f: &F) -> Vec<&F> {
    match f {
        F::L(_) => vec![],
        F::Un(_, a) => vec![a],
        F::Bin(_, _, a, b) | F::Union(a, b) | F::Isect(a, b) => vec![a, b],
        F::Call(_, _, v) => v.iter().collect(),
    }
}
pub fn with_child(f: &F, i: usize, c: F) -> F {
    match f {
        F::L(_) => f.clone(),
        F::Un(u, _) => F::Un(*u, Box::new(c)),
        F::Bin(op, sp, a, b) => {
            if i == 0 {
                F::Bin(*op, *sp, Box::new(c), b.clone())
            } else {
                F::Bin(*op, *sp, a.clone(), Box::new(c))
            }
        }
        F::Union(a, b) => {
            if i == 0 {
                F::Union(Box::new(c), b.clone())
            } else {
                F::Union(a.clone(), Box::new(c))
            }
        }
        F::Isect(a, b) => {
            if i == 0 {
                F::Isect(Box::new(c), b.clone())
            } else {
                F::Isect(a.clone(), Box::new(c))
            }
        }
        F::Call(n, sp, v) => {
            let mut v = v.clone();
            v[i] = c;
            F::Call(n, *sp, v)
        }
    }
}
pub fn map_leaves(f: &F, g: &mut dyn FnMut(&Leaf) -> Leaf) -> F {
    match f {
        F::L(l) => F::L(g(l)),
        F::Un(u, a) => F::Un(*u, Box::new(map_leaves(a, g))),
        F::Bin(op, sp, a, b) => {
            let x = map_leaves(a, g);
            let y = map_leaves(b, g);
            F::Bin(*op, *sp, Box::new(x), Box::new(y))
        }
        F::Union(a, b) => {
            let x = map_leaves(a, g);
            let y = map_leaves(b, g);
            F::Union(Box::new(x), Box::new(y))
        }
        F::Isect(a, b) => {
            let x = map_leaves(a, g);
            let y = map_leaves(b, g);
            F::Isect(Box::new(x), Box::new(y))
        }
        F::Call(n, sp, v) => F::Call(n, *sp, v.iter().map(|a| map_leaves(a, g)).collect()),
    }
}
/// reference-valued expression (operands of union / intersection must be)
pub fn is_reflike(f: &F) -> bool {
    match f {
        F::L(Leaf::Ref(_)) => true,
        F::L(Leaf::Lit { kind, .. }) => matches!(kind, LitKind::Name | LitKind::Structured | LitKind::External),
        F::L(Leaf::RefErr(..)) => true,
        F::Un(Un::Paren, a) | F::Un(Un::SpParen, a) => is_reflike(a),
        F::Union(..) | F::Isect(..) => true,
        _ => false,
    }
}
/// well-formedness beyond the shape: union / intersection only over reference-valued operands,
/// a trailing blank only at the very end of the formula (checked by the enumerator: Trail only at the root).
pub fn well_formed(f: &F) -> bool {
    match f {
        F::L(_) => true,
        F::Union(a, b) | F::Isect(a, b) => is_reflike(a) && is_reflike(b) && well_formed(a) && well_formed(b),
        _ => children(f).iter().all(|c| well_formed(c)),
    }
}
pub fn leaf_count(f: &F) -> usize {
    match f {
        F::L(_) => 1,
        _ => children(f).iter().map(|c| leaf_count(c)).sum(),
    }
}

// =================================================================================================
// 3. own lexer (DESIGN 9.4)

#[derive(Clone, Copy, Debug, PartialEq, Eq)]
pub enum K {
    Str,
    QSheet,
    Bracket,
    Err,
    Num,
    Run,
    Op,
    LP,
    RP,
    Comma,
    Semi,
    LB,
    RB,
    Blank,
    Other,
}
#[derive(Clone, Debug, PartialEq, Eq)]
pub struct Tok {
    pub k: K,
    pub text: String,
    pub start: usize,
}
pub const ERR_LITS: [&str; 7] = ["#NULL!", "#DIV/0!", "#VALUE!", "#REF!", "#NAME?", "#NUM!", "#N/A"];

fn is_run_char(c: char) -> bool {
    c.is_alphanumeric() || "$._:!\\?".contains(c)
}

/// Total lexer: every character of the input belongs to exactly one token.
pub fn lex(s: &str) -> Vec<Tok> {
    let cs: Vec<(usize, char)> = s.char_indices().collect();
    let n = cs.len();
    let at = |i: usize| -> usize { if i < n { cs[i].0 } else { s.len() } };
    let mut out = vec![];
    let mut i = 0;
    while i < n {
        let c = cs[i].1;
        let st = i;
        let k;
        if c == '"' {
            // string literal, "" is an embedded quote; unterminated runs to the end
            i += 1;
            loop {
                if i >= n {
                    break;
                }
                if cs[i].1 == '"' {
                    if i + 1 < n && cs[i + 1].1 == '"' {
                        i += 2;
                        continue;
                    }
                    i += 1;
                    break;
                }
                i += 1;
            }
            k = K::Str;
        } else if c == '\'' {
            i += 1;
            loop {
                if i >= n {
                    break;
                }
                if cs[i].1 == '\'' {
                    if i + 1 < n && cs[i + 1].1 == '\'' {
                        i += 2;
                        continue;
                    }
                    i += 1;
                    break;
                }
                i += 1;
            }
            k = K::QSheet;
        } else if c == '[' {
            let mut depth = 0i32;
            while i < n {
                if cs[i].1 == '[' {
                    depth += 1;
                } else if cs[i].1 == ']' {
                    depth -= 1;
                    if depth == 0 {
                        i += 1;
                        break;
                    }
                }
                i += 1;
            }
            k = K::Bracket;
        } else if c == '#' {
            let rest = &s[cs[i].0..];
            if let Some(e) = ERR_LITS.iter().find(|e| rest.starts_with(**e)) {
                i += e.chars().count();
                k = K::Err;
            } else {
                i += 1;
                k = K::Other;
            }
        } else if c == ' ' {
            while i < n && cs[i].1 == ' ' {
                i += 1;
            }
            k = K::Blank;
        } else if c.is_ascii_digit() {
            // number: digits [. digits] [E [+-] digits], only if not followed by another run character
            let mut j = i;
            while j < n && cs[j].1.is_ascii_digit() {
                j += 1;
            }
            if j + 1 < n && cs[j].1 == '.' && cs[j + 1].1.is_ascii_digit() {
                j += 1;
                while j < n && cs[j].1.is_ascii_digit() {
                    j += 1;
                }
            }
            if j < n && (cs[j].1 == 'E' || cs[j].1 == 'e') {
                let mut m = j + 1;
                if m < n && (cs[m].1 == '+' || cs[m].1 == '-') {
                    m += 1;
                }
                if m < n && cs[m].1.is_ascii_digit() {
                    while m < n && cs[m].1.is_ascii_digit() {
                        m += 1;
                    }
                    j = m;
                }
            }
            if j < n && is_run_char(cs[j].1) {
                while i < n && is_run_char(cs[i].1) {
                    i += 1;
                }
                k = K::Run;
            } else {
                i = j;
                k = K::Num;
            }
        } else if is_run_char(c) {
            while i < n && is_run_char(cs[i].1) {
                i += 1;
            }
            k = K::Run;
        } else if c == '<' || c == '>' {
            if i + 1 < n && ((c == '<' && (cs[i + 1].1 == '>' || cs[i + 1].1 == '=')) || (c == '>' && cs[i + 1].1 == '=')) {
                i += 2;
            } else {
                i += 1;
            }
            k = K::Op;
        } else if "+-*/^&=%".contains(c) {
            i += 1;
            k = K::Op;
        } else {
            i += 1;
            k = match c {
                '(' => K::LP,
                ')' => K::RP,
                ',' => K::Comma,
                ';' => K::Semi,
                '{' => K::LB,
                '}' => K::RB,
                _ => K::Other,
            };
        }
        out.push(Tok { k, text: s[at(st)..at(i)].to_string(), start: at(st) });
    }
    out
}

fn can_end_operand(k: K) -> bool {
    matches!(k, K::Run | K::Err | K::RP | K::Bracket | K::Num | K::Str | K::RB)
}
fn can_start_operand(k: K) -> bool {
    matches!(k, K::Run | K::QSheet | K::LP | K::Bracket | K::Err | K::Num | K::Str | K::LB)
}
/// index set of significant blank runs
pub fn blank_is_significant(t: &[Tok], i: usize) -> bool {
    t[i].k == K::Blank && i > 0 && i + 1 < t.len() && can_end_operand(t[i - 1].k) && can_start_operand(t[i + 1].k)
}
/// Drop insignificant blank runs.
pub fn canon(t: &[Tok]) -> Vec<Tok> {
    (0..t.len()).filter(|&i| !(t[i].k == K::Blank && !blank_is_significant(t, i))).map(|i| t[i].clone()).collect()
}
/// If a sheet qualifier in front of `#REF!` starts at `i` (`Sheet2!` `#REF!` or `'My Sheet'` `!` `#REF!`), the index of
/// that `#REF!` token: a dead reference is compared modulo the spelling `Sheet2!#REF!` / `#REF!` (DESIGN 9.3).
fn dead_qualifier_at(t: &[Tok], i: usize) -> Option<usize> {
    let is_ref_err = |j: usize| t.get(j).map(|x| x.k == K::Err && x.text == "#REF!").unwrap_or(false);
    match t.get(i) {
        Some(x) if x.k == K::QSheet => {
            if t.get(i + 1).map(|y| y.k == K::Run && y.text == "!").unwrap_or(false) && is_ref_err(i + 2) {
                Some(i + 2)
            } else {
                None
            }
        }
        Some(x) if x.k == K::Run && x.text.len() > 1 && x.text.ends_with('!') && !x.text[..x.text.len() - 1].contains('!') => {
            if is_ref_err(i + 1) {
                Some(i + 1)
            } else {
                None
            }
        }
        _ => None,
    }
}
pub fn tok_eq(a: &Tok, b: &Tok) -> bool {
    a.k == b.k && (a.k == K::Blank || a.text == b.text)
}

/// Validate the lexer on a rendered formula: re-join is the identity, every piece boundary is a token
/// boundary, every leaf lexes to the token kinds its construction intends, layout blanks are insignificant
/// and the intersection blank is significant.  Err = machinery error.
pub fn validate_lexer(r: &Rendered) -> Result<(), String> {
    let t = lex(&r.text);
    let joined: String = t.iter().map(|x| x.text.as_str()).collect();
    if joined != r.text {
        return Err(format!("re-join differs: {:?} -> {:?}", r.text, joined));
    }
    let bounds: std::collections::BTreeSet<usize> = t.iter().map(|x| x.start).chain(std::iter::once(r.text.len())).collect();
    for p in &r.pieces {
        if !bounds.contains(&p.start) || !bounds.contains(&p.end) {
            return Err(format!("piece {:?} of {:?} does not fall on token boundaries ({:?})", &r.text[p.start..p.end], r.text, t));
        }
        let inside: Vec<&Tok> = t.iter().filter(|x| x.start >= p.start && x.start < p.end).collect();
        let kinds: Vec<K> = inside.iter().map(|x| x.k).collect();
        let ok = match p.leaf {
            Some(li) => match &r.leaves[li] {
                Leaf::Ref(rf) => match rf.q {
                    Qual::Quoted(_) => kinds == [K::QSheet, K::Run] && inside[1].text.starts_with('!'),
                    _ => kinds == [K::Run],
                },
                Leaf::RefErr(q, _) => match q {
                    Qual::None => kinds == [K::Err],
                    Qual::Plain(_) => kinds == [K::Run, K::Err],
                    Qual::Quoted(_) => kinds == [K::QSheet, K::Run, K::Err],
                },
                Leaf::Lit { kind, .. } => match kind {
                    LitKind::Num => kinds == [K::Num],
                    LitKind::Bool | LitKind::Name => kinds == [K::Run],
                    LitKind::Str => kinds == [K::Str],
                    LitKind::Err => kinds == [K::Err],
                    LitKind::Structured => kinds == [K::Run, K::Bracket],
                    LitKind::External => kinds == [K::Bracket, K::Run],
                    LitKind::Array => kinds.first() == Some(&K::LB) && kinds.last() == Some(&K::RB) && kinds.iter().all(|k| matches!(k, K::LB | K::RB | K::Num | K::Comma | K::Semi)),
                },
            },
            None => {
                if kinds.len() != 1 {
                    false
                } else if kinds[0] == K::Blank {
                    let idx = t.iter().position(|x| x.start == p.start).unwrap();
                    blank_is_significant(&t, idx) != p.layout_blank
                } else {
                    true
                }
            }
        };
        if !ok {
            return Err(format!("piece {:?} (tag {}) of {:?} lexes as {:?}", &r.text[p.start..p.end], p.tag, r.text, kinds));
        }
    }
    Ok(())
}

/// Own parser of a reference run (`B4`, `$B$4:D6`, `B:D`, `4:6`, optionally preceded by `Sheet!` or a bare `!`).
/// Returns (sheet part before `!` if any, reference).
pub fn parse_ref_run(s: &str) -> Option<(Option<String>, RK)> {
    let (sheet, body) = match s.rfind('!') {
        Some(i) => (Some(s[..i].to_string()), &s[i + 1..]),
        None => (None, s),
    };
    fn part(x: &str) -> Option<(Option<P>, Option<P>)> {
        let b = x.as_bytes();
        let mut i = 0;
        let mut col = None;
        let mut row = None;
        let mut abs = false;
        if i < b.len() && b[i] == b'$' {
            abs = true;
            i += 1;
        }
        let st = i;
        while i < b.len() && b[i].is_ascii_uppercase() {
            i += 1;
        }
        if i > st {
            if i - st > 3 {
                return None;
            }
            let mut n = 0u32;
            for &ch in &b[st..i] {
                n = n * 26 + (ch - b'A' + 1) as u32;
            }
            col = Some(P { n, abs });
            abs = false;
            if i < b.len() && b[i] == b'$' {
                abs = true;
                i += 1;
            }
        }
        let st = i;
        while i < b.len() && b[i].is_ascii_digit() {
            i += 1;
        }
        if i > st {
            if i - st > 7 {
                return None;
            }
            row = Some(P { n: x[st..i].parse().ok()?, abs });
        } else if abs {
            return None;
        }
        if i != b.len() || (col.is_none() && row.is_none()) {
            return None;
        }
        Some((col, row))
    }
    let parts: Vec<&str> = body.split(':').collect();
    let k = match parts.len() {
        1 => match part(parts[0])? {
            (Some(c), Some(r)) => RK::Cell { c, r },
            _ => return None,
        },
        2 => match (part(parts[0])?, part(parts[1])?) {
            ((Some(c1), Some(r1)), (Some(c2), Some(r2))) => RK::Range { c1, r1, c2, r2 },
            ((Some(c1), None), (Some(c2), None)) => RK::Cols { c1, c2 },
            ((None, Some(r1)), (None, Some(r2))) => RK::Rows { r1, r2 },
            _ => return None,
        },
        _ => return None,
    };
    Some((sheet, k))
}
pub fn rk_parts(k: &RK) -> Vec<P> {
    match k {
        RK::Cell { c, r } => vec![*c, *r],
        RK::Range { c1, r1, c2, r2 } => vec![*c1, *r1, *c2, *r2],
        RK::Cols { c1, c2 } => vec![*c1, *c2],
        RK::Rows { r1, r2 } => vec![*r1, *r2],
    }
}
pub fn axis_parts(k: &RK, a: Axis) -> Vec<P> {
    match (k, a) {
        (RK::Cell { c, .. }, Axis::Col) => vec![*c],
        (RK::Cell { r, .. }, Axis::Row) => vec![*r],
        (RK::Range { c1, c2, .. }, Axis::Col) => vec![*c1, *c2],
        (RK::Range { r1, r2, .. }, Axis::Row) => vec![*r1, *r2],
        (RK::Cols { c1, c2 }, Axis::Col) => vec![*c1, *c2],
        (RK::Rows { r1, r2 }, Axis::Row) => vec![*r1, *r2],
        _ => vec![],
    }
}
fn same_shape(a: &RK, b: &RK) -> bool {
    std::mem::discriminant(a) == std::mem::discriminant(b)
}

/// Result of a failed comparison: what was damaged first (left to right), how, and which feature owns it.
#[derive(Clone, Debug)]
pub struct Damage {
    pub symptom: String,
    pub tags: Vec<&'static str>,
    pub detail: String,
}

/// Compare `got` (library output) with the expected rendering `exp`, token by token through the own lexer.
/// `orig` is the rendering of the formula BEFORE the operation (same leaf order), used to say "not shifted".
/// `dead_label` names the symptom when a reference should have become #REF! (`deleted-target-not-REF` /
/// `out-of-grid-not-REF`).  Tokens left of the first divergence are verified; the first damaged token decides
/// the symptom and the tag (the feature that emitted this token).
pub fn compare(exp: &Rendered, orig: &Rendered, got: &str, dead_label: &str) -> Option<Damage> {
    compare_axis(exp, orig, got, dead_label, None)
}
/// `axis`: the axis the operation moves things along (insert/remove of rows or columns), used to tell a dead reference
/// that stayed because its parts on that axis are `$`-locked from one that stayed for another reason.
pub fn compare_axis(exp: &Rendered, orig: &Rendered, got: &str, dead_label: &str, axis: Option<Axis>) -> Option<Damage> {
    if got == exp.text {
        return None; // fast path: character-identical
    }
    let et = canon(&lex(&exp.text));
    let gt = canon(&lex(got));
    let mut i = 0; // index into et
    let mut j = 0; // index into gt
    let mut skipped_quoted: Option<usize> = None;
    loop {
        if i < et.len() && j < gt.len() && tok_eq(&et[i], &gt[j]) {
            i += 1;
            j += 1;
            continue;
        }
        // the qualifier of a dead reference may be omitted by the library
        if let Some(e) = dead_qualifier_at(&et, i) {
            if gt.get(j).map(|g| g.k == K::Err && g.text == "#REF!").unwrap_or(false) {
                if et[i].k == K::QSheet {
                    skipped_quoted = Some(i);
                }
                i = e;
                continue;
            }
        }
        // ... or kept where the expectation spells it without
        break;
    }
    if i == et.len() && j == gt.len() {
        return None;
    }
    let detail = format!("expected {:?}, got {:?} (first divergence: expected token {:?}, got token {:?})", exp.text, got, et.get(i).map(|t| &t.text), gt.get(j).map(|t| &t.text));
    let _ = skipped_quoted;
    if i == et.len() {
        // the library appended something
        let tag = exp.pieces.last().map(|p| p.tag).unwrap_or("formula");
        return Some(Damage { symptom: "tail:extra-tokens".into(), tags: vec![tag], detail });
    }
    let e = &et[i];
    let g = gt.get(j);
    let piece = exp.owner(e.start).cloned().unwrap_or(Piece { start: 0, end: 0, tag: "formula", leaf: None, layout_blank: false });
    // dropped = the token at this position is of another kind (the expected token is missing rather than altered)
    let deleted = match g {
        None => true,
        Some(g) => g.k != e.k || et.get(i + 1).map(|n| tok_eq(n, g)).unwrap_or(false),
    };
    let rest_got: String = gt[j..].iter().map(|t| t.text.as_str()).collect();
    let generic = |kind: &str| -> String {
        if deleted {
            format!("{}:dropped", kind)
        } else {
            format!("{}:changed", kind)
        }
    };
    let (symptom, tags): (String, Vec<&'static str>) = match piece.leaf {
        None => {
            let s = match e.k {
                K::Op => generic("operator"),
                K::LP | K::RP => generic("paren"),
                K::Comma => generic("comma"),
                K::Blank => generic("intersection-blank"),
                K::Run => generic("function-name"),
                _ => generic("token"),
            };
            (s, vec![piece.tag])
        }
        Some(li) => {
            let leaf = &exp.leaves[li];
            let oleaf = orig.leaves.get(li);
            match leaf {
                Leaf::Lit { tag, kind, text } => {
                    let s = match kind {
                        LitKind::Str => {
                            let inner = &text[1..text.len() - 1];
                            let collapsed = format!("\"{}\"", inner.replace("\"\"", "\""));
                            if inner.contains("\"\"") && rest_got.starts_with(&collapsed) {
                                "string:doubled-quote-collapsed".to_string()
                            } else {
                                generic("string")
                            }
                        }
                        LitKind::Num => generic("number"),
                        LitKind::Bool => generic("bool"),
                        LitKind::Err => generic("error-literal"),
                        LitKind::Name => match g {
                            Some(g) if (g.k == K::Run && parse_ref_run(&g.text).is_some()) || (g.k == K::Err && g.text == "#REF!") => "name:treated-as-ref".to_string(),
                            _ => generic("name"),
                        },
                        LitKind::Structured | LitKind::External => generic("bracket-ref"),
                        LitKind::Array => {
                            if e.k == K::LB && rest_got.starts_with("ARRAY(ARRAYROW(") {
                                "array:braces-to-ARRAY-call".to_string()
                            } else {
                                generic("array")
                            }
                        }
                    };
                    (s, vec![*tag])
                }
                Leaf::Ref(_) | Leaf::RefErr(..) => classify_ref(leaf, oleaf, e, g, &rest_got, dead_label, deleted, axis),
            }
        }
    };
    Some(Damage { symptom, tags, detail })
}

fn classify_ref(leaf: &Leaf, oleaf: Option<&Leaf>, e: &Tok, g: Option<&Tok>, rest_got: &str, dead_label: &str, deleted: bool, axis: Option<Axis>) -> (String, Vec<&'static str>) {
    let (q, shape_tag) = match leaf {
        Leaf::Ref(r) => (&r.q, rk_tag(&r.k)),
        Leaf::RefErr(q, t) => (q, *t),
        _ => unreachable!(),
    };
    let qtag = q.tag();
    // damage to the quoted sheet prefix
    if e.k == K::QSheet {
        let inner = &e.text[1..e.text.len() - 1];
        let s = if rest_got.starts_with(&format!("{}!", inner)) {
            "quoted-sheet:quotes-dropped"
        } else if rest_got.starts_with(&format!("{}'!", inner)) {
            "quoted-sheet:opening-quote-dropped"
        } else if rest_got.starts_with(&format!("\"{}'!", inner)) {
            "quoted-sheet:swallowed-into-string"
        } else if deleted {
            "quoted-sheet:dropped"
        } else {
            "quoted-sheet:changed"
        };
        return (s.to_string(), vec![qtag.unwrap_or(shape_tag)]);
    }
    // expected a dead reference
    if let Leaf::RefErr(..) = leaf {
        if e.k == K::Err || (e.k == K::Run && e.text.ends_with('!')) {
            let s = match g {
                Some(g) if g.k == K::Run && matches!((parse_ref_run(&g.text), oleaf), (Some((_, gk)), Some(Leaf::Ref(o))) if gk == o.k) => {
                    let locked = match (oleaf, axis) {
                        (Some(Leaf::Ref(o)), Some(a)) => axis_parts(&o.k, a).iter().all(|p| p.abs),
                        (Some(Leaf::Ref(o)), None) => rk_parts(&o.k).iter().all(|p| p.abs),
                        _ => false,
                    };
                    // the target was deleted, yet the reference is still there, unchanged (distinct from a LIVE
                    // reference that failed to move: "ref:not-shifted")
                    if locked { "ref:deleted-target-kept-unchanged-locked".to_string() } else { "ref:deleted-target-kept-unchanged".to_string() }
                }
                Some(g) if g.k == K::Run && parse_ref_run(&g.text).is_some() => {
                    // a deleted target that is still referenced: did the reference even move AWAY from the origin
                    // (larger coordinates)?  A removal can only move references towards the origin.
                    let away = match (parse_ref_run(&g.text), oleaf) {
                        (Some((_, gk)), Some(Leaf::Ref(o))) if same_shape(&gk, &o.k) => rk_parts(&gk).iter().zip(rk_parts(&o.k).iter()).any(|(a, b)| a.n > b.n),
                        _ => false,
                    };
                    if away && dead_label == "deleted-target-not-REF" { "ref:moved-in-wrong-direction".to_string() } else { format!("ref:{}", dead_label) }
                }
                Some(g) if g.k == K::QSheet => format!("ref:{}", dead_label),
                _ => "ref:REF-error-missing".to_string(),
            };
            return (s, vec![shape_tag]);
        }
    }
    // expected a live reference run
    if e.k == K::Run {
        let ep = parse_ref_run(&e.text);
        match g {
            Some(g) if g.k == K::Err && g.text == "#REF!" => return ("ref:spurious-REF".to_string(), vec![shape_tag]),
            Some(g) if g.k == K::Run => {
                if let (Some((es, ek)), Some((gs, gk))) = (ep, parse_ref_run(&g.text)) {
                    let mut tags = vec![];
                    let sheet_bad = es != gs;
                    if sheet_bad {
                        tags.push(qtag.unwrap_or(shape_tag));
                    }
                    if ek == gk {
                        return ("ref:sheet-qualifier-changed".to_string(), tags);
                    }
                    tags.push(shape_tag);
                    tags.dedup();
                    if !same_shape(&ek, &gk) {
                        return ("ref:shape-changed".to_string(), tags);
                    }
                    let ok_ = match oleaf {
                        Some(Leaf::Ref(o)) if same_shape(&o.k, &ek) => Some(rk_parts(&o.k)),
                        _ => None,
                    };
                    let epp = rk_parts(&ek);
                    let gpp = rk_parts(&gk);
                    let mut flags_changed = false;
                    let mut wrong = vec![];
                    for j in 0..epp.len() {
                        if epp[j].abs != gpp[j].abs {
                            flags_changed = true;
                        }
                        if epp[j].n != gpp[j].n {
                            wrong.push(j);
                        }
                    }
                    if flags_changed {
                        return ("ref:dollar-flags-changed".to_string(), tags);
                    }
                    // the operation does not concern this reference at all (expected == before), yet it changed
                    if let Some(Leaf::Ref(o)) = oleaf {
                        if o.k == ek {
                            return ("ref:unconcerned-ref-changed".to_string(), tags);
                        }
                    }
                    // moved in the direction opposite to the expected one (e.g. insert rule applied on a removal)
                    if let Some(opp) = &ok_ {
                        let opposite = !wrong.is_empty()
                            && wrong.iter().all(|&j| {
                                let e = epp[j].n as i64 - opp[j].n as i64;
                                let g = gpp[j].n as i64 - opp[j].n as i64;
                                (e < 0 && g > 0) || (e > 0 && g < 0) || (e == 0 && g != 0 && false)
                            });
                        if opposite {
                            return ("ref:moved-in-wrong-direction".to_string(), tags);
                        }
                    }
                    let s = match ok_ {
                        Some(opp) => {
                            let stayed = wrong.iter().all(|&j| gpp[j].n == opp[j].n);
                            let moved_but_should_not = wrong.iter().all(|&j| epp[j].n == opp[j].n);
                            let all_locked = wrong.iter().all(|&j| epp[j].abs);
                            if stayed && all_locked {
                                "ref:not-shifted-locked"
                            } else if stayed {
                                "ref:not-shifted"
                            } else if moved_but_should_not && all_locked && axis.is_none() {
                                "ref:locked-part-shifted"
                            } else if moved_but_should_not {
                                "ref:shifted-but-should-stay"
                            } else {
                                "ref:wrong-target"
                            }
                        }
                        None => "ref:wrong-target",
                    };
                    return (s.to_string(), tags);
                }
                let mut tags = vec![shape_tag];
                if let Some(t) = qtag {
                    if matches!(q, Qual::Plain(_)) {
                        tags.push(t);
                    }
                }
                return ("ref:mangled".to_string(), tags);
            }
            _ => {}
        }
    }
    let s = if deleted { "ref:dropped" } else { "ref:mangled" };
    (s.to_string(), vec![shape_tag])
}

// =================================================================================================
// 4. reference oracles on the AST

#[derive(Clone, Copy, Debug, PartialEq, Eq, Hash)]
pub enum Axis {
    Row,
    Col,
}
#[derive(Clone, Debug, PartialEq, Eq, Hash)]
pub struct Edit {
    pub sheet: &'static str,
    pub axis: Axis,
    pub insert: bool,
    pub p: u32,
    pub n: u32,
}

/// Image of the interval [a,b] (set of indices on one axis) under insert(p,n) / remove(p,n); None = no survivor.
pub fn shift_interval(a: u32, b: u32, insert: bool, p_: u32, n: u32, max: u32) -> Option<(u32, u32)> {
    if insert {
        let a2 = if a >= p_ { a + n } else { a };
        let b2 = if b >= p_ { b + n } else { b };
        if a2 > max {
            return None;
        }
        Some((a2, b2.min(max)))
    } else {
        let last = p_ + n - 1;
        let a2 = if a < p_ {
            a
        } else if a > last {
            a - n
        } else {
            p_
        };
        let b2: i64 = if b < p_ {
            b as i64
        } else if b > last {
            (b - n) as i64
        } else {
            p_ as i64 - 1
        };
        if (a2 as i64) > b2 {
            return None;
        }
        Some((a2, b2 as u32))
    }
}

/// The C08 oracle for one reference: `own_sheet` is the sheet holding the formula (unqualified references
/// belong to it).  `$` never matters for insert/remove.
pub fn shift_ref(r: &Ref, own_sheet: &str, e: &Edit) -> Leaf {
    let target = r.q.sheet().unwrap_or(own_sheet);
    if target != e.sheet {
        return Leaf::Ref(r.clone());
    }
    let dead = Leaf::RefErr(r.q.clone(), rk_tag(&r.k));
    let max = if e.axis == Axis::Row { MAXR } else { MAXC };
    let sh = |a: P, b: P| -> Option<(P, P)> {
        // our generated ranges are ordered (a <= b) and shifting preserves the order
        let (lo, hi, swapped) = if a.n <= b.n { (a, b, false) } else { (b, a, true) };
        let (x, y) = shift_interval(lo.n, hi.n, e.insert, e.p, e.n, max)?;
        let (lo2, hi2) = (P { n: x, abs: lo.abs }, P { n: y, abs: hi.abs });
        Some(if swapped { (hi2, lo2) } else { (lo2, hi2) })
    };
    let k = match (r.k, e.axis) {
        (RK::Cell { c, r: rr }, Axis::Row) => match sh(rr, rr) {
            Some((x, _)) => RK::Cell { c, r: x },
            None => return dead,
        },
        (RK::Cell { c, r: rr }, Axis::Col) => match sh(c, c) {
            Some((x, _)) => RK::Cell { c: x, r: rr },
            None => return dead,
        },
        (RK::Range { c1, r1, c2, r2 }, Axis::Row) => match sh(r1, r2) {
            Some((x, y)) => RK::Range { c1, r1: x, c2, r2: y },
            None => return dead,
        },
        (RK::Range { c1, r1, c2, r2 }, Axis::Col) => match sh(c1, c2) {
            Some((x, y)) => RK::Range { c1: x, r1, c2: y, r2 },
            None => return dead,
        },
        (RK::Cols { c1, c2 }, Axis::Col) => match sh(c1, c2) {
            Some((x, y)) => RK::Cols { c1: x, c2: y },
            None => return dead,
        },
        (RK::Rows { r1, r2 }, Axis::Row) => match sh(r1, r2) {
            Some((x, y)) => RK::Rows { r1: x, r2: y },
            None => return dead,
        },
        (k, _) => k,
    };
    Leaf::Ref(Ref { q: r.q.clone(), k })
}
pub fn shift_formula(f: &F, own_sheet: &str, e: &Edit) -> F {
    map_leaves(f, &mut |l| match l {
        Leaf::Ref(r) => shift_ref(r, own_sheet, e),
        other => other.clone(),
    })
}

/// The C09 oracle for one reference: add (dc,dr) to the non-$ parts; #REF! when a part leaves the grid.
pub fn translate_ref(r: &Ref, dc: i64, dr: i64) -> Leaf {
    let mut dead = false;
    let mut col = |x: P| -> P {
        if x.abs {
            return x;
        }
        let v = x.n as i64 + dc;
        if v < 1 || v > MAXC as i64 {
            dead = true;
            return x;
        }
        P { n: v as u32, abs: false }
    };
    let mut dead_r = false;
    let mut row = |x: P| -> P {
        if x.abs {
            return x;
        }
        let v = x.n as i64 + dr;
        if v < 1 || v > MAXR as i64 {
            dead_r = true;
            return x;
        }
        P { n: v as u32, abs: false }
    };
    let k = match r.k {
        RK::Cell { c, r: rr } => RK::Cell { c: col(c), r: row(rr) },
        RK::Range { c1, r1, c2, r2 } => RK::Range { c1: col(c1), r1: row(r1), c2: col(c2), r2: row(r2) },
        RK::Cols { c1, c2 } => RK::Cols { c1: col(c1), c2: col(c2) },
        RK::Rows { r1, r2 } => RK::Rows { r1: row(r1), r2: row(r2) },
    };
    if dead || dead_r {
        Leaf::RefErr(r.q.clone(), rk_tag(&r.k))
    } else {
        Leaf::Ref(Ref { q: r.q.clone(), k })
    }
}
pub fn translate_formula(f: &F, dc: i64, dr: i64) -> F {
    map_leaves(f, &mut |l| match l {
        Leaf::Ref(r) => translate_ref(r, dc, dr),
        other => other.clone(),
    })
}
pub fn ref_leaves(f: &F) -> Vec<Ref> {
    let mut v = vec![];
    map_leaves(f, &mut |l| {
        if let Leaf::Ref(r) = l {
            v.push(r.clone());
        }
        l.clone()
    });
    v
}

/// Blame for a panic / abnormal outcome that cannot be tied to a token: shrink to a minimal sub-formula that
/// still shows it (`bad`), then keep the tags of the node itself and of those children whose replacement by
/// the healthy leaf `B2`-like `healthy` cures it.
pub fn attribute(f: &F, healthy: &Leaf, bad: &dyn Fn(&F) -> bool) -> Vec<&'static str> {
    fn minimal<'a>(f: &'a F, bad: &dyn Fn(&F) -> bool) -> &'a F {
        for c in children(f) {
            // a trailing blank is only legal at the root, so `Trail` children are formulas themselves
            if bad(c) {
                return minimal(c, bad);
            }
        }
        f
    }
    let m = minimal(f, bad);
    // blame for a reference leaf: its qualifier, its shape, or both
    let blame_leaf = |l: &Leaf, with: &dyn Fn(Leaf) -> F| -> Vec<&'static str> {
        if let Leaf::Ref(r) = l {
            if r.q != Qual::None {
                if bad(&with(Leaf::Ref(Ref { q: Qual::None, k: r.k }))) {
                    return vec![rk_tag(&r.k)];
                }
            }
        }
        leaf_tags(l)
    };
    if let F::L(l) = m {
        return blame_leaf(l, &|x| F::L(x));
    }
    let mut tags = vec![];
    let ch = children(m);
    for (i, c) in ch.iter().enumerate() {
        let m2 = with_child(m, i, F::L(healthy.clone()));
        if m2 != *m && !bad(&m2) {
            match c {
                F::L(l) => tags.extend(blame_leaf(l, &|x| with_child(m, i, F::L(x)))),
                _ => tags.extend(formula_tags(c)),
            }
        }
    }
    // the combinator itself is blamed only when no single child is
    if tags.is_empty() {
        tags.extend(own_tags(m));
    }
    tags.sort();
    tags.dedup();
    tags
}

// =================================================================================================
// 2. enumerator

/// Coordinates of the generated references: near cell (c1,r1), far cell (c2,r2); ranges span near..far.
#[derive(Clone, Copy, Debug)]
pub struct Coords {
    pub c1: u32,
    pub r1: u32,
    pub c2: u32,
    pub r2: u32,
}
pub const QUOTED_SHEETS: [&str; 2] = ["My Sheet", "It's"];

fn lit(text: &'static str, tag: &'static str, kind: LitKind) -> Leaf {
    Leaf::Lit { text, tag, kind }
}
/// the 13 reference shapes (11 + two reversed-corner ranges) (each is combined with every qualifier) + a far relative cell (unqualified only)
pub fn ref_shapes(co: Coords) -> Vec<RK> {
    let (c1, r1, c2, r2) = (co.c1, co.r1, co.c2, co.r2);
    vec![
        RK::Cell { c: p(c1, false), r: p(r1, false) },
        RK::Cell { c: p(c1, true), r: p(r1, true) },
        RK::Cell { c: p(c2, true), r: p(r2, false) },
        RK::Cell { c: p(c2, false), r: p(r2, true) },
        RK::Range { c1: p(c1, false), r1: p(r1, false), c2: p(c2, false), r2: p(r2, false) },
        RK::Range { c1: p(c1, true), r1: p(r1, true), c2: p(c2, true), r2: p(r2, true) },
        RK::Range { c1: p(c1, false), r1: p(r1, true), c2: p(c2, true), r2: p(r2, false) },
        RK::Cols { c1: p(c1, false), c2: p(c2, false) },
        RK::Cols { c1: p(c1, true), c2: p(c2, true) },
        RK::Rows { r1: p(r1, false), r2: p(r2, false) },
        RK::Rows { r1: p(r1, true), r2: p(r2, true) },
        // corners not written top-left:bottom-right (legal; the library keeps them verbatim)
        RK::Range { c1: p(c1, false), r1: p(r2, false), c2: p(c2, false), r2: p(r1, false) },
        RK::Range { c1: p(c2, false), r1: p(r1, false), c2: p(c1, false), r2: p(r2, false) },
    ]
}
pub fn quals(plain: &'static str) -> Vec<Qual> {
    vec![Qual::None, Qual::Plain(plain), Qual::Quoted(QUOTED_SHEETS[0]), Qual::Quoted(QUOTED_SHEETS[1])]
}
pub fn literal_leaves() -> Vec<Leaf> {
    vec![
        lit("5", "num-int", LitKind::Num),
        lit("1.5", "num-dec", LitKind::Num),
        lit("1E+5", "num-exp", LitKind::Num),
        lit("TRUE", "bool", LitKind::Bool),
        lit("\"abc\"", "str-plain", LitKind::Str),
        lit("\"a\"\"b\"", "str-dq", LitKind::Str),
        lit("\"B2\"", "str-reflike", LitKind::Str),
        lit("\"it's\"", "str-apos", LitKind::Str),
        lit("#NULL!", "err-null", LitKind::Err),
        lit("#DIV/0!", "err-div0", LitKind::Err),
        lit("#VALUE!", "err-value", LitKind::Err),
        lit("#REF!", "err-ref", LitKind::Err),
        lit("#NAME?", "err-name", LitKind::Err),
        lit("#NUM!", "err-num", LitKind::Err),
        lit("#N/A", "err-na", LitKind::Err),
        lit("Total", "name-plain", LitKind::Name),
        lit("Q1_Sales", "name-reflike", LitKind::Name),
        lit("{1,2;3,4}", "array-const", LitKind::Array),
        // text outside ASCII (2-, 3- and 4-byte characters): byte offsets and character offsets differ behind it
        lit("\"gr\u{f6}\u{df}er\"", "str-non-ascii", LitKind::Str),
        lit("\"\u{30c7}\u{30fc}\u{30bf}\u{1F600}\"", "str-non-ascii", LitKind::Str),
    ]
}
pub fn bracket_leaves() -> Vec<Leaf> {
    vec![lit("Table1[Col]", "structured-ref", LitKind::Structured), lit("[1]Sheet1!B2", "external-ref", LitKind::External)]
}
/// full leaf alphabet without the bracket-bearing leaves (those live in their own small sub-space)
pub fn full_leaves(co: Coords, plain: &'static str) -> Vec<Leaf> {
    let mut v = vec![];
    for q in quals(plain) {
        for k in ref_shapes(co) {
            v.push(Leaf::Ref(Ref { q: q.clone(), k }));
        }
        if q == Qual::None {
            v.push(Leaf::Ref(Ref { q: Qual::None, k: RK::Cell { c: p(co.c2, false), r: p(co.r2, false) } }));
        }
    }
    v.extend(literal_leaves());
    v
}
pub fn healthy_leaf(co: Coords) -> Leaf {
    Leaf::Ref(Ref { q: Qual::None, k: RK::Cell { c: p(co.c1, false), r: p(co.r1, false) } })
}
/// reduced alphabet (12): one representative per class
pub fn reduced_leaves(co: Coords, plain: &'static str) -> Vec<Leaf> {
    let s = ref_shapes(co);
    let r = |q: Qual, i: usize| Leaf::Ref(Ref { q, k: s[i] });
    let l = literal_leaves();
    vec![
        r(Qual::None, 0),
        r(Qual::None, 1),
        r(Qual::None, 3),
        r(Qual::None, 4),
        r(Qual::None, 7),
        r(Qual::None, 9),
        r(Qual::Plain(plain), 0),
        r(Qual::Quoted(QUOTED_SHEETS[0]), 0),
        l[1].clone(),
        l[5].clone(),
        l[14].clone(),
        l[15].clone(),
    ]
}
/// small alphabet of leaves used for the deep quick-tier sections
pub fn core_leaves(co: Coords, plain: &'static str) -> Vec<Leaf> {
    let s = ref_shapes(co);
    let r = |q: Qual, i: usize| Leaf::Ref(Ref { q, k: s[i] });
    vec![r(Qual::None, 0), r(Qual::None, 6), r(Qual::Plain(plain), 1), literal_leaves()[1].clone()]
}

const HOLES: [&str; 3] = ["\u{1}0", "\u{1}1", "\u{1}2"];
fn hole(i: usize) -> F {
    F::L(Leaf::Lit { text: HOLES[i], tag: "hole", kind: LitKind::Name })
}
fn hole_index(l: &Leaf) -> Option<usize> {
    match l {
        Leaf::Lit { text, tag: "hole", .. } => HOLES.iter().position(|h| h == text),
        _ => None,
    }
}
fn bx(f: F) -> Box<F> {
    Box::new(f)
}
/// one-argument templates over a sub-template: 6 unary combinators + a 1-argument call
pub fn unary_templates(inner: &F) -> Vec<F> {
    let mut v: Vec<F> = UNS.iter().map(|u| F::Un(*u, bx(inner.clone()))).collect();
    v.push(F::Call("SUM", false, vec![inner.clone()]));
    v
}
/// two-argument templates: 12 operators, 2 spaced operators, union, intersection, 2-arg call, spaced-arg call
pub fn binary_templates(a: &F, b: &F, reduced: bool) -> Vec<F> {
    let mut v = vec![];
    for i in 0..OPS.len() {
        if reduced && !["+", "-", "*", "&", "=", "<>", ">="].contains(&OPS[i].0) {
            continue;
        }
        v.push(F::Bin(i, false, bx(a.clone()), bx(b.clone())));
    }
    if !reduced {
        v.push(F::Bin(0, true, bx(a.clone()), bx(b.clone())));
        v.push(F::Bin(7, true, bx(a.clone()), bx(b.clone())));
    }
    v.push(F::Union(bx(a.clone()), bx(b.clone())));
    v.push(F::Isect(bx(a.clone()), bx(b.clone())));
    v.push(F::Call("IF", false, vec![a.clone(), b.clone()]));
    if !reduced {
        v.push(F::Call("SUM", true, vec![a.clone(), b.clone()]));
    }
    v
}

pub struct Section {
    pub name: &'static str,
    pub templates: Vec<F>,
    /// leaf alphabet per hole
    pub holes: Vec<Vec<Leaf>>,
}
impl Section {
    pub fn per_template(&self) -> u64 {
        self.holes.iter().map(|h| h.len() as u64).product()
    }
    pub fn len(&self) -> u64 {
        self.templates.len() as u64 * self.per_template()
    }
    /// None = the combination is not a well-formed formula (skipped, not counted)
    pub fn get(&self, i: u64) -> Option<F> {
        let per = self.per_template();
        let t = &self.templates[(i / per) as usize];
        let mut rest = i % per;
        let mut choice = vec![0usize; self.holes.len()];
        for h in (0..self.holes.len()).rev() {
            let n = self.holes[h].len() as u64;
            choice[h] = (rest % n) as usize;
            rest /= n;
        }
        let f = map_leaves(t, &mut |l| match hole_index(l) {
            Some(h) => self.holes[h][choice[h]].clone(),
            None => l.clone(),
        });
        if well_formed(&f) && trail_only_at_root(&f, true) {
            Some(f)
        } else {
            None
        }
    }
}
fn trail_only_at_root(f: &F, root: bool) -> bool {
    match f {
        F::Un(Un::Trail, a) => root && trail_only_at_root(a, false),
        _ => children(f).iter().all(|c| trail_only_at_root(c, false)),
    }
}

pub struct Enumerator {
    pub sections: Vec<Section>,
}
impl Enumerator {
    pub fn len(&self) -> u64 {
        self.sections.iter().map(|s| s.len()).sum()
    }
    pub fn get(&self, mut i: u64) -> Option<(&'static str, Option<F>)> {
        for s in &self.sections {
            if i < s.len() {
                return Some((s.name, s.get(i)));
            }
            i -= s.len();
        }
        None
    }
    pub fn summary(&self) -> Vec<(String, u64)> {
        self.sections.iter().map(|s| (s.name.to_string(), s.len())).collect()
    }
}

fn chain_templates() -> Vec<F> {
    // for every combinator a depth-6 chain over the two holes (alternating)
    let mut v = vec![];
    let h = |i: usize| hole(i % 2);
    for ut in 0..7 {
        if ut == 5 {
            continue; // a trailing blank cannot nest
        }
        let mut f = hole(0);
        for _ in 0..6 {
            f = unary_templates(&f)[ut].clone();
        }
        v.push(f);
    }
    let nb = binary_templates(&hole(0), &hole(1), false).len();
    for bt in 0..nb {
        // left-nested
        let mut f = hole(0);
        for d in 0..6 {
            f = binary_templates(&f, &h(d + 1), false)[bt].clone();
        }
        v.push(f);
        // right-nested
        let mut f = h(0);
        for d in 0..6 {
            f = binary_templates(&h(d + 1), &f, false)[bt].clone();
        }
        v.push(f);
    }
    let mut f = hole(0);
    for _ in 0..6 {
        f = F::Call("IF", false, vec![hole(1), f, hole(0)]);
    }
    v.push(f);
    v
}

/// The formula space of a tier.  `deep` selects the thorough tier (<=3 leaves over the reduced alphabet, all
/// <=2-leaf formulas over the full alphabet); the quick tier has all 1-leaf formulas over the full alphabet, 2-leaf
/// formulas over full x healthy and reduced x reduced, and wrapped / 3-leaf shapes over a 4-leaf core alphabet.
pub fn main_space(co: Coords, plain: &'static str, deep: bool, core: Vec<Leaf>) -> Enumerator {
    let full = full_leaves(co, plain);
    let red = reduced_leaves(co, plain);
    let healthy = vec![healthy_leaf(co)];
    let small = if deep { red.clone() } else { core.clone() };
    let mut s = vec![];
    s.push(Section { name: "leaf", templates: vec![hole(0)], holes: vec![full.clone()] });
    s.push(Section { name: "unary(leaf)", templates: unary_templates(&hole(0)), holes: vec![full.clone()] });
    let b2 = binary_templates(&hole(0), &hole(1), false);
    if deep {
        s.push(Section { name: "binary(full,full)", templates: b2.clone(), holes: vec![full.clone(), full.clone()] });
    } else {
        s.push(Section { name: "binary(full,healthy)", templates: b2.clone(), holes: vec![full.clone(), healthy.clone()] });
        s.push(Section { name: "binary(healthy,full)", templates: b2.clone(), holes: vec![healthy.clone(), full.clone()] });
        s.push(Section { name: "binary(reduced,reduced)", templates: b2.clone(), holes: vec![red.clone(), red.clone()] });
    }
    // unary(unary(leaf))
    let mut uu = vec![];
    for u in unary_templates(&hole(0)) {
        uu.extend(unary_templates(&u));
    }
    s.push(Section { name: "unary(unary(leaf))", templates: uu, holes: vec![small.clone()] });
    // one unary wrapper somewhere around a binary
    let mut ub = vec![];
    for b in &b2 {
        ub.extend(unary_templates(b));
    }
    for u in unary_templates(&hole(0)) {
        ub.extend(binary_templates(&u, &hole(1), false));
    }
    for u in unary_templates(&hole(1)) {
        ub.extend(binary_templates(&hole(0), &u, false));
    }
    s.push(Section { name: "unary-around-binary", templates: ub, holes: vec![small.clone(), small.clone()] });
    // three leaves
    let mut t3 = vec![];
    for inner in binary_templates(&hole(0), &hole(1), true) {
        t3.extend(binary_templates(&inner, &hole(2), true));
    }
    for inner in binary_templates(&hole(1), &hole(2), true) {
        t3.extend(binary_templates(&hole(0), &inner, true));
    }
    t3.push(F::Call("IF", false, vec![hole(0), hole(1), hole(2)]));
    s.push(Section { name: "three-leaves", templates: t3, holes: vec![small.clone(), small.clone(), small.clone()] });
    s.push(Section { name: "depth-6-chains", templates: chain_templates(), holes: vec![small.clone(), small.clone()] });
    Enumerator { sections: s }
}

/// The bracket-bearing leaves (structured / external reference) live in their own small space because the
/// library is suspected not to terminate on `[`: every case may cost a full watchdog timeout.
pub fn bracket_space(co: Coords, deep: bool) -> Enumerator {
    let br = bracket_leaves();
    let healthy = vec![healthy_leaf(co)];
    let mut s = vec![];
    s.push(Section { name: "bracket-leaf", templates: vec![hole(0)], holes: vec![br.clone()] });
    if deep {
        s.push(Section { name: "unary(bracket-leaf)", templates: unary_templates(&hole(0)), holes: vec![br.clone()] });
        let b2 = binary_templates(&hole(0), &hole(1), false);
        s.push(Section { name: "binary(bracket-leaf,healthy)", templates: b2.clone(), holes: vec![br.clone(), healthy.clone()] });
        s.push(Section { name: "binary(healthy,bracket-leaf)", templates: b2, holes: vec![healthy.clone(), br.clone()] });
    } else {
        s.push(Section { name: "binary(bracket-leaf,healthy)", templates: vec![F::Bin(0, false, bx(hole(0)), bx(hole(1)))], holes: vec![br.clone(), healthy] });
    }
    Enumerator { sections: s }
}
