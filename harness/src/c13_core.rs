//! C13 core: workloads, fixtures, reference outputs, forked child runner, directory inspection, oracle.
use super::agile;
use crate::common::*;
use crate::dump;
use serde_json::Value;
use std::io::Read;
use std::path::{Path, PathBuf};
use std::time::{Duration, Instant};
use umya_spreadsheet::{self as umya, Spreadsheet};

pub const PASSWORD: &str = "pw-13";
pub const BUF: u64 = 8192; // capacity of std::io::BufWriter (feature boundary used for position tags only)

#[derive(Clone, Copy, PartialEq, Eq, Debug)]
pub enum Wl {
    Xlsx,
    Light,
    Xlsx64k,
    CsvSmall,
    Csv,
    Pw,
    PwLight,
    SetPw,
}
pub const WLS: [Wl; 8] = [Wl::Xlsx, Wl::Light, Wl::Xlsx64k, Wl::CsvSmall, Wl::Csv, Wl::Pw, Wl::PwLight, Wl::SetPw];
impl Wl {
    pub fn name(self) -> &'static str {
        match self {
            Wl::Xlsx => "xlsx-write",
            Wl::Light => "xlsx-write-light",
            Wl::Xlsx64k => "xlsx-write-64k",
            Wl::CsvSmall => "csv-small",
            Wl::Csv => "csv",
            Wl::Pw => "password",
            Wl::PwLight => "password-light",
            Wl::SetPw => "set-password",
        }
    }
    pub fn parse(s: &str) -> Option<Wl> {
        WLS.iter().copied().find(|w| w.name() == s)
    }
    pub fn ext(self) -> &'static str {
        match self {
            Wl::CsvSmall | Wl::Csv => "csv",
            _ => "xlsx",
        }
    }
    pub fn is_cfb(self) -> bool {
        matches!(self, Wl::Pw | Wl::PwLight | Wl::SetPw)
    }
    pub fn is_csv(self) -> bool {
        matches!(self, Wl::CsvSmall | Wl::Csv)
    }
    pub fn api(self) -> &'static str {
        match self {
            Wl::Xlsx | Wl::Xlsx64k => "writer::xlsx::write",
            Wl::Light => "writer::xlsx::write_light",
            Wl::CsvSmall | Wl::Csv => "writer::csv::write",
            Wl::Pw => "writer::xlsx::write_with_password",
            Wl::PwLight => "writer::xlsx::write_with_password_light",
            Wl::SetPw => "writer::xlsx::set_password",
        }
    }
}

#[derive(Clone, Copy, PartialEq, Eq, Debug)]
pub enum Pre {
    Absent,
    Old,
}
impl Pre {
    pub fn name(self) -> &'static str {
        match self {
            Pre::Absent => "absent",
            Pre::Old => "old",
        }
    }
    pub fn parse(s: &str) -> Pre {
        if s == "old" {
            Pre::Old
        } else {
            Pre::Absent
        }
    }
}

// ---------------------------------------------------------------------------------------------
// fixtures (deterministic; built once per process)

fn put(b: &mut Spreadsheet, col: u32, row: u32, s: String) {
    b.get_sheet_by_name_mut("Sheet1").unwrap().get_cell_mut((col, row)).set_value_string(s);
}
fn book_new() -> Spreadsheet {
    let mut b = umya::new_file();
    put(&mut b, 1, 1, "NEW workbook".into());
    b.get_sheet_by_name_mut("Sheet1").unwrap().get_cell_mut((2, 2)).set_value_number(42.5);
    b
}
fn book_old() -> Spreadsheet {
    let mut b = umya::new_file();
    put(&mut b, 1, 1, "OLD workbook".into());
    put(&mut b, 1, 2, "kept from the previous save".into());
    b.get_sheet_by_name_mut("Sheet1").unwrap().get_cell_mut((3, 3)).set_value_number(7.0);
    b
}
/// poorly compressible but deterministic text (an LCG is used to make CONTENT, not to choose cases)
fn noise(seed: u64, len: usize) -> String {
    let mut x = seed.wrapping_mul(0x9E3779B97F4A7C15) | 1;
    let mut s = String::with_capacity(len);
    const AL: &[u8] = b"abcdefghijklmnopqrstuvwxyzABCDEFGHIJKLMNOPQRSTUVWXYZ0123456789 ";
    for _ in 0..len {
        x = x.wrapping_mul(6364136223846793005).wrapping_add(1442695040888963407);
        s.push(AL[((x >> 33) % AL.len() as u64) as usize] as char);
    }
    s
}
fn book_big() -> Spreadsheet {
    let mut b = umya::new_file();
    for r in 1..=600u32 {
        for c in 1..=3u32 {
            put(&mut b, c, r, noise((r * 8 + c) as u64, 48));
        }
    }
    b
}
fn book_csv(rows: u32, cols: u32) -> Spreadsheet {
    let mut b = umya::new_file();
    for r in 1..=rows {
        for c in 1..=cols {
            put(&mut b, c, r, format!("r{}c{}-{}", r, c, noise((r * 16 + c) as u64, 6)));
        }
    }
    b
}

pub struct Fx {
    pub new: Spreadsheet,
    pub big: Spreadsheet,
    pub csv: Spreadsheet,
    pub csv_small: Spreadsheet,
    pub old_xlsx: Vec<u8>,
    pub old_csv: Vec<u8>,
    /// plain package handed to set_password as its source file
    pub src_xlsx: Vec<u8>,
    refs: std::cell::RefCell<std::collections::BTreeMap<&'static str, std::rc::Rc<Reference>>>,
}
// worker processes are single-threaded; the pool only requires the bound
unsafe impl Sync for Fx {}
unsafe impl Send for Fx {}

pub struct Reference {
    /// reference output of the in-memory writer (xlsx/csv) or the plain package that must come out of decryption
    pub bytes: Vec<u8>,
    pub proj: Option<Value>,
}

impl Fx {
    pub fn new() -> Fx {
        let new = book_new();
        let old = book_old();
        let old_xlsx = dump::save_bytes(&old, false).expect("old workbook saves");
        let src_xlsx = dump::save_bytes(&new, false).expect("new workbook saves");
        // a save mutates the workbook's shared string table (it only grows, see C12): bring every book into its
        // steady state so that the reference save, the fault-free measurement and every faulted save start alike
        let big = book_big();
        for _ in 0..2 {
            let _ = dump::save_bytes(&new, false);
            let _ = dump::save_bytes(&new, true);
            let _ = dump::save_bytes(&big, false);
        }
        Fx {
            new,
            big,
            csv: book_csv(220, 6),
            csv_small: book_csv(3, 2),
            old_xlsx,
            old_csv: b"old,file\r\nkept,from the previous save\r\n".to_vec(),
            src_xlsx,
            refs: Default::default(),
        }
    }
    pub fn old_bytes(&self, wl: Wl) -> &[u8] {
        if wl.is_csv() {
            &self.old_csv
        } else {
            &self.old_xlsx
        }
    }
    pub fn book(&self, wl: Wl) -> &Spreadsheet {
        match wl {
            Wl::Xlsx64k => &self.big,
            Wl::Csv => &self.csv,
            Wl::CsvSmall => &self.csv_small,
            _ => &self.new,
        }
    }
    /// reference = output of the same library writer into memory on a healthy sink (what the complete new file is)
    pub fn reference(&self, wl: Wl) -> std::rc::Rc<Reference> {
        if let Some(r) = self.refs.borrow().get(wl.name()) {
            return r.clone();
        }
        let bytes = match wl {
            Wl::Xlsx | Wl::Xlsx64k | Wl::Pw => dump::save_bytes(self.book(wl), false).expect("reference save"),
            Wl::Light | Wl::PwLight => dump::save_bytes(self.book(wl), true).expect("reference save"),
            Wl::SetPw => self.src_xlsx.clone(),
            Wl::Csv | Wl::CsvSmall => {
                let mut cur = std::io::Cursor::new(Vec::new());
                umya::writer::csv::write_writer(self.book(wl), &mut cur, &umya::structs::CsvWriterOption::default()).expect("reference csv");
                cur.into_inner()
            }
        };
        let proj = if wl.is_csv() { None } else { Some(dump::book_p(&dump::load_bytes(&bytes, true).expect("reference loads"), dump::Opts::FULL)) };
        let r = std::rc::Rc::new(Reference { bytes, proj });
        self.refs.borrow_mut().insert(wl.name(), r.clone());
        r
    }

    /// Is `bytes` the complete new file of this workload?  Err(reason) otherwise.
    pub fn is_complete_new(&self, wl: Wl, bytes: &[u8]) -> Result<(), String> {
        let rf = self.reference(wl);
        if wl.is_csv() {
            return if bytes == &rf.bytes[..] { Ok(()) } else { Err(describe_vs(bytes, &rf.bytes)) };
        }
        let package: Vec<u8> = if wl.is_cfb() { agile::decrypt(bytes, PASSWORD)? } else { bytes.to_vec() };
        if package == rf.bytes {
            return Ok(());
        }
        if wl == Wl::SetPw {
            return Err(format!("decrypted package differs from the source file: {}", describe_vs(&package, &rf.bytes)));
        }
        // content-wise: every zip member readable (CRC) + same projection as the reference
        zip_complete(&package).map_err(|e| format!("{} ({})", e, describe_vs(&package, &rf.bytes)))?;
        let b = dump::load_bytes(&package, true).map_err(|e| format!("does not open with read_reader: {} ({})", e, describe_vs(&package, &rf.bytes)))?;
        let p = dump::book_p(&b, dump::Opts::FULL);
        match dump::first_diff(rf.proj.as_ref().unwrap(), &p) {
            None => Ok(()),
            Some((path, want, got)) => Err(format!("content differs from the reference at {}: want {} got {}", path, want, got)),
        }
    }

    pub fn do_save(&self, wl: Wl, dest: &Path, src: &Path) -> Result<(), String> {
        use umya::writer::{csv, xlsx};
        let r = match wl {
            Wl::Xlsx => xlsx::write(&self.new, dest),
            Wl::Light => xlsx::write_light(&self.new, dest),
            Wl::Xlsx64k => xlsx::write(&self.big, dest),
            Wl::CsvSmall => csv::write(&self.csv_small, dest, None),
            Wl::Csv => csv::write(&self.csv, dest, None),
            Wl::Pw => xlsx::write_with_password(&self.new, dest, PASSWORD),
            Wl::PwLight => xlsx::write_with_password_light(&self.new, dest, PASSWORD),
            Wl::SetPw => xlsx::set_password(src, dest, PASSWORD),
        };
        r.map_err(|e| format!("{:?}", e))
    }
}

fn describe_vs(got: &[u8], want: &[u8]) -> String {
    if got.len() < want.len() && want.starts_with(got) {
        format!("{} of {} bytes: a proper prefix of the reference", got.len(), want.len())
    } else {
        format!("{} bytes, reference {} bytes, common prefix {}", got.len(), want.len(), got.iter().zip(want.iter()).take_while(|(a, b)| a == b).count())
    }
}

fn zip_complete(bytes: &[u8]) -> Result<(), String> {
    // the archive ends where the file ends: an end-of-central-directory record (22 bytes + its comment) closes the file.
    // (The zip crate itself searches the whole file for the record and would accept a package followed by the tail of
    // an older, longer file.)
    let closes = (0..=bytes.len().saturating_sub(22)).rev().take(65_536 + 1).any(|o| {
        bytes[o..].starts_with(b"PK\x05\x06") && o + 22 + u16::from_le_bytes([bytes[o + 20], bytes[o + 21]]) as usize == bytes.len()
    });
    if !closes {
        return Err("bytes follow the end-of-central-directory record of the zip archive (or there is none)".into());
    }
    let mut z = zip::ZipArchive::new(std::io::Cursor::new(bytes)).map_err(|e| format!("zip central directory unreadable: {}", e))?;
    for i in 0..z.len() {
        let mut f = z.by_index(i).map_err(|e| format!("zip member {}: {}", i, e))?;
        let mut sinkbuf = vec![];
        f.read_to_end(&mut sinkbuf).map_err(|e| format!("zip member {} unreadable: {}", f.name(), e))?;
    }
    Ok(())
}

// ---------------------------------------------------------------------------------------------
// forked child runner

#[derive(Clone, Debug, PartialEq)]
pub enum Res {
    Ok,
    Err(String),
    Panic { file: String, msg: String },
    Signal(i32),
    Hang,
    Machinery(String),
}
impl Res {
    pub fn kind(&self) -> &'static str {
        match self {
            Res::Ok => "ok",
            Res::Err(_) => "err",
            Res::Panic { .. } => "panic",
            Res::Signal(_) => "signal",
            Res::Hang => "hang",
            Res::Machinery(_) => "machinery",
        }
    }
    pub fn text(&self) -> String {
        match self {
            Res::Ok => "Ok(())".into(),
            Res::Err(e) => format!("Err({})", e),
            Res::Panic { file, msg } => format!("panic at {}: {}", file, msg),
            Res::Signal(s) => format!("killed by signal {}", s),
            Res::Hang => "no return within the time limit".into(),
            Res::Machinery(m) => format!("machinery: {}", m),
        }
    }
}

thread_local! {
    static PANIC_INFO: std::cell::RefCell<Option<(String, String)>> = std::cell::RefCell::new(None);
}
/// Install a hook that records (source file, message) of the last panic of this thread.
pub fn recording_hook() {
    std::panic::set_hook(Box::new(|info| {
        let file = info.location().map(|l| l.file().to_string()).unwrap_or_default();
        let msg = if let Some(s) = info.payload().downcast_ref::<&str>() {
            s.to_string()
        } else if let Some(s) = info.payload().downcast_ref::<String>() {
            s.clone()
        } else {
            "panic".to_string()
        };
        PANIC_INFO.with(|p| *p.borrow_mut() = Some((file, msg)));
    }));
}
pub fn take_panic_info() -> (String, String) {
    PANIC_INFO.with(|p| p.borrow_mut().take()).unwrap_or((String::new(), "panic".into()))
}
/// stable symptom for a panic: source file (no directories, no line) + normalised message
pub fn panic_symptom(file: &str, msg: &str) -> String {
    let base = file.rsplit('/').next().unwrap_or(file);
    let class = if msg.starts_with("called `Result::unwrap()` on an `Err` value") {
        if msg.contains("Os {") || msg.contains("Error { kind") || msg.contains("Kind(") {
            "unwrap-on-io-error".to_string()
        } else {
            "unwrap-on-err".to_string()
        }
    } else if msg.starts_with("called `Option::unwrap()` on a `None` value") {
        "unwrap-on-none".to_string()
    } else {
        let mut s: String = msg.chars().map(|c| if c.is_ascii_digit() { '#' } else { c }).collect();
        while s.contains("##") {
            s = s.replace("##", "#");
        }
        s.chars().take(48).collect()
    };
    format!("panic@{}:{}", base, class)
}

/// Run `f` guarded in this process (used by the sink injector and the strace child).
pub fn run_guarded<F: FnOnce() -> Result<(), String>>(f: F) -> Res {
    recording_hook();
    match std::panic::catch_unwind(std::panic::AssertUnwindSafe(f)) {
        Ok(Ok(())) => Res::Ok,
        Ok(Err(e)) => Res::Err(e),
        Err(_) => {
            let (file, msg) = take_panic_info();
            Res::Panic { file, msg }
        }
    }
}

pub struct ChildCfg {
    /// RLIMIT_FSIZE (bytes) with SIGXFSZ ignored
    pub fsize: Option<u64>,
    /// become uid/gid 65534 so that permission bits bind although the harness runs as root
    pub drop_priv: bool,
    pub timeout: Duration,
}

/// fork; in the child apply `cfg`, run `f` under catch_unwind and `_exit` with 0 Ok / 1 Err / 2 panic / 3 set-up failure;
/// the message travels through a pipe (pipes are not subject to RLIMIT_FSIZE).  The worker process is single-threaded.
pub fn run_forked<F: FnOnce() -> Result<(), String>>(cfg: &ChildCfg, f: F) -> Res {
    unsafe {
        let mut fds = [0i32; 2];
        if libc::pipe2(fds.as_mut_ptr(), libc::O_CLOEXEC) != 0 {
            return Res::Machinery("pipe2 failed".into());
        }
        let pid = libc::fork();
        if pid < 0 {
            libc::close(fds[0]);
            libc::close(fds[1]);
            return Res::Machinery("fork failed".into());
        }
        if pid == 0 {
            libc::close(fds[0]);
            let send = |code: i32, text: &str| -> ! {
                let b = text.as_bytes();
                let n = b.len().min(1500);
                let _ = libc::write(fds[1], b.as_ptr() as *const libc::c_void, n);
                libc::_exit(code)
            };
            if cfg.drop_priv && (libc::setgroups(0, std::ptr::null()) != 0 || libc::setgid(65534) != 0 || libc::setuid(65534) != 0) {
                send(3, "cannot drop privileges");
            }
            if let Some(l) = cfg.fsize {
                libc::signal(libc::SIGXFSZ, libc::SIG_IGN);
                let lim = libc::rlimit { rlim_cur: l as libc::rlim_t, rlim_max: l as libc::rlim_t };
                if libc::setrlimit(libc::RLIMIT_FSIZE, &lim) != 0 {
                    send(3, "setrlimit(RLIMIT_FSIZE) failed");
                }
            }
            match run_guarded(f) {
                Res::Ok => send(0, ""),
                Res::Err(e) => send(1, &e),
                Res::Panic { file, msg } => send(2, &format!("{}|{}", file, msg)),
                _ => send(3, "unexpected"),
            }
        }
        libc::close(fds[1]);
        let deadline = Instant::now() + cfg.timeout;
        let mut buf: Vec<u8> = vec![];
        let mut hang = false;
        loop {
            let now = Instant::now();
            if now >= deadline {
                hang = true;
                break;
            }
            let ms = (deadline - now).as_millis().max(1).min(60_000) as i32;
            let mut pfd = libc::pollfd { fd: fds[0], events: libc::POLLIN, revents: 0 };
            let n = libc::poll(&mut pfd, 1, ms);
            if n == 0 {
                continue;
            }
            if n < 0 {
                if *libc::__errno_location() == libc::EINTR {
                    continue;
                }
                break;
            }
            let mut tmp = [0u8; 2048];
            let r = libc::read(fds[0], tmp.as_mut_ptr() as *mut libc::c_void, tmp.len());
            if r > 0 {
                buf.extend_from_slice(&tmp[..r as usize]);
            } else if r == 0 {
                break;
            } else if *libc::__errno_location() != libc::EINTR {
                break;
            }
        }
        libc::close(fds[0]);
        let mut status = 0i32;
        if hang {
            libc::kill(pid, libc::SIGKILL);
            libc::waitpid(pid, &mut status, 0);
            return Res::Hang;
        }
        loop {
            let r = libc::waitpid(pid, &mut status, 0);
            if r == pid {
                break;
            }
            if r < 0 && *libc::__errno_location() != libc::EINTR {
                return Res::Machinery("waitpid failed".into());
            }
        }
        let text = String::from_utf8_lossy(&buf).to_string();
        if libc::WIFSIGNALED(status) {
            return Res::Signal(libc::WTERMSIG(status));
        }
        match libc::WEXITSTATUS(status) {
            0 => Res::Ok,
            1 => Res::Err(text),
            2 => {
                let (file, msg) = match text.split_once('|') {
                    Some((a, b)) => (a.to_string(), b.to_string()),
                    None => (String::new(), text),
                };
                Res::Panic { file, msg }
            }
            c => Res::Machinery(format!("child exit {}: {}", c, text)),
        }
    }
}

// ---------------------------------------------------------------------------------------------
// case directories

pub struct CaseDir {
    pub root: PathBuf,
    /// directory the save works in
    pub d: PathBuf,
    /// harness-private files (source of set_password, progress page, result file)
    pub aux: PathBuf,
}
impl CaseDir {
    /// Private scratch directory of THIS process for the given injector (`<work>/C13/<prefix>-<pid>/{d,aux}`); it is
    /// emptied before and after every case (creating and deleting whole trees per case made 16 workers queue up
    /// on the parent directory), and deleted by the parent at the end of the run.
    pub fn create(prefix: &str) -> CaseDir {
        let root = PathBuf::from(work_dir("C13")).join(format!("{}-{}", prefix, std::process::id()));
        let cd = CaseDir::at(&root);
        if root.exists() {
            cd.remove();
        }
        std::fs::create_dir_all(&cd.d).expect("case dir");
        std::fs::create_dir_all(&cd.aux).expect("case aux dir");
        cd
    }
    pub fn at(root: &Path) -> CaseDir {
        CaseDir { root: root.to_path_buf(), d: root.join("d"), aux: root.join("aux") }
    }
    pub fn dest(&self, wl: Wl) -> PathBuf {
        self.d.join(format!("book.{}", wl.ext()))
    }
    pub fn src(&self) -> PathBuf {
        self.aux.join("source.xlsx")
    }
    pub fn prepare(&self, fx: &Fx, wl: Wl, pre: Pre) {
        if wl == Wl::SetPw {
            std::fs::write(self.src(), &fx.src_xlsx).expect("source file");
        }
        if pre == Pre::Old {
            std::fs::write(self.dest(wl), fx.old_bytes(wl)).expect("old destination");
        }
    }
    /// empty `d` and `aux` (directories stay)
    pub fn remove(&self) {
        use std::os::unix::fs::PermissionsExt;
        for dir in [&self.d, &self.aux] {
            let rd = match std::fs::read_dir(dir) {
                Ok(r) => r,
                Err(_) => {
                    let _ = std::fs::set_permissions(dir, std::fs::Permissions::from_mode(0o755));
                    match std::fs::read_dir(dir) {
                        Ok(r) => r,
                        Err(_) => continue,
                    }
                }
            };
            for e in rd.flatten() {
                let p = e.path();
                let is_dir = e.file_type().map(|t| t.is_dir()).unwrap_or(false);
                let r = if is_dir { std::fs::remove_dir_all(&p) } else { std::fs::remove_file(&p) };
                if r.is_err() {
                    // a case made the directory read-only
                    let _ = std::fs::set_permissions(dir, std::fs::Permissions::from_mode(0o755));
                    let _ = if is_dir { std::fs::remove_dir_all(&p) } else { std::fs::remove_file(&p) };
                }
            }
        }
    }
    pub fn make_writable(&self) {
        use std::os::unix::fs::PermissionsExt;
        let _ = std::fs::set_permissions(&self.d, std::fs::Permissions::from_mode(0o755));
    }
}
/// delete the scratch directories of finished processes (parent, at the end of a run / replay): a directory
/// `<prefix>-<pid>` is removed when <pid> is this process or no longer alive, so concurrent runs do not disturb each other
pub fn purge_scratch() {
    use std::os::unix::fs::PermissionsExt;
    let me = std::process::id().to_string();
    if let Ok(rd) = std::fs::read_dir(work_dir("C13")) {
        for e in rd.flatten() {
            if !e.file_type().map(|t| t.is_dir()).unwrap_or(false) {
                continue;
            }
            let name = e.file_name().to_string_lossy().to_string();
            let pid = name.rsplit('-').next().unwrap_or("").to_string();
            if pid.is_empty() || !pid.chars().all(|c| c.is_ascii_digit()) {
                continue;
            }
            if pid == me || !Path::new(&format!("/proc/{}", pid)).exists() {
                let _ = std::fs::set_permissions(e.path().join("d"), std::fs::Permissions::from_mode(0o755));
                let _ = std::fs::remove_dir_all(e.path());
            }
        }
    }
}

#[derive(Clone, Debug, PartialEq)]
pub enum Dest {
    Absent,
    File(Vec<u8>),
    Dir,
}
pub fn read_dest(p: &Path) -> Dest {
    match std::fs::symlink_metadata(p) {
        Err(_) => Dest::Absent,
        Ok(md) if md.is_dir() => Dest::Dir,
        Ok(_) => Dest::File(std::fs::read(p).unwrap_or_default()),
    }
}
/// sorted "name:kind:len" listing of the working directory
pub fn listing(d: &Path) -> Vec<String> {
    let mut v = vec![];
    if let Ok(rd) = std::fs::read_dir(d) {
        for e in rd.flatten() {
            let md = e.metadata();
            let (k, l) = match md {
                Ok(m) if m.is_dir() => ("dir", 0),
                Ok(m) => ("file", m.len()),
                Err(_) => ("?", 0),
            };
            v.push(format!("{}:{}:{}", e.file_name().to_string_lossy(), k, l));
        }
    }
    v.sort();
    v
}

// ---------------------------------------------------------------------------------------------
// oracle

pub struct Finding {
    pub clause: &'static str,
    pub symptom: String,
    pub detail: String,
}

/// What the destination was before the save.
#[derive(Clone, Copy, PartialEq, Eq, Debug)]
pub enum Before {
    Absent,
    Old,
    Directory,
}

/// The statement's oracle.  `killed`: the process was killed on purpose (kill-point enumeration).
/// Returns the destination class ("absent","old","new","partial","dir") and the findings.
pub fn judge(fx: &Fx, wl: Wl, before: Before, outcome: &Res, dest: &Dest, killed: bool) -> (&'static str, Vec<Finding>) {
    let mut out = vec![];
    let mut why = String::new();
    let mut dest_len = 0usize;
    let dclass: &'static str = match dest {
        Dest::Absent => "absent",
        Dest::Dir => "dir",
        Dest::File(b) => {
            dest_len = b.len();
            if before == Before::Old && &b[..] == fx.old_bytes(wl) {
                "old"
            } else {
                match fx.is_complete_new(wl, b) {
                    Ok(()) => "new",
                    Err(e) => {
                        why = e;
                        "partial"
                    }
                }
            }
        }
    };
    if !killed {
        match outcome {
            Res::Panic { file, msg } => out.push(Finding { clause: "no-panic", symptom: panic_symptom(file, msg), detail: format!("{} panicked instead of returning an error: {} ({})", wl.api(), msg, file) }),
            Res::Hang => out.push(Finding { clause: "terminates", symptom: "hang".into(), detail: format!("{} did not return", wl.api()) }),
            Res::Signal(s) => out.push(Finding { clause: "no-panic", symptom: format!("died-by-signal:{}", s), detail: format!("{}: process died by signal {}", wl.api(), s) }),
            Res::Machinery(m) => out.push(Finding { clause: "harness", symptom: "machinery".into(), detail: m.clone() }),
            _ => {}
        }
    }
    let unchanged = match before {
        Before::Absent => dclass == "absent",
        Before::Old => dclass == "old",
        Before::Directory => dclass == "dir",
    };
    if *outcome == Res::Ok && !killed {
        if dclass != "new" {
            let ref_len = fx.reference(wl).bytes.len();
            let symptom = match dclass {
                "absent" => "ok-but-destination-missing",
                "old" => "ok-but-destination-still-old",
                "dir" => "ok-but-destination-is-directory",
                _ => {
                    if dest_len < ref_len || why.contains("prefix") || why.contains("cut off") || why.contains("does not parse") || why.contains("HMAC") || why.contains("states") {
                        "ok-but-truncated"
                    } else {
                        "ok-but-corrupt"
                    }
                }
            };
            out.push(Finding { clause: "destination-intact", symptom: symptom.into(), detail: format!("{} returned Ok(()) but the destination is not the complete new file: {} {}", wl.api(), dclass, why) });
        }
    } else if !(unchanged || dclass == "new") {
        let kind = if killed { "killed" } else { outcome.kind() };
        let what = match (before, dclass) {
            (Before::Old, "partial") => "old-file-partially-overwritten",
            (Before::Old, "absent") => "old-file-removed",
            (Before::Absent, "partial") => "partial-file-at-destination",
            (Before::Directory, _) => "directory-target-damaged",
            _ => "destination-destroyed",
        };
        out.push(Finding {
            clause: if killed { "kill-atomic" } else { "destination-intact" },
            symptom: format!("{}-and-{}", kind, what),
            detail: format!("{}: {}; destination before: {:?}, afterwards: {} ({} bytes) {}", wl.api(), if killed { "process killed".to_string() } else { outcome.text() }, before, dclass, dest_len, why),
        });
    }
    (dclass, out)
}
