//! Canonical projection ("dump") of the in-memory workbook through PUBLIC getters only.
//! serde_json::Map is a BTreeMap here (no preserve_order), so equal content gives equal text.
use serde_json::{json, Map, Value};
use umya_spreadsheet::*;

pub fn f64v(x: f64) -> Value {
    // exact and total: bits as hex + readable form
    json!(format!("{}#{:016x}", x, x.to_bits()))
}

pub fn color_p(c: &Color) -> Value {
    json!({"argb": c.get_argb(), "indexed": c.get_indexed(), "theme": c.get_theme_index(), "tint": f64v(*c.get_tint())})
}

pub fn font_p(f: &Font) -> Value {
    json!({
        "name": f.get_name(),
        "size": f64v(*f.get_size()),
        "bold": f.get_bold(),
        "italic": f.get_italic(),
        "underline": f.get_underline(),
        "strike": f.get_strikethrough(),
        "color": color_p(f.get_color()),
    })
}

pub fn border_p(b: &Border) -> Value {
    json!({"style": b.get_border_style(), "color": color_p(b.get_color())})
}

macro_rules! borders_json {
    ($b:expr) => {{
        let b = $b;
        json!({
            "left": border_p(b.get_left()), "right": border_p(b.get_right()), "top": border_p(b.get_top()),
            "bottom": border_p(b.get_bottom()), "diagonal": border_p(b.get_diagonal()),
            "diagonal_down": b.get_diagonal_down(), "diagonal_up": b.get_diagonal_up(),
        })
    }};
}

pub fn fill_p(f: &Fill) -> Value {
    let pf = f.get_pattern_fill().map(|p| {
        json!({"type": format!("{:?}", p.get_pattern_type()), "fg": p.get_foreground_color().map(color_p), "bg": p.get_background_color().map(color_p)})
    });
    let gf = f.get_gradient_fill().map(|g| {
        json!({"degree": f64v(*g.get_degree()), "stops": g.get_gradient_stop().iter().map(|s| json!({"pos": f64v(*s.get_position()), "color": color_p(s.get_color())})).collect::<Vec<_>>()})
    });
    json!({"pattern": pf, "gradient": gf})
}

pub fn alignment_p(a: &Alignment) -> Value {
    json!({"h": format!("{:?}", a.get_horizontal()), "v": format!("{:?}", a.get_vertical()), "wrap": a.get_wrap_text(), "rotation": a.get_text_rotation()})
}

pub fn protection_p(p: &Protection) -> Value {
    let mut q = p.clone();
    let hidden = *q.get_hidden();
    json!({"locked": p.get_locked(), "hidden": hidden})
}

/// Field-by-field projection of a Style (None components stay null: "never set").
pub fn style_p(s: &Style) -> Value {
    json!({
        "font": s.get_font().map(font_p),
        "fill": s.get_fill().map(fill_p),
        "borders": s.get_borders().map(|b| borders_json!(b)),
        "alignment": s.get_alignment().map(alignment_p),
        "numfmt": s.get_numbering_format().map(|n| json!(n.get_format_code())),
        "protection": s.get_protection().map(protection_p),
    })
}

pub fn rich_p(r: &RichText) -> Value {
    Value::Array(r.get_rich_text_elements().iter().map(|e| json!({"text": e.get_text(), "font": e.get_run_properties().map(font_p)})).collect())
}

pub fn raw_kind(v: &CellRawValue) -> &'static str {
    match v {
        CellRawValue::String(_) => "String",
        CellRawValue::RichText(_) => "RichText",
        CellRawValue::Lazy(_) => "Lazy",
        CellRawValue::Numeric(_) => "Numeric",
        CellRawValue::Bool(_) => "Bool",
        CellRawValue::Error(_) => "Error",
        CellRawValue::Empty => "Empty",
    }
}

#[derive(Clone, Copy)]
pub struct Opts {
    pub styles: bool,
    pub annotations: bool,
    pub dims: bool,
}
impl Opts {
    pub const CONTENT: Opts = Opts { styles: false, annotations: false, dims: false };
    pub const FULL: Opts = Opts { styles: true, annotations: true, dims: true };
}

/// Content of one cell (value text, kind, raw variant, exact number, rich runs, formula).
pub fn cell_p(c: &Cell, o: Opts) -> Value {
    let raw = c.get_raw_value();
    let mut m = Map::new();
    m.insert("kind".into(), json!(c.get_data_type()));
    m.insert("raw".into(), json!(raw_kind(raw)));
    m.insert("value".into(), json!(c.get_value().to_string()));
    if let CellRawValue::Numeric(x) = raw {
        m.insert("bits".into(), json!(format!("{:016x}", x.to_bits())));
    }
    if let CellRawValue::RichText(r) = raw {
        m.insert("runs".into(), rich_p(r));
    }
    m.insert("formula".into(), json!(c.get_formula()));
    if let Some(h) = c.get_hyperlink() {
        if o.annotations {
            m.insert("link".into(), json!({"url": h.get_url(), "location": h.get_location()}));
        }
    }
    if o.styles {
        m.insert("style".into(), style_p(c.get_style()));
    }
    Value::Object(m)
}

pub fn is_blank_cell(c: &Cell) -> bool {
    matches!(c.get_raw_value(), CellRawValue::Empty) && c.get_formula().is_empty()
}

pub fn ckey(col: u32, row: u32) -> String {
    // sortable key: row then column
    format!("R{:07}C{:05}", row, col)
}

pub fn range_list(rs: &[Range]) -> Vec<String> {
    let mut v: Vec<String> = rs.iter().map(|r| r.get_range()).collect();
    v.sort();
    v
}

fn prot_sheet_p(p: &SheetProtection) -> Value {
    json!({
        "algorithm": p.get_algorithm_name(), "hash": p.get_hash_value(), "salt": p.get_salt_value(), "spin": p.get_spin_count(),
        "password_raw": p.get_password_raw(),
        "sheet": p.get_sheet(), "objects": p.get_objects(), "delete_rows": p.get_delete_rows(), "insert_columns": p.get_insert_columns(),
        "delete_columns": p.get_delete_columns(), "insert_hyperlinks": p.get_insert_hyperlinks(), "auto_filter": p.get_auto_filter(),
        "scenarios": p.get_scenarios(), "format_cells": p.get_format_cells(), "format_columns": p.get_format_columns(),
        "insert_rows": p.get_insert_rows(), "format_rows": p.get_format_rows(), "pivot_tables": p.get_pivot_tables(),
        "select_locked": p.get_select_locked_cells(), "select_unlocked": p.get_select_unlocked_cells(), "sort": p.get_sort(),
    })
}

pub fn prot_book_p(p: &WorkbookProtection) -> Value {
    json!({
        "algorithm": p.get_workbook_algorithm_name(), "hash": p.get_workbook_hash_value(), "salt": p.get_workbook_salt_value(), "spin": p.get_workbook_spin_count(),
        "password_raw": p.get_workbook_password_raw(),
        "r_algorithm": p.get_revisions_algorithm_name(), "r_hash": p.get_revisions_hash_value(), "r_salt": p.get_revisions_salt_value(), "r_spin": p.get_revisions_spin_count(),
        "r_password_raw": p.get_revisions_password_raw(),
        "lock_revision": p.get_lock_revision(), "lock_structure": p.get_lock_structure(), "lock_windows": p.get_lock_windows(),
    })
}

pub fn defined_name_p(d: &DefinedName) -> Value {
    json!({"name": d.get_name(), "address": d.get_address(), "local": if d.has_local_sheet_id() { json!(d.get_local_sheet_id()) } else { Value::Null }, "hidden": d.get_hidden()})
}

fn cf_rule_p(r: &ConditionalFormattingRule, o: Opts) -> Value {
    json!({
        "type": format!("{:?}", r.get_type()), "operator": format!("{:?}", r.get_operator()), "text": r.get_text(), "priority": r.get_priority(),
        "percent": r.get_percent(), "bottom": r.get_bottom(), "rank": r.get_rank(), "stop_if_true": r.get_stop_if_true(),
        "formula": r.get_formula().map(|f| f.get_address_str()),
        "style": if o.styles { r.get_style().map(style_p) } else { None },
        // the rule's format in a nutshell, ALWAYS part of the rule (which differential format a rule points at is what
        // the rule does): bold | background colour | font colour
        "format_tag": r.get_style().map(|s| format!("{}|{}|{}", s.get_font().map(|f| *f.get_bold()).unwrap_or(false) as u8, s.get_background_color().map(|c| c.get_argb().to_string()).unwrap_or_default(), s.get_font().map(|f| f.get_color().get_argb().to_string()).unwrap_or_default())),
        "color_scale": r.get_color_scale().map(|c| json!({"colors": c.get_color_collection().iter().map(color_p).collect::<Vec<_>>(), "cfvo": c.get_cfvo_collection().len()})),
        "has_data_bar": r.get_data_bar().is_some(), "has_icon_set": r.get_icon_set().is_some(),
    })
}

/// Projection of one (loaded) worksheet.
pub fn sheet_p(ws: &Worksheet, o: Opts) -> Value {
    sheet_p_sel(ws, o, true)
}

/// `sheet_p` with or without the per-cell / per-row / per-column collections (the "meta" projection is used by
/// checks that stream over the cells of very large sheets instead of materialising one JSON tree).
pub fn sheet_p_sel(ws: &Worksheet, o: Opts, with_collections: bool) -> Value {
    let mut m = Map::new();
    m.insert("name".into(), json!(ws.get_name()));
    if with_collections {
        let mut cells = Map::new();
        for ((row, col), c) in ws.get_collection_to_hashmap() {
            if is_blank_cell(c) && !(o.styles || (o.annotations && c.get_hyperlink().is_some())) {
                continue;
            }
            cells.insert(ckey(*col, *row), cell_p(c, o));
        }
        m.insert("cells".into(), Value::Object(cells));
    }
    if o.dims && with_collections {
        let mut rows = Map::new();
        for r in ws.get_row_dimensions() {
            rows.insert(format!("{:07}", r.get_row_num()), json!({"height": f64v(*r.get_height()), "custom_height": r.get_custom_height(), "hidden": r.get_hidden(), "style": if o.styles { style_p(r.get_style()) } else { Value::Null }}));
        }
        m.insert("rows".into(), Value::Object(rows));
        let mut cols = Map::new();
        for c in ws.get_column_dimensions() {
            cols.insert(format!("{:05}", c.get_col_num()), json!({"width": f64v(*c.get_width()), "hidden": c.get_hidden(), "best_fit": c.get_best_fit(), "style": if o.styles { style_p(c.get_style()) } else { Value::Null }}));
        }
        m.insert("cols".into(), Value::Object(cols));
    }
    if o.annotations {
        m.insert(
            "state".into(),
            json!(match format!("{:?}", ws.get_state()).as_str() {
                "Hidden" => "hidden",
                "VeryHidden" => "veryHidden",
                _ => "visible",
            }),
        );
        m.insert("merges".into(), json!(range_list(ws.get_merge_cells())));
        let mut cm = Map::new();
        for c in ws.get_comments() {
            let k = ckey(*c.get_coordinate().get_col_num(), *c.get_coordinate().get_row_num());
            let mut k2 = k.clone();
            let mut n = 1;
            while cm.contains_key(&k2) {
                n += 1;
                k2 = format!("{}#{}", k, n);
            }
            cm.insert(k2, json!({"author": c.get_author(), "text": c.get_text().get_text().to_string(), "runs": rich_p(c.get_text())}));
        }
        m.insert("comments".into(), Value::Object(cm));
        let dv: Vec<Value> = ws
            .get_data_validations()
            .map(|d| {
                d.get_data_validation_list()
                    .iter()
                    .map(|v| {
                        json!({"sqref": v.get_sequence_of_references().get_sqref(), "type": format!("{:?}", v.get_type()), "operator": format!("{:?}", v.get_operator()),
                           "allow_blank": v.get_allow_blank(), "show_input": v.get_show_input_message(), "show_error": v.get_show_error_message(),
                           "prompt_title": v.get_prompt_title(), "prompt": v.get_prompt(), "error_title": v.get_error_title(), "error": v.get_error_message(),
                           "f1": v.get_formula1(), "f2": v.get_formula2()})
                    })
                    .collect()
            })
            .unwrap_or_default();
        m.insert("validations".into(), json!(dv));
        let cf: Vec<Value> = ws
            .get_conditional_formatting_collection()
            .iter()
            .map(|c| json!({"sqref": c.get_sequence_of_references().get_sqref(), "rules": c.get_conditional_collection().iter().map(|r| cf_rule_p(r, o)).collect::<Vec<_>>()}))
            .collect();
        m.insert("cond_formats".into(), json!(cf));
        m.insert("filter".into(), json!(ws.get_auto_filter().map(|f| f.get_range().get_range())));
        m.insert("tab_color".into(), json!(ws.get_tab_color().map(color_p)));
        let views: Vec<Value> = ws
            .get_sheets_views()
            .get_sheet_view_list()
            .iter()
            .map(|v| {
                json!({"pane": v.get_pane().map(|p| json!({"hsplit": f64v(*p.get_horizontal_split()), "vsplit": f64v(*p.get_vertical_split()), "top_left": p.get_top_left_cell().get_coordinate(), "active": format!("{:?}", p.get_active_pane()), "state": format!("{:?}", p.get_state())})),
                   "selection": v.get_selection().iter().map(|s| json!({"pane": format!("{:?}", s.get_pane()), "active_cell": s.get_active_cell().map(|c| c.get_coordinate()), "sqref": s.get_sequence_of_references().get_sqref()})).collect::<Vec<_>>(),
                   "tab_selected": v.get_tab_selected(), "zoom": v.get_zoom_scale(), "top_left_cell": v.get_top_left_cell(), "grid_lines": v.get_show_grid_lines()})
            })
            .collect();
        m.insert("views".into(), json!(views));
        let ps = ws.get_page_setup();
        m.insert("page_setup".into(), json!({"paper": ps.get_paper_size(), "orientation": format!("{:?}", ps.get_orientation()), "scale": ps.get_scale(), "fit_h": ps.get_fit_to_height(), "fit_w": ps.get_fit_to_width()}));
        let hf = ws.get_header_footer();
        m.insert("header_footer".into(), json!({"odd_header": hf.get_odd_header().get_value(), "odd_footer": hf.get_odd_footer().get_value()}));
        m.insert("protection".into(), json!(ws.get_sheet_protection().map(prot_sheet_p)));
        let mut dn: Vec<Value> = ws.get_defined_names().iter().map(defined_name_p).collect();
        dn.sort_by_key(|v| v.to_string());
        m.insert("defined_names".into(), json!(dn));
        let tb: Vec<Value> = ws
            .get_tables()
            .iter()
            .map(|t| json!({"name": t.get_name(), "display": t.get_display_name(), "area": format!("{}:{}", t.get_area().0.get_coordinate(), t.get_area().1.get_coordinate()), "columns": t.get_columns().iter().map(|c| c.get_name().to_string()).collect::<Vec<_>>()}))
            .collect();
        m.insert("tables".into(), json!(tb));
        // drawings: pictures, charts, embedded objects (content by length + hash)
        let mut imgs: Vec<Value> = ws
            .get_image_collection()
            .iter()
            .map(|im| {
                // a linked (not embedded) picture is identified by its external target
                let link = im.get_two_cell_anchor().and_then(|a| a.get_picture()).or_else(|| im.get_one_cell_anchor().and_then(|a| a.get_picture())).map(|p| p.get_blip_fill().get_blip().get_link().to_string()).unwrap_or_default();
                json!({"name": im.get_image_name(), "at": im.get_coordinate(), "bytes": im.get_image_data().len(), "hash": format!("{:016x}", crate::common::fnv(im.get_image_data())), "link": link})
            })
            .collect();
        imgs.sort_by_key(|v| v.to_string());
        m.insert("images".into(), json!(imgs));
        let mut charts: Vec<Value> = ws
            .get_chart_collection()
            .iter()
            .map(|ch| {
                let a = ch.get_two_cell_anchor();
                let mut c2 = ch.clone();
                let formulas: Vec<String> = c2.get_plot_area_mut().get_formula_mut().into_iter().map(|f| f.get_address_str()).collect();
                json!({"from": a.get_from_marker().get_coordinate(), "to": a.get_to_marker().get_coordinate(), "formulas": formulas})
            })
            .collect();
        charts.sort_by_key(|v| v.to_string());
        m.insert("charts".into(), json!(charts));
        let oles: Vec<Value> = ws
            .get_ole_objects()
            .get_ole_object()
            .iter()
            .map(|o| {
                let d = o.get_object_data().unwrap_or(&[]);
                json!({"prog_id": o.get_prog_id(), "ext": o.get_object_extension(), "bytes": d.len(), "hash": format!("{:016x}", crate::common::fnv(d))})
            })
            .collect();
        m.insert("ole_objects".into(), json!(oles));
    }
    Value::Object(m)
}

/// Projection of a whole workbook.  All sheets must be loaded (get_sheet_collection asserts otherwise),
/// so lazily opened books use `book_p_no_check`.
pub fn book_p(b: &Spreadsheet, o: Opts) -> Value {
    book_p_sel(b, o, true)
}

pub fn book_p_sel(b: &Spreadsheet, o: Opts, with_collections: bool) -> Value {
    let sheets: Vec<Value> = b.get_sheet_collection_no_check().iter().map(|ws| sheet_p_sel(ws, o, with_collections)).collect();
    let mut m = Map::new();
    m.insert("sheets".into(), json!(sheets));
    if o.annotations {
        m.insert("active_tab".into(), json!(b.get_workbook_view().get_active_tab()));
        let mut dn: Vec<Value> = b.get_defined_names().iter().map(defined_name_p).collect();
        dn.sort_by_key(|v| v.to_string());
        m.insert("defined_names".into(), json!(dn));
        m.insert("protection".into(), json!(b.get_workbook_protection().map(prot_book_p)));
        m.insert("has_macros".into(), json!(b.get_has_macros()));
    }
    Value::Object(m)
}

/// First difference between two JSON trees, as (path, left, right); None if equal.
pub fn first_diff(a: &Value, b: &Value) -> Option<(String, String, String)> {
    fn rec(a: &Value, b: &Value, path: &mut String) -> Option<(String, String, String)> {
        if a == b {
            return None;
        }
        match (a, b) {
            (Value::Object(x), Value::Object(y)) => {
                let mut keys: Vec<&String> = x.keys().chain(y.keys()).collect();
                keys.sort();
                keys.dedup();
                for k in keys {
                    let l = path.len();
                    path.push('/');
                    path.push_str(k);
                    let r = match (x.get(k), y.get(k)) {
                        (Some(p), Some(q)) => rec(p, q, path),
                        (Some(p), None) => Some((path.clone(), short(p), "<absent>".into())),
                        (None, Some(q)) => Some((path.clone(), "<absent>".into(), short(q))),
                        (None, None) => None,
                    };
                    if r.is_some() {
                        return r;
                    }
                    path.truncate(l);
                }
                None
            }
            (Value::Array(x), Value::Array(y)) => {
                for i in 0..x.len().max(y.len()) {
                    let l = path.len();
                    path.push_str(&format!("[{}]", i));
                    let r = match (x.get(i), y.get(i)) {
                        (Some(p), Some(q)) => rec(p, q, path),
                        (Some(p), None) => Some((path.clone(), short(p), "<absent>".into())),
                        (None, Some(q)) => Some((path.clone(), "<absent>".into(), short(q))),
                        (None, None) => None,
                    };
                    if r.is_some() {
                        return r;
                    }
                    path.truncate(l);
                }
                None
            }
            _ => Some((path.clone(), short(a), short(b))),
        }
    }
    fn short(v: &Value) -> String {
        let s = v.to_string();
        if s.chars().count() > 300 {
            format!("{}…", s.chars().take(300).collect::<String>())
        } else {
            s
        }
    }
    let mut p = String::new();
    rec(a, b, &mut p)
}

/// Save into memory (standard or light writer) and load eagerly.  Err = the save or the load failed/panicked.
pub fn save_bytes(b: &Spreadsheet, light: bool) -> Result<Vec<u8>, String> {
    let r = std::panic::catch_unwind(std::panic::AssertUnwindSafe(|| {
        let mut buf: Vec<u8> = Vec::new();
        let cur = std::io::Cursor::new(&mut buf);
        let res = if light { writer::xlsx::write_writer_light(b, cur) } else { writer::xlsx::write_writer(b, cur) };
        res.map(|_| buf).map_err(|e| format!("write error: {:?}", e))
    }));
    match r {
        Ok(x) => x,
        Err(e) => Err(format!("write panicked: {}", crate::common::panic_msg(&e))),
    }
}

pub fn load_bytes(bytes: &[u8], eager: bool) -> Result<Spreadsheet, String> {
    let r = std::panic::catch_unwind(std::panic::AssertUnwindSafe(|| reader::xlsx::read_reader(std::io::Cursor::new(bytes), eager).map_err(|e| format!("read error: {:?}", e))));
    match r {
        Ok(x) => x,
        Err(e) => Err(format!("read panicked: {}", crate::common::panic_msg(&e))),
    }
}

pub fn roundtrip(b: &Spreadsheet, light: bool) -> Result<(Vec<u8>, Spreadsheet), String> {
    let bytes = save_bytes(b, light)?;
    let b2 = load_bytes(&bytes, true)?;
    Ok((bytes, b2))
}
