//! Independent reader of an ECMA-376 agile-encrypted package (MS-OFFCRYPTO 2.3.4.10-15), used by C13 to decide
//! whether an encrypted destination file is the COMPLETE new file: the compound file parses, both streams are
//! present, the data-integrity HMAC over the whole EncryptedPackage stream verifies and the package decrypts to
//! its stated length.  Shares no code with the library (cfb crate = container parser only).
use aes::cipher::{block_padding::NoPadding, BlockDecryptMut, KeyIvInit};
use base64::{engine::general_purpose::STANDARD, Engine as _};
use hmac::{Hmac, Mac};
use sha2::{Digest, Sha512};
use std::io::Read;

type Dec = cbc::Decryptor<aes::Aes256>;

fn attr(xml: &str, element: &str, name: &str) -> Result<String, String> {
    let start = xml.find(&format!("<{}", element)).ok_or_else(|| format!("element {} missing", element))?;
    let rest = &xml[start..];
    let end = rest.find('>').ok_or("unterminated element")?;
    let el = &rest[..end];
    let pat = format!(" {}=\"", name);
    let p = el.find(&pat).ok_or_else(|| format!("attribute {}@{} missing", element, name))?;
    let v = &el[p + pat.len()..];
    let q = v.find('"').ok_or("unterminated attribute")?;
    Ok(v[..q].to_string())
}
fn b64(s: &str) -> Result<Vec<u8>, String> {
    STANDARD.decode(s).map_err(|e| format!("base64: {}", e))
}
fn sha(parts: &[&[u8]]) -> Vec<u8> {
    let mut h = Sha512::new();
    for p in parts {
        h.update(p);
    }
    h.finalize().to_vec()
}
fn fit(mut v: Vec<u8>, n: usize) -> Vec<u8> {
    v.resize(n, 0x36);
    v
}
fn aes_dec(key: &[u8], iv: &[u8], data: &[u8]) -> Result<Vec<u8>, String> {
    if data.len() % 16 != 0 {
        return Err(format!("cipher text length {} not a multiple of 16", data.len()));
    }
    let mut buf = data.to_vec();
    let d = Dec::new_from_slices(key, iv).map_err(|e| format!("aes init: {}", e))?;
    d.decrypt_padded_mut::<NoPadding>(&mut buf).map_err(|e| format!("aes: {}", e))?;
    Ok(buf)
}

/// Returns the decrypted package.  Err(reason) when the file is not a complete, intact encrypted package.
pub fn decrypt(file: &[u8], password: &str) -> Result<Vec<u8>, String> {
    let mut comp = cfb::CompoundFile::open(std::io::Cursor::new(file)).map_err(|e| format!("compound file does not parse: {}", e))?;
    let mut info = vec![];
    comp.open_stream("EncryptionInfo").map_err(|e| format!("EncryptionInfo stream: {}", e))?.read_to_end(&mut info).map_err(|e| format!("EncryptionInfo read: {}", e))?;
    let mut pkg = vec![];
    comp.open_stream("EncryptedPackage").map_err(|e| format!("EncryptedPackage stream: {}", e))?.read_to_end(&mut pkg).map_err(|e| format!("EncryptedPackage read: {}", e))?;
    if info.len() < 8 || info[0..4] != [4, 0, 4, 0] {
        return Err("EncryptionInfo: not agile 4.4".into());
    }
    let xml = String::from_utf8(info[8..].to_vec()).map_err(|_| "EncryptionInfo: not UTF-8".to_string())?;
    if !xml.trim_end().ends_with("</encryption>") {
        return Err("EncryptionInfo XML is cut off".into());
    }
    let kd_salt = b64(&attr(&xml, "keyData", "saltValue")?)?;
    let enc_hmac_key = b64(&attr(&xml, "dataIntegrity", "encryptedHmacKey")?)?;
    let enc_hmac_val = b64(&attr(&xml, "dataIntegrity", "encryptedHmacValue")?)?;
    let spin: u32 = attr(&xml, "p:encryptedKey", "spinCount")?.parse().map_err(|_| "spinCount".to_string())?;
    let ke_salt = b64(&attr(&xml, "p:encryptedKey", "saltValue")?)?;
    let enc_key = b64(&attr(&xml, "p:encryptedKey", "encryptedKeyValue")?)?;
    for (el, want) in [("keyData", "SHA512"), ("p:encryptedKey", "SHA512")] {
        if attr(&xml, el, "hashAlgorithm")? != want {
            return Err("unsupported hash algorithm".into());
        }
    }
    // password -> key encryption key (block key 0x146e0be7abacd0d6)
    let pw: Vec<u8> = password.encode_utf16().flat_map(|u| u.to_le_bytes()).collect();
    let mut h = sha(&[&ke_salt, &pw]);
    for i in 0..spin {
        h = sha(&[&i.to_le_bytes(), &h]);
    }
    let kek = fit(sha(&[&h, &[0x14, 0x6e, 0x0b, 0xe7, 0xab, 0xac, 0xd0, 0xd6]]), 32);
    let pkey = aes_dec(&kek, &fit(ke_salt.clone(), 16)[..16], &enc_key)?;
    if pkey.len() < 32 {
        return Err("package key too short".into());
    }
    let pkey = &pkey[..32];
    // data integrity
    let iv1 = sha(&[&kd_salt, &[0x5f, 0xb2, 0xad, 0x01, 0x0c, 0xb9, 0xe1, 0xf6]]);
    let iv2 = sha(&[&kd_salt, &[0xa0, 0x67, 0x7f, 0x02, 0xb2, 0x2c, 0x84, 0x33]]);
    let hkey = aes_dec(pkey, &iv1[..16], &enc_hmac_key)?;
    let hval = aes_dec(pkey, &iv2[..16], &enc_hmac_val)?;
    let mut mac = <Hmac<Sha512> as Mac>::new_from_slice(&hkey[..64.min(hkey.len())]).map_err(|e| format!("hmac: {}", e))?;
    mac.update(&pkg);
    let got = mac.finalize().into_bytes().to_vec();
    if hval.len() < 64 || got[..] != hval[..64] {
        return Err(format!("data-integrity HMAC over the EncryptedPackage stream ({} bytes) does not verify (wrong password or damaged stream)", pkg.len()));
    }
    // package
    if pkg.len() < 8 {
        return Err("EncryptedPackage shorter than its length prefix".into());
    }
    let total = u64::from_le_bytes(pkg[0..8].try_into().unwrap()) as usize;
    let body = &pkg[8..];
    if body.len() < total {
        return Err(format!("EncryptedPackage holds {} bytes but states {}", body.len(), total));
    }
    let mut out = Vec::with_capacity(body.len());
    for (i, chunk) in body.chunks(4096).enumerate() {
        let iv = sha(&[&kd_salt, &(i as u32).to_le_bytes()]);
        out.extend(aes_dec(pkey, &iv[..16], chunk)?);
    }
    out.truncate(total);
    Ok(out)
}
