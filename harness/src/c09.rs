//! C09 — formula text survives the tokenizer; translation shifts only relative references (E1).
#[path = "fgrammar.rs"]
pub mod fgrammar;

use crate::common::*;
use crate::e1::*;
use crate::pool::*;
use fgrammar::*;
use serde_json::{json, Value};
use std::collections::BTreeMap;

pub fn entry() -> crate::Entry {
    crate::Entry { id: "C09", run, space, replay }
}

/// the formula lives at C3
const CELL: (u32, u32) = (3, 3);
pub const CO: Coords = Coords { c1: 2, r1: 2, c2: 4, r2: 5 };
const PLAIN: &str = "Sheet2";
const PER_CASE: u64 = 8;

const CL_ID_COORD: &str = "identity-set-coordinate";
const CL_ID_FAR: &str = "identity-insert-far";
const CL_ID_OTHER: &str = "identity-insert-other-sheet";
const CL_TRANSLATE: &str = "translate";
/// rows/columns removed or inserted on ANOTHER sheet while the formula sits on the sheet that its own qualified
/// references name (PLAIN): nothing in it concerns the edited sheet
const CL_ID_OTHER_OPS: &str = "identity-edits-on-other-sheet";
/// an insert on the formula's own sheet along the axis that none of its references has: rows inserted while every
/// reference is a whole-column range, columns inserted while every reference is a whole-row range
const CL_ID_ORTHO: &str = "identity-insert-on-the-other-axis";
const CLAUSES: [&str; 6] = [CL_ID_COORD, CL_ID_FAR, CL_ID_OTHER, CL_TRANSLATE, CL_ID_OTHER_OPS, CL_ID_ORTHO];

fn guarded<T, F: FnOnce() -> T>(f: F) -> Result<T, String> {
    std::panic::catch_unwind(std::panic::AssertUnwindSafe(f)).map_err(|e| panic_msg(&e))
}

// ---- the three ways through the library -------------------------------------------------------------
fn lib_set_coordinate(text: &str, dc: i64, dr: i64) -> Result<String, String> {
    let text = text.to_string();
    guarded(move || {
        let mut cell = umya_spreadsheet::Cell::default();
        cell.set_coordinate(CELL);
        cell.set_formula(text);
        cell.set_coordinate(((CELL.0 as i64 + dc) as u32, (CELL.1 as i64 + dr) as u32));
        cell.get_formula().to_string()
    })
}
fn find_formula(sheet: &umya_spreadsheet::Worksheet) -> Option<String> {
    let mut cells: Vec<&umya_spreadsheet::Cell> = sheet.get_cell_collection().into_iter().filter(|c| c.is_formula()).collect();
    cells.sort_by_key(|c| (*c.get_coordinate().get_row_num(), *c.get_coordinate().get_col_num()));
    cells.first().map(|c| c.get_formula().to_string())
}
fn lib_insert_far(text: &str) -> Result<String, String> {
    let text = text.to_string();
    guarded(move || {
        let mut book = umya_spreadsheet::new_file();
        let sheet = book.get_sheet_by_name_mut("Sheet1").unwrap();
        sheet.get_cell_mut(CELL).set_formula(text);
        sheet.insert_new_row(&1000, &1);
        find_formula(sheet).unwrap_or_else(|| "<formula cell vanished>".to_string())
    })
}
fn lib_insert_other(text: &str) -> Result<String, String> {
    let text = text.to_string();
    guarded(move || {
        let mut book = umya_spreadsheet::new_file();
        let _ = book.new_sheet("Sheet2");
        let _ = book.new_sheet("Other");
        book.get_sheet_by_name_mut("Sheet1").unwrap().get_cell_mut(CELL).set_formula(text);
        book.insert_new_row("Other", &1, &1);
        find_formula(book.get_sheet_by_name("Sheet1").unwrap()).unwrap_or_else(|| "<formula cell vanished>".to_string())
    })
}

fn lib_other_sheet_ops(text: &str) -> Result<String, String> {
    let text = text.to_string();
    guarded(move || {
        let mut book = umya_spreadsheet::new_file();
        let _ = book.new_sheet(PLAIN);
        let _ = book.new_sheet("Other");
        // the formula lives on PLAIN (Sheet2): a reference qualified with Sheet2 names its OWN sheet
        book.get_sheet_by_name_mut(PLAIN).unwrap().get_cell_mut(CELL).set_formula(text);
        book.remove_row("Other", &1, &1);
        book.remove_column_by_index("Other", &1, &2);
        book.insert_new_column_by_index("Other", &1, &1);
        book.insert_new_row("Other", &2, &3);
        find_formula(book.get_sheet_by_name(PLAIN).unwrap()).unwrap_or_else(|| "<formula cell vanished>".to_string())
    })
}

/// Some(true): every reference of the formula is a whole-column range (at least one); Some(false): every one is a
/// whole-row range; None: anything else
fn single_axis(f: &F) -> Option<bool> {
    fn walk(f: &F, cols: &mut usize, rows: &mut usize, other: &mut usize) {
        if let F::L(l) = f {
            match l {
                Leaf::Ref(r) => match r.k {
                    RK::Cols { .. } => *cols += 1,
                    RK::Rows { .. } => *rows += 1,
                    _ => *other += 1,
                },
                Leaf::RefErr(..) => *other += 1,
                _ => {}
            }
        }
        for c in children(f) {
            walk(c, cols, rows, other);
        }
    }
    let (mut c, mut r, mut o) = (0, 0, 0);
    walk(f, &mut c, &mut r, &mut o);
    match (c, r, o) {
        (n, 0, 0) if n > 0 => Some(true),
        (0, n, 0) if n > 0 => Some(false),
        _ => None,
    }
}
fn lib_insert_ortho(text: &str, rows: bool) -> Result<String, String> {
    let text = text.to_string();
    guarded(move || {
        let mut book = umya_spreadsheet::new_file();
        let _ = book.new_sheet(PLAIN);
        let sheet = book.get_sheet_by_name_mut("Sheet1").unwrap();
        // the formula sits far away from the inserted band so that only its references are concerned
        sheet.get_cell_mut((40u32, 60u32)).set_formula(text);
        if rows {
            sheet.insert_new_row(&2, &3);
        } else {
            sheet.insert_new_column_by_index(&2, &3);
        }
        find_formula(sheet).unwrap_or_else(|| "<formula cell vanished>".to_string())
    })
}

/// moves of the cell: {0,+-1,+-2}^2 without (0,0), to XFD / to the last row / both, and for every relative part of
/// every reference the moves that put it on the first / last column or row and one beyond (cell stays in grid)
fn moves_for(f: &F) -> Vec<(i64, i64)> {
    let mut v = vec![];
    for dc in [0i64, 1, -1, 2, -2] {
        for dr in [0i64, 1, -1, 2, -2] {
            if (dc, dr) != (0, 0) {
                v.push((dc, dr));
            }
        }
    }
    let to_xfd = MAXC as i64 - CELL.0 as i64;
    let to_last = MAXR as i64 - CELL.1 as i64;
    v.push((to_xfd, 0));
    v.push((0, to_last));
    v.push((to_xfd, to_last));
    let mut cols = vec![];
    let mut rows = vec![];
    for r in ref_leaves(f) {
        match r.k {
            RK::Cell { c, r } => {
                cols.push(c);
                rows.push(r);
            }
            RK::Range { c1, r1, c2, r2 } => {
                cols.extend([c1, c2]);
                rows.extend([r1, r2]);
            }
            RK::Cols { c1, c2 } => cols.extend([c1, c2]),
            RK::Rows { r1, r2 } => rows.extend([r1, r2]),
        }
    }
    for c in cols {
        if !c.abs {
            for d in [1 - c.n as i64, -(c.n as i64), MAXC as i64 - c.n as i64, MAXC as i64 - c.n as i64 + 1] {
                let cc = CELL.0 as i64 + d;
                if cc >= 1 && cc <= MAXC as i64 {
                    v.push((d, 0));
                }
            }
        }
    }
    for r in rows {
        if !r.abs {
            for d in [1 - r.n as i64, -(r.n as i64), MAXR as i64 - r.n as i64, MAXR as i64 - r.n as i64 + 1] {
                let rr = CELL.1 as i64 + d;
                if rr >= 1 && rr <= MAXR as i64 {
                    v.push((0, d));
                }
            }
        }
    }
    let mut seen = std::collections::HashSet::new();
    v.retain(|m| seen.insert(*m));
    v
}

struct Tally {
    /// per clause: did any evaluation of this formula fail
    failed: BTreeMap<&'static str, bool>,
    panic_tags: BTreeMap<(&'static str, String), Vec<&'static str>>,
}

fn check_one(f: &F, clause: &'static str, mv: (i64, i64), sink: &mut Sink, tally: &mut Tally, obs: bool) {
    let orig = render(f);
    let run = |text: &str| -> Result<String, String> {
        match clause {
            CL_ID_FAR => lib_insert_far(text),
            CL_ID_OTHER => lib_insert_other(text),
            CL_ID_OTHER_OPS => lib_other_sheet_ops(text),
            CL_ID_ORTHO => lib_insert_ortho(text, single_axis(f) == Some(true)),
            _ => lib_set_coordinate(text, mv.0, mv.1),
        }
    };
    sink.evaluations += 1;
    let expected = if clause == CL_TRANSLATE { render(&translate_formula(f, mv.0, mv.1)) } else { orig.clone() };
    let case = json!({"formula": orig.text, "clause": clause, "move": [mv.0, mv.1]});
    match run(&orig.text) {
        Err(msg) => {
            let class = panic_class(&msg);
            let tags = tally
                .panic_tags
                .entry((clause, class.clone()))
                .or_insert_with(|| {
                    let healthy = healthy_leaf(CO);
                    attribute(f, &healthy, &|g: &F| match run(&render(g).text) {
                        Err(m) => panic_class(&m) == class,
                        Ok(_) => false,
                    })
                })
                .clone();
            tally.failed.insert(clause, true);
            sink.violations.push(Violation::new(clause, &format!("panic:{}", class), &tags, case, format!("{:?} at C3, {} move {:?}: panic {}", orig.text, clause, mv, msg)));
        }
        Ok(got) => {
            if obs {
                sink.obs(&got);
            }
            let label = "out-of-grid-not-REF";
            if let Some(d) = compare(&expected, &orig, &got, label) {
                tally.failed.insert(clause, true);
                sink.violations.push(Violation::new(clause, &d.symptom, &d.tags, case, format!("{} move {:?}: {}", clause, mv, d.detail)));
            }
        }
    }
}

fn check_formula(f: &F, only: Option<&'static str>, sink: &mut Sink) {
    let mut tally = Tally { failed: BTreeMap::new(), panic_tags: BTreeMap::new() };
    let want = |c: &'static str| only.is_none() || only == Some(c);
    sink.beat.note(&render(f).text);
    if want(CL_ID_COORD) {
        check_one(f, CL_ID_COORD, (0, 0), sink, &mut tally, true);
    }
    if want(CL_ID_FAR) {
        check_one(f, CL_ID_FAR, (0, 0), sink, &mut tally, true);
    }
    if want(CL_ID_OTHER) {
        check_one(f, CL_ID_OTHER, (0, 0), sink, &mut tally, true);
    }
    if want(CL_ID_OTHER_OPS) {
        check_one(f, CL_ID_OTHER_OPS, (0, 0), sink, &mut tally, false);
    }
    if want(CL_ID_ORTHO) && single_axis(f).is_some() {
        check_one(f, CL_ID_ORTHO, (0, 0), sink, &mut tally, false);
    }
    // An external reference ([1]Sheet1!B2) is a relative reference too: translating it is legitimate, but the
    // reference model keeps bracketed leaves opaque, so the translate clause is not evaluated for them
    // (identity clauses are).
    let has_external = formula_tags(f).iter().any(|t| *t == "external-ref");
    if has_external && want(CL_TRANSLATE) {
        sink.count("translate_skipped_external_ref", 1);
    }
    if want(CL_TRANSLATE) && !has_external {
        for (i, mv) in moves_for(f).into_iter().enumerate() {
            check_one(f, CL_TRANSLATE, mv, sink, &mut tally, i < 4);
        }
    }
    let tags = formula_tags(f);
    for c in CLAUSES {
        if !want(c) {
            continue;
        }
        let bad = tally.failed.get(c).cloned().unwrap_or(false);
        for t in &tags {
            sink.count(&format!("{}|{}|{}", if bad { "failing" } else { "clean" }, c, t), 1);
        }
    }
    sink.count("formulas", 1);
}

// ---- spaces -------------------------------------------------------------------------------------------
struct Main {
    en: Enumerator,
}
impl Space for Main {
    fn len(&self) -> u64 {
        (self.en.len() + PER_CASE - 1) / PER_CASE
    }
    fn describe(&self, i: u64) -> Value {
        let mut v = vec![];
        for j in i * PER_CASE..((i + 1) * PER_CASE).min(self.en.len()) {
            if let Some((_, Some(f))) = self.en.get(j) {
                v.push(render(&f).text);
            }
        }
        json!({"kind": "formulas", "from": i * PER_CASE, "formulas": v})
    }
    fn tags(&self, i: u64) -> Vec<String> {
        let mut v: Vec<&'static str> = vec![];
        for j in i * PER_CASE..((i + 1) * PER_CASE).min(self.en.len()) {
            if let Some((_, Some(f))) = self.en.get(j) {
                v.extend(formula_tags(&f));
            }
        }
        v.sort();
        v.dedup();
        v.iter().map(|s| s.to_string()).collect()
    }
    fn run(&self, i: u64, sink: &mut Sink) {
        for j in i * PER_CASE..((i + 1) * PER_CASE).min(self.en.len()) {
            match self.en.get(j) {
                Some((_, Some(f))) => check_formula(&f, None, sink),
                _ => sink.count("skipped-ill-formed", 1),
            }
        }
    }
}

/// case = (formula, clause): a hang costs one watchdog timeout and loses nothing else
struct Bracket {
    forms: Vec<F>,
}
impl Bracket {
    fn new(en: Enumerator) -> Bracket {
        let mut forms = vec![];
        for j in 0..en.len() {
            if let Some((_, Some(f))) = en.get(j) {
                forms.push(f);
            }
        }
        Bracket { forms }
    }
}
impl Space for Bracket {
    fn len(&self) -> u64 {
        self.forms.len() as u64 * CLAUSES.len() as u64
    }
    fn describe(&self, i: u64) -> Value {
        json!({"kind": "bracket-formula", "formula": render(&self.forms[(i / CLAUSES.len() as u64) as usize]).text, "clause": CLAUSES[(i % CLAUSES.len() as u64) as usize]})
    }
    fn tags(&self, i: u64) -> Vec<String> {
        // the bracket-bearing leaf is the reason the case is in this space
        let f = &self.forms[(i / CLAUSES.len() as u64) as usize];
        formula_tags(f).into_iter().filter(|t| *t == "structured-ref" || *t == "external-ref").map(|s| s.to_string()).collect()
    }
    fn run(&self, i: u64, sink: &mut Sink) {
        check_formula(&self.forms[(i / CLAUSES.len() as u64) as usize], Some(CLAUSES[(i % CLAUSES.len() as u64) as usize]), sink);
    }
}

/// The translate clause on a cell as the READER leaves it: the child of a shared-formula group holds no formula text of
/// its own after a load (only the text expanded from the group's master), and must translate like any other formula.
/// One case = 8 formulas, one workbook with 8 sheets: master at C2, child at C3 (= CELL), saved and loaded once.
const CL_TRANSLATE_LOADED: &str = "translate-loaded-shared-child";
struct LoadedChild {
    en: Enumerator,
}
impl Space for LoadedChild {
    fn len(&self) -> u64 {
        (self.en.len() + PER_CASE - 1) / PER_CASE
    }
    fn describe(&self, i: u64) -> Value {
        let forms: Vec<String> = (i * PER_CASE..((i + 1) * PER_CASE).min(self.en.len())).filter_map(|j| self.en.get(j).and_then(|(_, f)| f).map(|f| render(&f).text)).collect();
        json!({"kind": "loaded-shared-children", "from": i * PER_CASE, "master_formulas": forms})
    }
    fn run(&self, i: u64, sink: &mut Sink) {
        use umya_spreadsheet::{CellFormula, CellFormulaValues};
        let forms: Vec<F> = (i * PER_CASE..((i + 1) * PER_CASE).min(self.en.len())).filter_map(|j| self.en.get(j).and_then(|(_, f)| f)).filter(|f| !formula_tags(f).iter().any(|t| *t == "external-ref" || *t == "structured-ref")).collect();
        if forms.is_empty() {
            return;
        }
        let texts: Vec<String> = forms.iter().map(|f| render(f).text).collect();
        let loaded = guarded(move || {
            let mut book = umya_spreadsheet::new_file();
            for k in 1..texts.len() {
                let _ = book.new_sheet(format!("G{}", k));
            }
            for (k, t) in texts.iter().enumerate() {
                let ws = book.get_sheet_mut(&k).unwrap();
                let mut m = CellFormula::default();
                m.set_formula_type(CellFormulaValues::Shared);
                m.set_shared_index(0);
                m.set_text(t.clone());
                ws.get_cell_mut((CELL.0, CELL.1 - 1)).get_cell_value_mut().set_formula_obj(m);
                let mut c = CellFormula::default();
                c.set_formula_type(CellFormulaValues::Shared);
                c.set_shared_index(0);
                ws.get_cell_mut(CELL).get_cell_value_mut().set_formula_obj(c);
            }
            let mut buf = std::io::Cursor::new(Vec::new());
            umya_spreadsheet::writer::xlsx::write_writer(&book, &mut buf).map_err(|e| format!("{:?}", e))?;
            let b2 = umya_spreadsheet::reader::xlsx::read_reader(std::io::Cursor::new(buf.into_inner()), true).map_err(|e| format!("{:?}", e))?;
            let cells: Vec<umya_spreadsheet::Cell> = (0..texts.len()).map(|k| b2.get_sheet(&k).unwrap().get_cell(CELL).cloned().unwrap_or_default()).collect();
            Ok::<_, String>(cells)
        });
        let cells = match loaded {
            Ok(Ok(c)) => c,
            _ => {
                sink.count("loaded_child_workbook_not_built", 1);
                return;
            }
        };
        for (f, cell) in forms.iter().zip(cells) {
            let child = translate_formula(f, 0, 1);
            let child_r = render(&child);
            // precondition (C03's business): the loaded child shows the expansion of its master
            if compare(&child_r, &child_r, cell.get_formula(), "x").is_some() {
                sink.count("loaded_child_text_differs_from_expansion", 1);
                continue;
            }
            sink.count("loaded_children", 1);
            for mv in std::iter::once((0i64, 0i64)).chain(moves_for(&child).into_iter().take(6)) {
                sink.evaluations += 1;
                let expected = render(&translate_formula(&child, mv.0, mv.1));
                let case = json!({"master_formula_at_C2": render(f).text, "child_at_C3_after_load": child_r.text, "clause": CL_TRANSLATE_LOADED, "move": [mv.0, mv.1]});
                let mut c = cell.clone();
                match guarded(move || {
                    c.set_coordinate(((CELL.0 as i64 + mv.0) as u32, (CELL.1 as i64 + mv.1) as u32));
                    c.get_formula().to_string()
                }) {
                    Err(msg) => sink.violations.push(Violation::new(CL_TRANSLATE_LOADED, &format!("panic:{}", panic_class(&msg)), &["loaded-shared-child"], case, msg)),
                    Ok(got) => {
                        sink.obs(&got);
                        if let Some(d) = compare(&expected, &child_r, &got, "out-of-grid-not-REF") {
                            let mut tags = d.tags.clone();
                            tags.push("loaded-shared-child");
                            sink.violations.push(Violation::new(CL_TRANSLATE_LOADED, &d.symptom, &tags, case, format!("move {:?}: {}", mv, d.detail)));
                        }
                    }
                }
            }
        }
    }
}

pub fn space(tier: Tier, id: &str) -> Option<Box<dyn Space>> {
    let deep = tier == Tier::Thorough;
    match id {
        "loaded-child" => Some(Box::new(LoadedChild { en: main_space(CO, PLAIN, false, core_leaves(CO, PLAIN)) })),
        "main" => Some(Box::new(Main { en: main_space(CO, PLAIN, deep, core_leaves(CO, PLAIN)) })),
        "bracket" => Some(Box::new(Bracket::new(bracket_space(CO, deep)))),
        _ => None,
    }
}

fn replay(tier: Tier, case: &Value) -> Vec<Violation> {
    replay_e1(space(tier, case["_space"].as_str().unwrap_or("")), case)
}

/// Validate the own lexer on every enumerated formula and on every expected (translated) rendering shape.
pub fn validate_all(ens: &[&Enumerator]) -> Result<(u64, u64), String> {
    let mut n = 0;
    let mut skipped = 0;
    for en in ens {
        for j in 0..en.len() {
            match en.get(j) {
                Some((_, Some(f))) => {
                    n += 1;
                    let r = render(&f);
                    validate_lexer(&r).map_err(|e| format!("formula #{}: {}", j, e))?;
                    // the canonical token stream of a formula compared with itself must be clean
                    if compare(&r, &r, &r.text, "x").is_some() {
                        return Err(format!("formula #{} {:?} does not compare equal to itself", j, r.text));
                    }
                }
                _ => skipped += 1,
            }
        }
    }
    Ok((n, skipped))
}

fn run(ctx: &Ctx) -> i32 {
    let deep = ctx.tier == Tier::Thorough;
    let main = main_space(CO, PLAIN, deep, core_leaves(CO, PLAIN));
    let br = bracket_space(CO, deep);
    let (nform, skipped) = match validate_all(&[&main, &br]) {
        Ok(x) => x,
        Err(e) => {
            eprintln!("MACHINERY: C09 own lexer failed its round trip: {}", e);
            return 2;
        }
    };
    // dead-reference renderings must lex as well
    for l in full_leaves(CO, PLAIN) {
        if let Leaf::Ref(r) = &l {
            let d = F::L(translate_ref(r, -100, -100));
            if let Err(e) = validate_lexer(&render(&d)) {
                eprintln!("MACHINERY: C09 own lexer failed on a dead reference: {}", e);
                return 2;
            }
        }
    }
    let sections: Vec<Value> = main.summary().into_iter().chain(br.summary()).map(|(n, c)| json!({"section": n, "index_range": c})).collect();
    let only = std::env::var("UV_SPACES").unwrap_or_default(); // development knob: run a subset of the spaces
    let ids: Vec<&'static str> = ["main", "bracket", "loaded-child"].into_iter().filter(|id| only.is_empty() || only.split(',').any(|x| x == *id)).collect();
    let spaces = ids.iter().map(|id| (*id, space(ctx.tier, id).unwrap())).collect();
    run_e1(
        ctx,
        E1Spec {
            spaces,
            cfg: PoolCfg { chunk: if deep { 8 } else { 1 }, case_timeout: std::time::Duration::from_secs(3), keep_per_class: 2, ..Default::default() },
            level: "exploration",
            rule: "every formula of the harness grammar (AST rendered by the harness) in the sections listed under bounds, index -> formula deterministic, simplest first; each formula is put on cell C3 and sent through (i) set_coordinate(C3) [identity], (ii) Worksheet::insert_new_row(1000,1) on its own sheet [identity], (iii) Spreadsheet::insert_new_row(\"Other\",1,1) on another sheet [identity], (iii') placed on the sheet its own qualified references name, under remove_row / remove_column / insert_new_column / insert_new_row on another sheet [identity], (iv) set_coordinate(C3+(dc,dr)) for every move of the move alphabet [translation, expected = AST translation]; (loaded-child) the formulas of the quick main space as masters of a shared-formula group at C2 whose child C3 is read back from a saved file (the child holds only expanded text) and sent through set_coordinate for the identity and the first 6 moves; result and expectation are compared token by token through the harness's own lexer, only insignificant blank runs dropped. A hang is reported by the pool watchdog (clause terminates). distinct_nontrivial = distinct result texts of the identity paths and of the first four moves. counters: clean|<clause>|<tag> = formulas carrying the tag for which every evaluation of the clause was clean; failing|... likewise".into(),
            alphabets: json!({
                "leaves_full": full_leaves(CO, PLAIN).iter().map(render_leaf).collect::<Vec<_>>(),
                "leaves_reduced": reduced_leaves(CO, PLAIN).iter().map(render_leaf).collect::<Vec<_>>(),
                "leaves_core": core_leaves(CO, PLAIN).iter().map(render_leaf).collect::<Vec<_>>(),
                "leaves_bracket": bracket_leaves().iter().map(render_leaf).collect::<Vec<_>>(),
                "unary_templates": unary_templates(&F::L(healthy_leaf(CO))).iter().map(|f| render(f).text).collect::<Vec<_>>(),
                "binary_templates": binary_templates(&F::L(healthy_leaf(CO)), &F::L(healthy_leaf(CO)), false).iter().map(|f| render(f).text).collect::<Vec<_>>(),
                "moves": "(dc,dr) in {0,+-1,+-2}^2; to XFD; to row 1048576; both; per relative reference part: onto column/row 1, one below, onto XFD/1048576, one beyond (while the cell stays in the grid)",
                "formulas": nform,
            }),
            bounds: json!({"tier": ctx.tier.name(), "max_leaves": 3, "chain_depth": 6, "sections": sections, "ill_formed_combinations_skipped": skipped,
                "small_alphabet_for_wrapped_and_3_leaf_sections": if deep {"leaves_reduced"} else {"leaves_core"}}),
            exhaustive: true,
            caps_hit: vec![],
            assumptions: vec![
                "well-formed = produced by the harness grammar; union/intersection only over reference-valued operands; a trailing blank only at the end of the formula".into(),
                "a dead reference is compared modulo the spelling Sheet!#REF! / #REF!".into(),
                "a significant blank run (intersection) is compared as one token whatever its length".into(),
                "bracket-bearing leaves (structured / external reference) are enumerated in their own space with few partners because every such case costs a watchdog timeout".into(),
            ],
            min_distinct: 500,
        },
    )
}
