//! Client of the independent Python decoder/validator (P): one persistent /usr/bin/python3 child per process.
use serde_json::{json, Value};
use std::io::{Read, Write};
use std::process::{Child, ChildStdin, ChildStdout, Command, Stdio};

pub struct Py {
    child: Child,
    stdin: ChildStdin,
    stdout: ChildStdout,
}

impl Py {
    pub fn start() -> Py {
        let script = format!("{}/pyref/server.py", crate::common::VERIF);
        let mut child = Command::new("/usr/bin/python3")
            .arg("-S")
            .arg(&script)
            .stdin(Stdio::piped())
            .stdout(Stdio::piped())
            .stderr(Stdio::inherit())
            .spawn()
            .unwrap_or_else(|e| {
                eprintln!("MACHINERY: cannot start /usr/bin/python3 {}: {}", script, e);
                std::process::exit(2);
            });
        let stdin = child.stdin.take().unwrap();
        let stdout = child.stdout.take().unwrap();
        let mut p = Py { child, stdin, stdout };
        let r = p.call(json!({"op": "ping"}), &[]);
        if r["ok"] != json!(true) {
            eprintln!("MACHINERY: python reference server does not answer: {}", r);
            std::process::exit(2);
        }
        p
    }

    /// One request/response.  A transport failure is a machinery error (exit 2), never a verdict.
    pub fn call(&mut self, mut header: Value, payload: &[u8]) -> Value {
        header["nbytes"] = json!(payload.len());
        let h = header.to_string().into_bytes();
        let mut msg = Vec::with_capacity(4 + h.len() + payload.len());
        msg.extend_from_slice(&(h.len() as u32).to_be_bytes());
        msg.extend_from_slice(&h);
        msg.extend_from_slice(payload);
        let fail = |what: &str| -> ! {
            eprintln!("MACHINERY: python reference server transport failure ({})", what);
            std::process::exit(2);
        };
        if self.stdin.write_all(&msg).is_err() || self.stdin.flush().is_err() {
            fail("write");
        }
        let mut lb = [0u8; 4];
        if self.stdout.read_exact(&mut lb).is_err() {
            fail("read length");
        }
        let n = u32::from_be_bytes(lb) as usize;
        let mut buf = vec![0u8; n];
        if self.stdout.read_exact(&mut buf).is_err() {
            fail("read body");
        }
        match serde_json::from_slice::<Value>(&buf) {
            Ok(v) => {
                if v["ok"] != json!(true) {
                    eprintln!("MACHINERY: python reference server error: {} {}", v["error"], v["trace"]);
                    std::process::exit(2);
                }
                v
            }
            Err(_) => fail("json"),
        }
    }

    pub fn validate(&mut self, bytes: &[u8]) -> Vec<(String, String, String)> {
        let r = self.call(json!({"op": "validate"}), bytes);
        r["problems"].as_array().map(|a| a.iter().map(|p| (p["class"].as_str().unwrap_or("").to_string(), p["part"].as_str().unwrap_or("").to_string(), p["msg"].as_str().unwrap_or("").to_string())).collect()).unwrap_or_default()
    }

    pub fn decode(&mut self, bytes: &[u8], styles: bool) -> Value {
        self.call(json!({"op": "decode", "styles": styles}), bytes)["book"].take()
    }

    pub fn validate_decode(&mut self, bytes: &[u8], styles: bool) -> (Vec<(String, String, String)>, Value) {
        let mut r = self.call(json!({"op": "validate+decode", "styles": styles}), bytes);
        let probs = r["problems"].as_array().map(|a| a.iter().map(|p| (p["class"].as_str().unwrap_or("").to_string(), p["part"].as_str().unwrap_or("").to_string(), p["msg"].as_str().unwrap_or("").to_string())).collect()).unwrap_or_default();
        (probs, r["book"].take())
    }
}

impl Drop for Py {
    fn drop(&mut self) {
        let _ = self.child.kill();
        let _ = self.child.wait();
    }
}

thread_local! {
    static PY: std::cell::RefCell<Option<Py>> = std::cell::RefCell::new(None);
}

/// Per-thread (per worker process) lazily started server.
pub fn with_py<T>(f: impl FnOnce(&mut Py) -> T) -> T {
    PY.with(|c| {
        let mut b = c.borrow_mut();
        if b.is_none() {
            *b = Some(Py::start());
        }
        f(b.as_mut().unwrap())
    })
}
