//! C20 — CSV export is a faithful rectangular rendering of the active sheet.
//!
//! One pool case = one sheet specification, exported under every option combination
//! (10 encodings x trim on/off x wrap none / " / ').  Oracle: decode the bytes with the selected encoding
//! (harness's own option->encoding mapping; encoding_rs decoders, hand-written UTF-16), parse with the
//! harness's RFC-4180 parser (delimiter ',', quote = wrap char, none => no quoting), compare with the grid.
use crate::common::*;
use crate::e1::*;
use crate::pool::*;
use serde_json::{json, Value};
use umya_spreadsheet::structs::{CsvEncodeValues, CsvWriterOption};

pub fn entry() -> crate::Entry {
    crate::Entry { id: "C20", run, space, replay }
}

// ------------------------------------------------------------------------------------------------
// options
#[derive(Clone, Copy, Debug, PartialEq)]
enum Enc {
    Utf8,
    ShiftJis,
    Koi8u,
    Koi8r,
    Iso88598i,
    Gbk,
    EucKr,
    Big5,
    Utf16Le,
    Utf16Be,
}
const ENCS: [Enc; 10] = [Enc::Utf8, Enc::ShiftJis, Enc::Koi8u, Enc::Koi8r, Enc::Iso88598i, Enc::Gbk, Enc::EucKr, Enc::Big5, Enc::Utf16Le, Enc::Utf16Be];
impl Enc {
    fn name(&self) -> &'static str {
        match self {
            Enc::Utf8 => "utf8",
            Enc::ShiftJis => "shift_jis",
            Enc::Koi8u => "koi8-u",
            Enc::Koi8r => "koi8-r",
            Enc::Iso88598i => "iso-8859-8-i",
            Enc::Gbk => "gbk",
            Enc::EucKr => "euc-kr",
            Enc::Big5 => "big5",
            Enc::Utf16Le => "utf16le",
            Enc::Utf16Be => "utf16be",
        }
    }
    fn option(&self) -> CsvEncodeValues {
        match self {
            Enc::Utf8 => CsvEncodeValues::Utf8,
            Enc::ShiftJis => CsvEncodeValues::ShiftJis,
            Enc::Koi8u => CsvEncodeValues::Koi8u,
            Enc::Koi8r => CsvEncodeValues::Koi8r,
            Enc::Iso88598i => CsvEncodeValues::Iso88598i,
            Enc::Gbk => CsvEncodeValues::Gbk,
            Enc::EucKr => CsvEncodeValues::EucKr,
            Enc::Big5 => CsvEncodeValues::Big5,
            Enc::Utf16Le => CsvEncodeValues::Utf16Le,
            Enc::Utf16Be => CsvEncodeValues::Utf16Be,
        }
    }
    /// WHATWG label of the byte encoding (harness's own mapping); None for UTF-16 (own decoder)
    fn label(&self) -> Option<&'static str> {
        match self {
            Enc::Utf8 => Some("utf-8"),
            Enc::ShiftJis => Some("shift_jis"),
            Enc::Koi8u => Some("koi8-u"),
            Enc::Koi8r => Some("koi8-r"),
            Enc::Iso88598i => Some("iso-8859-8-i"),
            Enc::Gbk => Some("gbk"),
            Enc::EucKr => Some("euc-kr"),
            Enc::Big5 => Some("big5"),
            _ => None,
        }
    }
    /// a word outside ASCII that the encoding can represent
    fn word(&self) -> &'static str {
        match self {
            Enc::Utf8 | Enc::Utf16Le | Enc::Utf16Be => "\u{e9}\u{540d}\u{1F600}z",
            Enc::ShiftJis => "\u{304b}\u{306a}\u{6f22}\u{5b57}",
            Enc::Koi8u => "\u{457}\u{436}\u{430}\u{43a}\u{491}\u{454}",
            Enc::Koi8r => "\u{43a}\u{438}\u{440}\u{438}\u{43b}\u{43b}\u{438}\u{446}\u{430}",
            Enc::Iso88598i => "\u{5e2}\u{5d1}\u{5e8}\u{5d9}\u{5ea}",
            Enc::Gbk => "\u{4e2d}\u{6587}\u{7b80}\u{4f53}",
            Enc::EucKr => "\u{d55c}\u{ae00}",
            Enc::Big5 => "\u{4e2d}\u{6587}\u{7e41}\u{9ad4}",
        }
    }
}
#[derive(Clone, Copy, Debug, PartialEq)]
struct Opt {
    enc: Enc,
    trim: bool,
    wrap: Option<char>,
}
fn options() -> Vec<Opt> {
    let mut v = vec![];
    for enc in ENCS {
        for trim in [false, true] {
            for wrap in [None, Some('"'), Some('\'')] {
                v.push(Opt { enc, trim, wrap });
            }
        }
    }
    v
}
fn wrap_name(w: Option<char>) -> &'static str {
    match w {
        None => "none",
        Some('"') => "dq",
        _ => "apos",
    }
}

// ------------------------------------------------------------------------------------------------
// decoding
fn decode_utf16(bytes: &[u8], be: bool) -> Option<String> {
    if bytes.len() % 2 != 0 {
        return None;
    }
    let units: Vec<u16> = bytes.chunks_exact(2).map(|c| if be { u16::from_be_bytes([c[0], c[1]]) } else { u16::from_le_bytes([c[0], c[1]]) }).collect();
    let mut out = String::new();
    let mut i = 0;
    while i < units.len() {
        let u = units[i];
        if (0xD800..0xDC00).contains(&u) {
            if i + 1 >= units.len() || !(0xDC00..0xE000).contains(&units[i + 1]) {
                return None;
            }
            let c = 0x10000 + (((u as u32) - 0xD800) << 10) + (units[i + 1] as u32 - 0xDC00);
            out.push(char::from_u32(c)?);
            i += 2;
        } else if (0xDC00..0xE000).contains(&u) {
            return None;
        } else {
            out.push(char::from_u32(u as u32)?);
            i += 1;
        }
    }
    Some(out)
}
fn decode_bytes(bytes: &[u8], enc: Enc) -> Option<String> {
    match enc {
        Enc::Utf16Le => decode_utf16(bytes, false),
        Enc::Utf16Be => decode_utf16(bytes, true),
        _ => {
            let e = encoding_rs::Encoding::for_label(enc.label().unwrap().as_bytes()).expect("label");
            e.decode_without_bom_handling_and_without_replacement(bytes).map(|c| c.into_owned())
        }
    }
}

// ------------------------------------------------------------------------------------------------
// RFC 4180 parser (delimiter ',', optional quote character; record ends at CRLF, LF or CR outside quotes)
fn parse_csv(text: &str, quote: Option<char>) -> Result<Vec<Vec<String>>, &'static str> {
    let cs: Vec<char> = text.chars().collect();
    let mut recs: Vec<Vec<String>> = vec![];
    let mut rec: Vec<String> = vec![];
    let mut i = 0;
    let n = cs.len();
    if n == 0 {
        return Ok(recs);
    }
    loop {
        // one field
        let mut field = String::new();
        if i < n && Some(cs[i]) == quote {
            let q = cs[i];
            i += 1;
            loop {
                if i >= n {
                    return Err("unterminated-quoted-field");
                }
                if cs[i] == q {
                    if i + 1 < n && cs[i + 1] == q {
                        field.push(q);
                        i += 2;
                        continue;
                    }
                    i += 1;
                    break;
                }
                field.push(cs[i]);
                i += 1;
            }
            if i < n && cs[i] != ',' && cs[i] != '\r' && cs[i] != '\n' {
                return Err("text-after-closing-quote");
            }
        } else {
            while i < n && cs[i] != ',' && cs[i] != '\r' && cs[i] != '\n' {
                field.push(cs[i]);
                i += 1;
            }
        }
        rec.push(field);
        if i >= n {
            recs.push(std::mem::take(&mut rec));
            break;
        }
        if cs[i] == ',' {
            i += 1;
            if i >= n {
                // trailing delimiter: one more empty field
                rec.push(String::new());
                recs.push(std::mem::take(&mut rec));
                break;
            }
            continue;
        }
        // record terminator
        if cs[i] == '\r' && i + 1 < n && cs[i + 1] == '\n' {
            i += 2;
        } else {
            i += 1;
        }
        recs.push(std::mem::take(&mut rec));
        if i >= n {
            break;
        }
    }
    Ok(recs)
}

// ------------------------------------------------------------------------------------------------
// sheet specifications
#[derive(Clone, Debug, PartialEq)]
enum V {
    /// plain text distinct per position
    Pos,
    Num(f64),
    Bool(bool),
    Text(&'static str),
    /// the per-encoding non-ASCII word
    Word,
    /// the same text arriving through another kind of cell: a rich text of `runs` runs (split in the middle)
    Rich(&'static str, usize),
    /// a formula whose cached result is this text
    FormulaText(&'static str),
    /// auto-typed `set_value`
    Auto(&'static str),
    /// a text with characters NO legacy encoding of the options can represent (the UTF encodings can): what stands in
    /// for them is not pinned by the statement - the field must still begin and end as the text does, and every other
    /// field and record must be exactly right
    Unmappable,
}
const UNMAPPABLE: &str = "a\u{1F600}\u{1F601}\u{1F602}\u{1F923}b";
const UNPINNED: &str = "\u{0}unpinned";
const SPECIALS: [(&str, V); 13] = [
    ("plain", V::Text("abc")),
    ("delim", V::Text("a,b")),
    ("dq", V::Text("a\"b")),
    ("apos", V::Text("a'b")),
    ("crlf", V::Text("a\r\nb")),
    ("lf", V::Text("a\nb")),
    ("cr", V::Text("a\rb")),
    ("edge-blanks", V::Text("  a b ")),
    ("dqdq", V::Text("\"\"")),
    ("aposapos", V::Text("''")),
    ("only-delim", V::Text(",")),
    ("nonascii", V::Word),
    ("inner-blanks", V::Text("a  b")),
];
#[derive(Clone, Debug)]
struct Spec {
    kind: String,
    /// sheets: list of cells (col,row,value); `active` is the sheet exported
    sheets: Vec<Vec<(u32, u32, V)>>,
    active: usize,
    /// cells of the active sheet that were written and then taken away again with remove_cell (not part of the sheet)
    removed: Vec<(u32, u32)>,
}
fn specs() -> Vec<Spec> {
    let mut v = vec![];
    // (1) all presence patterns of a 3x3 grid, simplest first
    let mut masks: Vec<u32> = (0..512).collect();
    masks.sort_by_key(|m| (m.count_ones(), *m));
    for m in masks {
        let mut cells = vec![];
        for r in 1..=3u32 {
            for c in 1..=3u32 {
                if m & (1 << ((r - 1) * 3 + (c - 1))) != 0 {
                    let val = match (c, r) {
                        (2, 2) => V::Num(1234.5),
                        (3, 1) => V::Bool(true),
                        (1, 3) => V::Num(-7.0),
                        _ => V::Pos,
                    };
                    cells.push((c, r, val));
                }
            }
        }
        v.push(Spec { kind: format!("presence:{:09b}", m), sheets: vec![cells], active: 0, removed: vec![] });
    }
    // (2) each special value at each of 4 positions, neighbours absent / present
    for (name, val) in SPECIALS.iter() {
        for (pc, pr) in [(1u32, 1u32), (2, 1), (3, 1), (1, 2), (2, 2), (3, 2), (1, 3), (2, 3), (3, 3)] {
            for neighbours in [false, true] {
                let mut cells = vec![];
                if neighbours {
                    for r in 1..=3 {
                        for c in 1..=3 {
                            if (c, r) != (pc, pr) {
                                cells.push((c, r, V::Pos));
                            }
                        }
                    }
                }
                cells.push((pc, pr, val.clone()));
                v.push(Spec { kind: format!("single:{}@{},{}:{}", name, pc, pr, if neighbours { "full" } else { "alone" }), sheets: vec![cells], active: 0, removed: vec![] });
            }
        }
    }
    // (3) every ordered pair of special values in adjacent cells (side by side, one above the other)
    for (n1, v1) in SPECIALS.iter() {
        for (n2, v2) in SPECIALS.iter() {
            for horizontal in [true, false] {
                let second = if horizontal { (2, 1) } else { (1, 2) };
                let cells = vec![(1, 1, v1.clone()), (second.0, second.1, v2.clone())];
                v.push(Spec { kind: format!("pair:{}|{}:{}", n1, n2, if horizontal { "row" } else { "column" }), sheets: vec![cells], active: 0, removed: vec![] });
            }
        }
    }
    // (5) histories: every presence pattern with ONE more cell that was written and removed again (inside the 3x3
    // block or beyond it to the right / below): the highest used row/column is that of what is left
    for m in 0u32..512 {
        let mut cells = vec![];
        for r in 1..=3u32 {
            for c in 1..=3u32 {
                if m & (1 << ((r - 1) * 3 + (c - 1))) != 0 {
                    cells.push((c, r, V::Pos));
                }
            }
        }
        for (xc, xr) in [(1u32, 1u32), (2, 1), (3, 1), (1, 2), (2, 2), (3, 2), (1, 3), (2, 3), (3, 3), (4, 2), (2, 4), (5, 5)] {
            if cells.iter().any(|(c, r, _)| (*c, *r) == (xc, xr)) {
                continue;
            }
            v.push(Spec { kind: format!("removed:{:09b}-{},{}", m, xc, xr), sheets: vec![cells.clone()], active: 0, removed: vec![(xc, xr)] });
        }
    }
    // (6) the text-bearing special values through the other kinds of cell that carry text (rich text of one and two
    // runs, formula with a cached text result, auto-typed set_value), alone and beside a plain neighbour
    for (name, val) in SPECIALS.iter() {
        let V::Text(t) = val else { continue };
        for (cname, carried) in [("rich1", V::Rich(t, 1)), ("rich2", V::Rich(t, 2)), ("formula-text", V::FormulaText(t)), ("auto", V::Auto(t))] {
            for neighbours in [false, true] {
                let mut cells = vec![(1, 1, carried.clone())];
                if neighbours {
                    cells.push((2, 1, V::Pos));
                    cells.push((1, 2, carried.clone()));
                }
                v.push(Spec { kind: format!("carrier:{}:{}:{}", cname, name, if neighbours { "beside" } else { "alone" }), sheets: vec![cells], active: 0, removed: vec![] });
            }
        }
    }
    // (7) 1..6 cells with unrepresentable characters in column A, plain neighbours in column B, two plain rows after
    for n in 1..=6u32 {
        let mut cells = vec![];
        for r in 1..=n {
            cells.push((1, r, V::Unmappable));
            cells.push((2, r, V::Pos));
        }
        for r in n + 1..=n + 2 {
            cells.push((1, r, V::Pos));
            cells.push((2, r, V::Pos));
        }
        v.push(Spec { kind: format!("unmappable:{}", n), sheets: vec![cells], active: 0, removed: vec![] });
    }
    // (4) active sheet is not the first one / not the last one
    let target = vec![(1, 1, V::Pos), (3, 2, V::Text("abc")), (2, 3, V::Pos)];
    let decoy_big = vec![(1, 1, V::Text("decoy")), (4, 4, V::Text("decoy"))];
    let decoy_small = vec![(1, 1, V::Text("decoy"))];
    v.push(Spec { kind: "active:second-of-2".into(), sheets: vec![decoy_big.clone(), target.clone()], active: 1, removed: vec![] });
    v.push(Spec { kind: "active:third-of-3".into(), sheets: vec![decoy_big.clone(), decoy_small.clone(), target.clone()], active: 2, removed: vec![] });
    v.push(Spec { kind: "active:second-of-3".into(), sheets: vec![decoy_small.clone(), target.clone(), decoy_big.clone()], active: 1, removed: vec![] });
    v.push(Spec { kind: "active:first-of-3".into(), sheets: vec![target.clone(), decoy_big.clone(), decoy_small.clone()], active: 0, removed: vec![] });
    v.push(Spec { kind: "active:empty-second-of-2".into(), sheets: vec![decoy_big, vec![]], active: 1, removed: vec![] });
    v
}
fn value_text(v: &V, c: u32, r: u32, enc: Enc) -> String {
    match v {
        V::Pos => format!("r{}c{}", r, c),
        V::Num(x) => x.to_string(),
        V::Bool(b) => if *b { "TRUE".into() } else { "FALSE".into() },
        V::Text(t) | V::Rich(t, _) | V::FormulaText(t) | V::Auto(t) => t.to_string(),
        V::Word => enc.word().to_string(),
        V::Unmappable => UNMAPPABLE.to_string(),
    }
}
fn build(spec: &Spec, enc: Enc) -> umya_spreadsheet::Spreadsheet {
    let mut book = umya_spreadsheet::new_file();
    for (i, cells) in spec.sheets.iter().enumerate() {
        if i > 0 {
            book.new_sheet(format!("Sheet{}", i + 1)).unwrap();
        }
        let ws = book.get_sheet_mut(&i).unwrap();
        for (c, r, v) in cells {
            let cell = ws.get_cell_mut((*c, *r));
            match v {
                V::Num(x) => {
                    cell.set_value_number(*x);
                }
                V::Bool(b) => {
                    cell.set_value_bool(*b);
                }
                V::Rich(t, runs) => {
                    let mut rt = umya_spreadsheet::RichText::default();
                    let cut = if *runs < 2 { t.len() } else { t.char_indices().nth(t.chars().count() / 2).map(|(i, _)| i).unwrap_or(0) };
                    for (k, part) in [&t[..cut], &t[cut..]].iter().enumerate() {
                        if k == 1 && *runs < 2 {
                            continue;
                        }
                        let mut e = umya_spreadsheet::TextElement::default();
                        e.set_text(*part);
                        if k == 1 {
                            e.get_font_mut().set_bold(true);
                        }
                        rt.add_rich_text_elements(e);
                    }
                    cell.set_rich_text(rt);
                }
                V::FormulaText(t) => {
                    cell.set_formula("A9&\"\"");
                    cell.set_formula_result_default(*t);
                }
                V::Auto(t) => {
                    cell.set_value(*t);
                }
                _ => {
                    cell.set_value_string(value_text(v, *c, *r, enc));
                }
            }
        }
    }
    {
        let ws = book.get_sheet_mut(&spec.active).unwrap();
        for (c, r) in &spec.removed {
            ws.get_cell_mut((*c, *r)).set_value_string("to be removed");
        }
        for (c, r) in &spec.removed {
            ws.remove_cell((*c, *r));
        }
    }
    book.set_active_sheet(spec.active as u32);
    book
}
fn own_trim(s: &str) -> &str {
    s.trim_matches(|c| c == ' ' || c == '\t')
}
/// the grid the statement demands: rows 1..=max_row x columns 1..=max_col of the active sheet
fn expected_grid(spec: &Spec, opt: Opt) -> Vec<Vec<String>> {
    let cells = &spec.sheets[spec.active];
    let max_c = cells.iter().map(|x| x.0).max().unwrap_or(0);
    let max_r = cells.iter().map(|x| x.1).max().unwrap_or(0);
    let mut g = vec![vec![String::new(); max_c as usize]; max_r as usize];
    for (c, r, v) in cells {
        let t = value_text(v, *c, *r, opt.enc);
        if *v == V::Unmappable && opt.enc.label().map(|l| l != "utf-8").unwrap_or(false) {
            g[(*r - 1) as usize][(*c - 1) as usize] = UNPINNED.to_string();
            continue;
        }
        g[(*r - 1) as usize][(*c - 1) as usize] = if opt.trim { own_trim(&t).to_string() } else { t };
    }
    g
}

/// feature tags of (sheet, options)
fn case_tags(spec: &Spec, opt: Opt) -> Vec<String> {
    let mut t: Vec<String> = vec![];
    let (mut delim, mut dq, mut apos, mut cr, mut lf, mut edge, mut nonascii) = (false, false, false, false, false, false, false);
    for (c, r, v) in &spec.sheets[spec.active] {
        let s = value_text(v, *c, *r, opt.enc);
        delim |= s.contains(',');
        dq |= s.contains('"');
        apos |= s.contains('\'');
        cr |= s.contains('\r');
        lf |= s.contains('\n');
        edge |= own_trim(&s) != s;
        nonascii |= !s.is_ascii();
    }
    // combinations that matter for quoting
    if delim && opt.wrap.is_none() {
        t.push("delimiter-in-value+wrap:none".into());
    }
    if cr && opt.wrap.is_none() {
        t.push("cr-in-value+wrap:none".into());
    }
    if lf && opt.wrap.is_none() {
        t.push("lf-in-value+wrap:none".into());
    }
    if dq && opt.wrap == Some('"') {
        t.push("dq-in-value+wrap:dq".into());
    }
    if apos && opt.wrap == Some('\'') {
        t.push("apos-in-value+wrap:apos".into());
    }
    if matches!(opt.enc, Enc::Utf16Le | Enc::Utf16Be) {
        t.push("enc:utf16".into());
    }
    if t.is_empty() {
        t.push("no-quoting-needed".into());
    }
    for (f, name) in [(delim, "val:delimiter"), (dq, "val:dq"), (apos, "val:apos"), (cr, "val:cr"), (lf, "val:lf"), (edge, "val:edge-blanks"), (nonascii, "val:nonascii")] {
        if f {
            t.push(name.into());
        }
    }
    t.push(format!("encoding:{}", opt.enc.name()));
    t.push(format!("wrap:{}", wrap_name(opt.wrap)));
    t.push(format!("trim:{}", if opt.trim { "on" } else { "off" }));
    if spec.sheets.len() > 1 {
        t.push("multi-sheet".into());
    }
    t
}

/// A healthy sink that accepts at most `chunk` bytes per call (a pipe, a socket, a small buffer in front of a device):
/// legal io::Write behaviour - the writer has to hand the rest over again.
struct ShortSink {
    data: Vec<u8>,
    chunk: usize,
}
impl std::io::Write for ShortSink {
    fn write(&mut self, buf: &[u8]) -> std::io::Result<usize> {
        let n = buf.len().min(self.chunk);
        self.data.extend_from_slice(&buf[..n]);
        Ok(n)
    }
    fn flush(&mut self) -> std::io::Result<()> {
        Ok(())
    }
}
impl std::io::Seek for ShortSink {
    fn seek(&mut self, _pos: std::io::SeekFrom) -> std::io::Result<u64> {
        Ok(self.data.len() as u64)
    }
}
fn export_short(spec: &Spec, opt: Opt, chunk: usize) -> Result<Vec<u8>, String> {
    let spec = spec.clone();
    std::panic::catch_unwind(move || {
        let book = build(&spec, opt.enc);
        let mut o = CsvWriterOption::default();
        o.set_csv_encode_value(opt.enc.option());
        o.set_do_trim(opt.trim);
        if let Some(w) = opt.wrap {
            o.set_wrap_with_char(w.to_string());
        }
        let mut sk = ShortSink { data: vec![], chunk };
        match umya_spreadsheet::writer::csv::write_writer(&book, &mut sk, &o) {
            Ok(()) => Ok(sk.data),
            Err(e) => Err(format!("write_writer returned Err: {:?}", e)),
        }
    })
    .map_err(|e| format!("panic: {}", panic_msg(&e)))
    .and_then(|r| r)
}

fn export(spec: &Spec, opt: Opt) -> Result<Vec<u8>, String> {
    let spec = spec.clone();
    std::panic::catch_unwind(move || {
        let book = build(&spec, opt.enc);
        let mut o = CsvWriterOption::default();
        o.set_csv_encode_value(opt.enc.option());
        o.set_do_trim(opt.trim);
        if let Some(w) = opt.wrap {
            o.set_wrap_with_char(w.to_string());
        }
        let mut cur = std::io::Cursor::new(Vec::new());
        match umya_spreadsheet::writer::csv::write_writer(&book, &mut cur, &o) {
            Ok(()) => Ok(cur.into_inner()),
            Err(e) => Err(format!("write_writer returned Err: {:?}", e)),
        }
    })
    .map_err(|e| format!("panic: {}", panic_msg(&e)))
    .and_then(|r| r)
}

fn check_export(sink: &mut Sink, spec: &Spec, opt: Opt) {
    sink.evaluations += 1;
    let tags_owned = case_tags(spec, opt);
    let tags: Vec<&str> = tags_owned.iter().map(|s| s.as_str()).collect();
    let case = json!({"sheet": spec.kind, "encoding": opt.enc.name(), "trim": opt.trim, "wrap": wrap_name(opt.wrap)});
    let want = expected_grid(spec, opt);
    let bytes = match export(spec, opt) {
        Ok(b) => b,
        Err(m) => {
            let sym = if m.starts_with("panic") { format!("panic:{}", panic_class(&m)) } else { "returned-error".to_string() };
            push(sink, Violation::new("export-succeeds", &sym, &tags, case, m));
            return;
        }
    };
    sink.obs(&format!("{:?}", bytes));
    // the same export through a healthy sink that takes 7 bytes per call: the same bytes must arrive
    match export_short(spec, opt, 7) {
        Ok(b2) if b2 == bytes => {}
        Ok(b2) => push(sink, Violation::new("sink-independence", "short-writing-sink-gets-other-bytes", &tags, case.clone(), format!("a sink that accepts 7 bytes per call received {} bytes, a Vec received {}; first difference at {}", b2.len(), bytes.len(), b2.iter().zip(bytes.iter()).take_while(|(a, b)| a == b).count()))),
        Err(m) => push(sink, Violation::new("sink-independence", "short-writing-sink-fails", &tags, case.clone(), m)),
    }
    let show = |b: &[u8]| -> String { String::from_utf8_lossy(&b[..b.len().min(120)]).escape_debug().to_string() };
    // ---- encoding clause
    let mut text = decode_bytes(&bytes, opt.enc);
    if matches!(opt.enc, Enc::Utf16Le | Enc::Utf16Be) {
        // a UTF-16 stream of a non-empty grid contains line breaks as 16-bit units; if it does not, look at
        // what the bytes are instead so that the grid clauses can still be evaluated on the real text
        let plausible = want.is_empty() || text.as_ref().map(|t| t.contains('\n') || t.contains('\r')).unwrap_or(false);
        if !plausible {
            match std::str::from_utf8(&bytes) {
                Ok(u) if !u.contains('\0') && (u.contains('\n') || u.contains('\r')) => {
                    push(sink, Violation::new("encoding", "utf8-bytes-instead-of-utf16", &tags, case.clone(), format!("selected {} but the {} bytes are UTF-8 text: {}", opt.enc.name(), bytes.len(), show(&bytes))));
                    text = Some(u.to_string());
                }
                _ => {
                    push(sink, Violation::new("encoding", "not-utf16", &tags, case.clone(), format!("selected {} but the bytes do not decode to CSV text: {}", opt.enc.name(), show(&bytes))));
                    return;
                }
            }
        }
    }
    let text = match text {
        Some(t) => t,
        None => {
            push(sink, Violation::new("encoding", "undecodable-in-selected-encoding", &tags, case, format!("bytes are not valid {}: {}", opt.enc.name(), show(&bytes))));
            return;
        }
    };
    // ---- grid clauses
    // With no wrap character a writer can only stay parseable by quoting on demand with the RFC default
    // quote: output that a parser with quote '"' maps to exactly the grid is accepted as well.
    if opt.wrap.is_none() {
        if let Ok(r) = parse_csv(&text, Some('"')) {
            if r == want {
                return;
            }
        }
    }
    let recs = match parse_csv(&text, opt.wrap) {
        Ok(r) => r,
        Err(why) => {
            push(sink, Violation::new("parses", why, &tags, case, format!("RFC-4180 parser (quote {:?}) rejects {:?}", opt.wrap, text)));
            return;
        }
    };
    if recs.len() != want.len() {
        let sym = if recs.len() > want.len() { "too-many-records" } else { "too-few-records" };
        push(sink, Violation::new("records", sym, &tags, case, format!("{} records parsed from {:?}, sheet has rows 1..={}", recs.len(), text, want.len())));
        return;
    }
    let all_expected: Vec<&String> = want.iter().flatten().filter(|s| !s.is_empty()).collect();
    let mut seen: Vec<&'static str> = vec![];
    for (ri, (rec, wrow)) in recs.iter().zip(want.iter()).enumerate() {
        if rec.len() != wrow.len() {
            let sym = if rec.len() > wrow.len() { "too-many-fields" } else { "too-few-fields" };
            if !seen.contains(&sym) {
                seen.push(sym);
                push(sink, Violation::new("fields", sym, &tags, case.clone(), format!("record {} has {} fields, sheet has columns 1..={}; text {:?}", ri + 1, rec.len(), wrow.len(), text)));
            }
            continue;
        }
        for (ci, (g, w)) in rec.iter().zip(wrow.iter()).enumerate() {
            if w == UNPINNED {
                if !(g.starts_with('a') && g.ends_with('b') && g.len() > 2) {
                    push(sink, Violation::new("values", "unrepresentable-text-mangled-beyond-its-characters", &tags, case.clone(), format!("record {} field {}: {:?} stands for {:?}", ri + 1, ci + 1, g, UNMAPPABLE)));
                }
                continue;
            }
            if g != w {
                let sym = if opt.trim && own_trim(g) == w.as_str() {
                    "not-trimmed"
                } else if !opt.trim && g.as_str() == own_trim(w) {
                    "trimmed-without-option"
                } else if opt.wrap.map(|q| *g == w.replace(&format!("{}{}", q, q), &q.to_string())).unwrap_or(false) {
                    "embedded-quotes-not-doubled"
                } else if g.is_empty() {
                    "value-missing"
                } else if w.is_empty() && all_expected.contains(&g) {
                    "value-in-wrong-cell"
                } else if all_expected.contains(&g) {
                    "other-cells-value"
                } else if opt.wrap.is_some() && g.len() >= 2 && g.starts_with(opt.wrap.unwrap()) && g.ends_with(opt.wrap.unwrap()) {
                    "wrap-char-left-in-value"
                } else {
                    "value-changed"
                };
                if !seen.contains(&sym) {
                    seen.push(sym);
                    push(sink, Violation::new("values", sym, &tags, case.clone(), format!("row {} column {}: parsed {:?}, cell holds {:?}; text {:?}", ri + 1, ci + 1, g, w, text)));
                }
            }
        }
    }
}

/// record a violation and count it in the (clause | symptom | quoting-relevant tags) matrix of the evidence
fn push(sink: &mut Sink, v: Violation) {
    let combo: Vec<&str> = v.tags.iter().map(|s| s.as_str()).filter(|t| t.contains('+') || *t == "enc:utf16" || *t == "no-quoting-needed").collect();
    sink.count(&format!("bad {} | {} | {}", v.clause, v.symptom, combo.join(" ")), 1);
    sink.violations.push(v);
}

struct Sheets {
    specs: Vec<Spec>,
}
impl Space for Sheets {
    fn len(&self) -> u64 {
        self.specs.len() as u64
    }
    fn describe(&self, i: u64) -> Value {
        json!({"sheet": self.specs[i as usize].kind, "options": "10 encodings x trim on/off x wrap none/dq/apos"})
    }
    fn run(&self, i: u64, sink: &mut Sink) {
        let spec = &self.specs[i as usize];
        // before the exports of a case: an export of ANOTHER sheet into a writer that refuses every byte; it must fail and
        // leave nothing behind that shows up in the exports that follow
        failed_export_prelude();
        for opt in options() {
            check_export(sink, spec, opt);
        }
    }
}

struct RefusingWriter;
impl std::io::Write for RefusingWriter {
    fn write(&mut self, _buf: &[u8]) -> std::io::Result<usize> {
        Err(std::io::Error::from_raw_os_error(28))
    }
    fn flush(&mut self) -> std::io::Result<()> {
        Ok(())
    }
}
impl std::io::Seek for RefusingWriter {
    fn seek(&mut self, _pos: std::io::SeekFrom) -> std::io::Result<u64> {
        Ok(0)
    }
}
fn failed_export_prelude() {
    let _ = std::panic::catch_unwind(|| {
        let mut book = umya_spreadsheet::new_file();
        let ws = book.get_sheet_mut(&0).unwrap();
        ws.get_cell_mut("A1").set_value_string("decoy, of a failed export");
        ws.get_cell_mut("B2").set_value_string("must never show up");
        let _ = umya_spreadsheet::writer::csv::write_writer(&book, &mut RefusingWriter, &CsvWriterOption::default());
    });
}

/// harness self-check: every per-encoding word is representable in its encoding and decodes back
fn self_check() -> Result<(), String> {
    for enc in ENCS {
        if let Some(l) = enc.label() {
            let e = encoding_rs::Encoding::for_label(l.as_bytes()).ok_or("label")?;
            let (b, _, bad) = e.encode(enc.word());
            if bad {
                return Err(format!("word of {} is not representable", enc.name()));
            }
            if decode_bytes(&b, enc).as_deref() != Some(enc.word()) {
                return Err(format!("word of {} does not decode back", enc.name()));
            }
        }
    }
    // parser self-check
    let p = parse_csv("\"a,\"\"b\r\n\",x\r\nc,\r\n", Some('"')).map_err(|e| e.to_string())?;
    if p != vec![vec!["a,\"b\r\n".to_string(), "x".to_string()], vec!["c".to_string(), String::new()]] {
        return Err(format!("parser self-check: {:?}", p));
    }
    let le: Vec<u8> = "a\u{1F600}".encode_utf16().flat_map(|u| u.to_le_bytes()).collect();
    if decode_utf16(&le, false).as_deref() != Some("a\u{1F600}") {
        return Err("utf16 self-check".into());
    }
    Ok(())
}

pub fn space(_tier: Tier, id: &str) -> Option<Box<dyn Space>> {
    if let Some(r) = reversed_of(id, |base| space(_tier, base)) {
        return r;
    }
    if let Some(r) = concurrent_of(id, |base| space(_tier, base)) {
        return r;
    }
    match id {
        "sheets" => Some(Box::new(Sheets { specs: specs() })),
        _ => None,
    }
}

fn replay(tier: Tier, case: &Value) -> Vec<Violation> {
    replay_e1(space(tier, case["_space"].as_str().unwrap_or("")), case)
}

fn run(ctx: &Ctx) -> i32 {
    if let Err(e) = self_check() {
        eprintln!("MACHINERY: C20 self-check failed: {}", e);
        return 2;
    }
    let spaces = vec![("sheets", space(ctx.tier, "sheets").unwrap()), ("sheets~rev", space(ctx.tier, "sheets~rev").unwrap()), ("sheets~par", space(ctx.tier, "sheets~par").unwrap())];
    let n = specs().len();
    run_e1(
        ctx,
        E1Spec {
            spaces,
            cfg: PoolCfg { chunk: 4, case_timeout: std::time::Duration::from_secs(60), ..Default::default() },
            level: "exploration",
            rule: "every sheet specification (all 512 presence patterns of a 3x3 grid with position-distinct text, a number and a boolean; each of 13 special values at each of the 9 positions with neighbours absent/present; every ordered pair of special values side by side and one above the other; 5 multi-sheet workbooks whose active sheet is not the first / not the last / empty; every presence pattern with one more cell - inside the block or beyond it - that was written and removed again with remove_cell) x every option combination (10 encodings x trim x wrap); every case starts with an export of a decoy sheet into a writer that refuses every byte. Per export: bytes from writer::csv::write_writer are decoded with the selected encoding (own option->label mapping, encoding_rs decoders without replacement, hand-written UTF-16LE/BE decoder), parsed by the harness's RFC-4180 parser (delimiter ',', quote = wrap char, no quoting when none; CRLF/LF/CR record ends) and compared with the grid rows 1..max_row x columns 1..max_col of the active sheet (values trimmed of blanks/tabs when trim is on). distinct_nontrivial = distinct byte outputs".into(),
            alphabets: json!({"sheet_specs": n, "special_values": SPECIALS.iter().map(|(n, v)| json!({"name": n, "value": match v { V::Text(t) => t.to_string(), _ => "per-encoding word".to_string() }})).collect::<Vec<_>>(),
                "encodings": ENCS.iter().map(|e| e.name()).collect::<Vec<_>>(), "trim": [false, true], "wrap": ["none", "\"", "'"], "option_combinations": options().len()}),
            bounds: json!({"grid": "3x3 (multi-sheet decoys up to 4x4)", "values_per_pair_sheet": 2, "both_tiers": "identical (the whole space runs in a few seconds)"}),
            exhaustive: true,
            caps_hit: vec![],
            assumptions: vec![
                "non-ASCII text is a per-encoding word that the selected encoding can represent (lossy transcoding is never demanded)".into(),
                "trimmed = leading/trailing blanks and tabs removed; cells with an empty value are not used (what 'used' means for them is not pinned)".into(),
                "the wrap option is a single character (\" or '); with wrap none the output must be recovered by a parser without quote character or by one with the RFC default quote \" (on-demand quoting is accepted)".into(),
                "for UTF-16 options whose output is really UTF-8 the encoding clause is reported and the grid clauses are then evaluated on the UTF-8 text".into(),
            ],
            min_distinct: 300,
        },
    )
}
