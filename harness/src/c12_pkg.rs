//! Independent decoder of the text content of a written .xlsx package (zip crate + quick-xml events; no
//! code of the library under test).  Produces: the list of <si> strings of xl/sharedStrings.xml (plain
//! <t>, rich runs <r><t>, phonetic runs skipped, entities unescaped, whitespace kept), the text shown by
//! every cell of every sheet part (t="s" resolved through that list, t="inlineStr", t="str"), the inline
//! strings, and every occurrence of the marker prefix in any OTHER part of the package.
use quick_xml::events::Event;
use quick_xml::Reader;
use std::collections::BTreeMap;
use std::io::Read;

#[derive(Clone, Debug, PartialEq, Eq)]
pub enum CellTxt {
    /// text shown by the cell
    Text(String),
    /// t="s" with an index that does not exist in sharedStrings.xml
    Dangling(String),
    /// not a text cell (number, bool, error, empty): raw <v>
    Other(String),
}

#[derive(Clone, Debug, Default)]
pub struct Content {
    pub has_sst: bool,
    pub sst: Vec<String>,
    pub sst_raw: Vec<u8>,
    /// (count, uniqueCount) attributes of <sst>
    pub sst_counts: (Option<String>, Option<String>),
    pub inline: Vec<String>,
    /// t="str" cell values (formula string results); not produced by the alphabet, kept for completeness
    pub str_values: Vec<String>,
    /// sheet name -> (col,row) -> cell
    pub sheets: Vec<(String, BTreeMap<(u32, u32), CellTxt>)>,
    /// (part name, token) for every marker-prefixed token found outside sharedStrings.xml and the sheet parts
    pub elsewhere: Vec<(String, String)>,
    pub parts: Vec<String>,
}

impl Content {
    /// canonical rendering of the string content (law save-twice; observation hash)
    pub fn canon(&self) -> String {
        let mut s = String::new();
        let mut a = self.sst.clone();
        a.sort();
        s.push_str(&format!("sst={:?};inline={:?};str={:?};", a, self.inline, self.str_values));
        for (n, m) in &self.sheets {
            s.push_str(&format!("{}={:?};", n, m));
        }
        s.push_str(&format!("else={:?}", self.elsewhere));
        s
    }
}

fn attr(e: &quick_xml::events::BytesStart, key: &[u8]) -> Option<String> {
    for a in e.attributes().with_checks(false).flatten() {
        if a.key.as_ref() == key {
            return a.unescape_value().ok().map(|c| c.to_string());
        }
    }
    None
}

pub fn parse_sst(xml: &[u8]) -> Result<(Vec<String>, (Option<String>, Option<String>)), String> {
    let mut rd = Reader::from_reader(xml);
    rd.config_mut().trim_text(false);
    let mut out = vec![];
    let mut counts = (None, None);
    let mut in_si = false;
    let mut in_t = false;
    let mut in_rph = 0u32;
    let mut cur = String::new();
    loop {
        match rd.read_event() {
            Err(e) => return Err(format!("sharedStrings.xml not well-formed: {:?}", e)),
            Ok(Event::Eof) => break,
            Ok(Event::Start(e)) => match e.name().as_ref() {
                b"sst" => counts = (attr(&e, b"count"), attr(&e, b"uniqueCount")),
                b"si" => {
                    in_si = true;
                    cur.clear();
                }
                b"rPh" => in_rph += 1,
                b"t" => in_t = in_si && in_rph == 0,
                _ => {}
            },
            Ok(Event::Empty(e)) => {
                if e.name().as_ref() == b"si" {
                    out.push(String::new());
                }
            }
            Ok(Event::End(e)) => match e.name().as_ref() {
                b"si" => {
                    in_si = false;
                    out.push(cur.clone());
                }
                b"rPh" => in_rph = in_rph.saturating_sub(1),
                b"t" => in_t = false,
                _ => {}
            },
            Ok(Event::Text(t)) => {
                if in_t {
                    match t.unescape() {
                        Ok(c) => cur.push_str(&c),
                        Err(e) => return Err(format!("sharedStrings.xml bad entity: {:?}", e)),
                    }
                }
            }
            Ok(Event::CData(t)) => {
                if in_t {
                    cur.push_str(&String::from_utf8_lossy(&t.into_inner()));
                }
            }
            _ => {}
        }
    }
    Ok((out, counts))
}

/// "A1" / "$AB$12" -> (col,row)
pub fn parse_ref(r: &str) -> Option<(u32, u32)> {
    let mut col = 0u32;
    let mut row = 0u32;
    let mut seen_digit = false;
    for ch in r.chars() {
        match ch {
            '$' => {}
            'A'..='Z' if !seen_digit => col = col.checked_mul(26)?.checked_add(ch as u32 - 'A' as u32 + 1)?,
            '0'..='9' => {
                seen_digit = true;
                row = row.checked_mul(10)?.checked_add(ch as u32 - '0' as u32)?;
            }
            _ => return None,
        }
    }
    if col == 0 || row == 0 {
        None
    } else {
        Some((col, row))
    }
}

pub fn parse_sheet(xml: &[u8], sst: &[String], inline: &mut Vec<String>, strv: &mut Vec<String>) -> Result<BTreeMap<(u32, u32), CellTxt>, String> {
    let mut rd = Reader::from_reader(xml);
    rd.config_mut().trim_text(false);
    let mut cells = BTreeMap::new();
    let mut cur: Option<((u32, u32), String)> = None; // coordinate, type
    let mut in_v = false;
    let mut in_is = false;
    let mut in_t = false;
    let mut in_rph = 0u32;
    let mut v = String::new();
    let mut is = String::new();
    let mut has_v = false;
    let mut has_is = false;
    loop {
        match rd.read_event() {
            Err(e) => return Err(format!("sheet part not well-formed: {:?}", e)),
            Ok(Event::Eof) => break,
            Ok(Event::Start(e)) => match e.name().as_ref() {
                b"c" => {
                    let r = attr(&e, b"r").unwrap_or_default();
                    let t = attr(&e, b"t").unwrap_or_default();
                    let co = parse_ref(&r).ok_or_else(|| format!("cell reference {:?} unparseable", r))?;
                    cur = Some((co, t));
                    v.clear();
                    is.clear();
                    has_v = false;
                    has_is = false;
                }
                b"v" => {
                    in_v = cur.is_some();
                    has_v = true;
                }
                b"is" => {
                    in_is = cur.is_some();
                    has_is = true;
                }
                b"rPh" => in_rph += 1,
                b"t" => in_t = in_is && in_rph == 0,
                _ => {}
            },
            Ok(Event::Empty(_)) => {}
            Ok(Event::End(e)) => match e.name().as_ref() {
                b"c" => {
                    if let Some((co, t)) = cur.take() {
                        let cell = match t.as_str() {
                            "s" => match v.trim().parse::<usize>().ok().and_then(|i| sst.get(i)) {
                                Some(s) => CellTxt::Text(s.clone()),
                                None => CellTxt::Dangling(v.clone()),
                            },
                            "inlineStr" => {
                                inline.push(is.clone());
                                CellTxt::Text(is.clone())
                            }
                            "str" => {
                                strv.push(v.clone());
                                CellTxt::Text(v.clone())
                            }
                            _ => {
                                if has_is && !has_v {
                                    inline.push(is.clone());
                                    CellTxt::Text(is.clone())
                                } else {
                                    CellTxt::Other(v.clone())
                                }
                            }
                        };
                        cells.insert(co, cell);
                    }
                }
                b"v" => in_v = false,
                b"is" => in_is = false,
                b"rPh" => in_rph = in_rph.saturating_sub(1),
                b"t" => in_t = false,
                _ => {}
            },
            Ok(Event::Text(t)) => {
                if in_v || in_t {
                    let c = t.unescape().map_err(|e| format!("sheet part bad entity: {:?}", e))?;
                    if in_v {
                        v.push_str(&c);
                    } else {
                        is.push_str(&c);
                    }
                }
            }
            Ok(Event::CData(t)) => {
                let c = String::from_utf8_lossy(&t.into_inner()).to_string();
                if in_v {
                    v.push_str(&c);
                } else if in_t {
                    is.push_str(&c);
                }
            }
            _ => {}
        }
    }
    Ok(cells)
}

/// (name, r:id) of every <sheet> of xl/workbook.xml, in document order
fn parse_workbook(xml: &[u8]) -> Result<Vec<(String, String)>, String> {
    let mut rd = Reader::from_reader(xml);
    let mut out = vec![];
    loop {
        match rd.read_event() {
            Err(e) => return Err(format!("workbook.xml not well-formed: {:?}", e)),
            Ok(Event::Eof) => break,
            Ok(Event::Start(e)) | Ok(Event::Empty(e)) => {
                if e.name().as_ref() == b"sheet" {
                    out.push((attr(&e, b"name").unwrap_or_default(), attr(&e, b"r:id").unwrap_or_default()));
                }
            }
            _ => {}
        }
    }
    Ok(out)
}

fn parse_rels(xml: &[u8]) -> Result<BTreeMap<String, String>, String> {
    let mut rd = Reader::from_reader(xml);
    let mut out = BTreeMap::new();
    loop {
        match rd.read_event() {
            Err(e) => return Err(format!("workbook.xml.rels not well-formed: {:?}", e)),
            Ok(Event::Eof) => break,
            Ok(Event::Start(e)) | Ok(Event::Empty(e)) => {
                if e.name().as_ref() == b"Relationship" {
                    out.insert(attr(&e, b"Id").unwrap_or_default(), attr(&e, b"Target").unwrap_or_default());
                }
            }
            _ => {}
        }
    }
    Ok(out)
}

fn find_tokens(data: &[u8], prefix: &[u8]) -> Vec<String> {
    let mut out = vec![];
    if prefix.is_empty() || data.len() < prefix.len() {
        return out;
    }
    let mut i = 0;
    while i + prefix.len() <= data.len() {
        if &data[i..i + prefix.len()] == prefix {
            let mut j = i + prefix.len();
            while j < data.len() && (data[j].is_ascii_alphanumeric() || data[j] == b'_') {
                j += 1;
            }
            out.push(String::from_utf8_lossy(&data[i..j]).to_string());
            i = j;
        } else {
            i += 1;
        }
    }
    out
}

pub fn decode(bytes: &[u8], marker_prefix: &str) -> Result<Content, String> {
    let mut zip = zip::ZipArchive::new(std::io::Cursor::new(bytes)).map_err(|e| format!("package is not a zip archive: {:?}", e))?;
    let mut parts: BTreeMap<String, Vec<u8>> = BTreeMap::new();
    let mut names = vec![];
    for i in 0..zip.len() {
        let mut f = zip.by_index(i).map_err(|e| format!("zip entry {}: {:?}", i, e))?;
        let name = f.name().to_string();
        let mut data = vec![];
        f.read_to_end(&mut data).map_err(|e| format!("zip entry {}: {:?}", name, e))?;
        if parts.insert(name.clone(), data).is_some() {
            return Err(format!("duplicate part {}", name));
        }
        names.push(name);
    }
    let mut c = Content { parts: names, ..Default::default() };
    if let Some(x) = parts.get("xl/sharedStrings.xml") {
        c.has_sst = true;
        c.sst_raw = x.clone();
        let (v, counts) = parse_sst(x)?;
        c.sst = v;
        c.sst_counts = counts;
    }
    let wb = parts.get("xl/workbook.xml").ok_or("xl/workbook.xml missing")?;
    let rels = parse_rels(parts.get("xl/_rels/workbook.xml.rels").ok_or("xl/_rels/workbook.xml.rels missing")?)?;
    let mut sheet_parts = vec![];
    for (name, rid) in parse_workbook(wb)? {
        let target = rels.get(&rid).ok_or_else(|| format!("sheet {:?}: relationship {:?} missing", name, rid))?;
        let path = if let Some(t) = target.strip_prefix('/') { t.to_string() } else { format!("xl/{}", target) };
        let data = parts.get(&path).ok_or_else(|| format!("sheet {:?}: part {} missing", name, path))?;
        let cells = parse_sheet(data, &c.sst, &mut c.inline, &mut c.str_values)?;
        c.sheets.push((name, cells));
        sheet_parts.push(path);
    }
    for (name, data) in &parts {
        if name == "xl/sharedStrings.xml" || sheet_parts.contains(name) {
            continue;
        }
        for t in find_tokens(data, marker_prefix.as_bytes()) {
            c.elsewhere.push((name.clone(), t));
        }
    }
    Ok(c)
}
