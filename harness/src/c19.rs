//! C19 — formatted values show the correctly rounded number.
//!
//! Spaces
//!   grid      every +-d.ddd x 10^e (<=3 / <=4 significant digits) x 14 fixed-decimal / percentage patterns,
//!             plus General for every value; one pool case per mantissa
//!   families  carry / tie / leading-zero families up to 15 significant digits x patterns
//!   text      General with text cells
//!   builtin   every built-in format id 0..49 x a value alphabet (no-panic clause)
//! Oracle: c19_ref (exact decimal strings, round half away from zero).
#[path = "c19_ref.rs"]
mod c19_ref;
use self::c19_ref::*;
use crate::common::*;
use crate::e1::*;
use crate::pool::*;
use serde_json::{json, Value};
use umya_spreadsheet::helper::number_format::to_formatted_string;

pub fn entry() -> crate::Entry {
    crate::Entry { id: "C19", run, space, replay }
}

const E_MIN: i32 = -7;
const E_MAX: i32 = 15;

fn guarded<T, F: FnOnce() -> T + std::panic::UnwindSafe>(f: F) -> Result<T, String> {
    std::panic::catch_unwind(f).map_err(|e| panic_msg(&e))
}

fn via_helper(text: &str, code: &str) -> Result<String, String> {
    let (t, c) = (text.to_string(), code.to_string());
    guarded(move || to_formatted_string(&t, &c))
}
/// numeric cell with a format code through Cell::get_formatted_value and Worksheet::get_formatted_value
fn via_cell(x: f64, code: Option<&str>) -> Result<(String, String), String> {
    let c = code.map(|s| s.to_string());
    guarded(move || {
        let mut ws = umya_spreadsheet::Worksheet::default();
        {
            let cell = ws.get_cell_mut((1, 1));
            cell.set_value_number(x);
            if let Some(c) = &c {
                cell.get_style_mut().get_number_format_mut().set_format_code(c.clone());
            }
        }
        (ws.get_cell((1, 1)).unwrap().get_formatted_value(), ws.get_formatted_value((1, 1)))
    })
}

fn mag_tag(v: &Val) -> &'static str {
    if v.is_zero() {
        return "mag:zero";
    }
    let int_digits = v.m.len() as i32 + v.k;
    if int_digits <= 0 {
        "mag:<1"
    } else if int_digits <= 3 {
        "mag:1-3-int-digits"
    } else {
        "mag:>=4-int-digits"
    }
}

/// all clauses for one value (General + every pattern).  `cell_pat` selects the pattern that is also
/// observed through Cell / Worksheet.
fn check_value(sink: &mut Sink, v: &Val, cell_pat: usize) {
    let text = v.text();
    let x: f64 = match text.parse() {
        Ok(x) => x,
        Err(_) => panic!("harness built an unparsable number {:?}", text),
    };
    if x.to_string() != text {
        // not the shortest representation of its double: outside the stated domain
        sink.count("skipped_noncanonical", 1);
        return;
    }
    let neg_tag = if v.neg { "negative" } else { "non-negative" };
    let mag = mag_tag(v);
    // ---- General: numbers are shown unchanged
    sink.evaluations += 1;
    let gtags = ["general", neg_tag, mag];
    let gcase = json!({"value": text, "pattern": "General"});
    match via_helper(&text, "General") {
        Err(m) => sink.violations.push(Violation::new("general-number", &format!("panic:{}", panic_class(&m)), &gtags, gcase.clone(), m)),
        Ok(got) => {
            if got != text {
                let sym = if got.parse::<f64>().ok() == Some(x) { "same-number-other-text" } else { "number-changed" };
                sink.violations.push(Violation::new("general-number", sym, &gtags, gcase.clone(), format!("to_formatted_string({:?}, General) = {:?}", text, got)));
            }
        }
    }
    match via_cell(x, None) {
        Err(m) => sink.violations.push(Violation::new("general-number", &format!("panic:{}", panic_class(&m)), &gtags, gcase.clone(), m)),
        Ok((a, b)) => {
            if a != text || b != text {
                let sym = if a.parse::<f64>().ok() == Some(x) && b == a { "same-number-other-text" } else { "number-changed" };
                sink.violations.push(Violation::new("general-number", sym, &gtags, gcase.clone(), format!("numeric cell {} without number format: Cell::get_formatted_value={:?} Worksheet::get_formatted_value={:?}", text, a, b)));
            }
        }
    }
    // ---- fixed-decimal and percentage patterns
    for (pi, pat) in PATTERNS.iter().enumerate() {
        sink.evaluations += 1;
        let w = reference(v, pat);
        let fmul_below = if pat.pct && pat.d == 0 && w.tie {
            // is the double product 100*x below the exact tie q+0.5 ?  (q+0.5 is exact in f64 for q < 2^52)
            let q: f64 = w.trunc_int.parse().unwrap();
            (100f64 * x).abs() < q + 0.5
        } else {
            false
        };
        let mut shape = shape_tag(v, pat, fmul_below);
        if shape == "pct:scaled-integer" {
            // is the exact decimal product x*100 a double at all?
            let n: u128 = w.int.parse().unwrap();
            if (n as f64) as u128 != n {
                shape = "pct:scaled-integer:not-a-double";
            }
        }
        let ptag = format!("pat:{}", pat.code);
        let tags = [shape, ptag.as_str(), neg_tag, mag];
        let clause = if pat.pct { "percentage" } else { "fixed-decimal" };
        sink.count(&format!("shape {}", shape), 1);
        let judge = |got: Result<String, String>, via: &str, sink: &mut Sink| {
            let case = json!({"value": text, "pattern": pat.code, "via": via});
            match got {
                Err(m) => {
                    sink.count(&format!("bad {} | panic | {}", clause, shape), 1);
                    sink.violations.push(Violation::new(clause, &format!("panic:{}", panic_class(&m)), &tags, case, format!("{} @ {:?} panicked: {} (expected {:?})", text, pat.code, m, w.text)))
                }
                Ok(got) => {
                    sink.obs(&got);
                    if let Some(sym) = symptom(&got, v, pat, &w) {
                        sink.count(&format!("bad {} | {} | {}", clause, sym, shape), 1);
                        if let Ok(f) = std::env::var("UV_C19_PRINT") {
                            if format!("{} | {} | {}", clause, sym, shape).contains(&f) {
                                eprintln!("PRINT {} @ {:?} via {} -> {:?}, want {:?} [{}|{}]", text, pat.code, via, got, w.text, sym, shape);
                            }
                        }
                        sink.violations.push(Violation::new(clause, &sym, &tags, case, format!("{} @ {:?} via {} -> {:?}, correctly rounded: {:?}", text, pat.code, via, got, w.text)));
                    }
                }
            }
        };
        judge(via_helper(&text, pat.code), "to_formatted_string", sink);
        if pi == cell_pat {
            sink.evaluations += 1;
            match via_cell(x, Some(pat.code)) {
                Err(m) => judge(Err(m), "Cell::get_formatted_value", sink),
                Ok((a, b)) => {
                    if a != b {
                        sink.violations.push(Violation::new(clause, "entry-points-disagree", &tags, json!({"value": text, "pattern": pat.code}), format!("Cell::get_formatted_value={:?} Worksheet::get_formatted_value={:?}", a, b)));
                    }
                    judge(Ok(a), "Cell::get_formatted_value", sink);
                }
            }
        }
    }
}

// ------------------------------------------------------------------------------------------------
struct Grid {
    /// (mantissa digits, exponents e of d.ddd x 10^e)
    cases: Vec<(String, Vec<i32>)>,
}
fn grid(tier: Tier) -> Grid {
    let max = if tier == Tier::Thorough { 9999 } else { 999 };
    let mut cases = vec![];
    for m in 1..=max {
        if m % 10 == 0 {
            continue;
        }
        let es: Vec<i32> = if tier == Tier::Thorough || m < 100 { (E_MIN..=E_MAX).collect() } else { (-3..=3).collect() };
        cases.push((m.to_string(), es));
    }
    Grid { cases }
}
impl Space for Grid {
    fn len(&self) -> u64 {
        self.cases.len() as u64
    }
    fn describe(&self, i: u64) -> Value {
        let (m, es) = &self.cases[i as usize];
        json!({"kind":"mantissa","digits": m, "exponents": [es[0], es[es.len()-1]], "signs": "+-", "patterns": PATTERNS.len()})
    }
    fn run(&self, i: u64, sink: &mut Sink) {
        let (m, es) = &self.cases[i as usize];
        let mi: usize = m.parse().unwrap();
        for &e in es {
            for neg in [false, true] {
                // d.ddd x 10^e  ==  M x 10^(e - (len-1))
                let v = Val::new(neg, m, e - (m.len() as i32 - 1));
                sink.beat.note(&v.text());
                check_value(sink, &v, (mi + (e - E_MIN) as usize + neg as usize * 7) % PATTERNS.len());
            }
        }
    }
}

// ------------------------------------------------------------------------------------------------
fn families() -> Vec<Val> {
    let mut out: Vec<Val> = vec![Val::new(false, "0", 0)];
    // 9.99..9 with the point at every position (and up to three zeros after the point)
    for n in 1..=15usize {
        for p in -3..=(n as i32) {
            out.push(Val::new(false, &"9".repeat(n), p - n as i32));
        }
    }
    // 0.00..05 and 1.00..05
    for j in 1..=8 {
        out.push(Val::new(false, "5", -j));
    }
    for j in 1..=14usize {
        out.push(Val::new(false, &format!("1{}5", "0".repeat(j - 1)), -(j as i32)));
    }
    // x . prefix(d) tail : ties and their neighbours at every rounding position 0..6
    for x in ["0", "1", "9", "99", "1234"] {
        for d in 0..=6usize {
            let mut prefixes: Vec<String> = vec!["0".repeat(d), "1234567"[..d].to_string(), "9".repeat(d)];
            if d >= 2 {
                prefixes.push(format!("0{}", "9".repeat(d - 1)));
                prefixes.push(format!("{}1", "0".repeat(d - 1)));
                prefixes.push(format!("{}9", "0".repeat(d - 1)));
            }
            prefixes.dedup();
            for p in &prefixes {
                let used = x.trim_start_matches('0').len() + d;
                let room = 15usize.saturating_sub(used);
                let mut tails: Vec<String> = vec!["5".into(), "4".into(), "6".into(), "9".into(), "49".into(), "4999".into(), "5001".into(), "51".into()];
                if room >= 6 {
                    tails.push(format!("4{}", "9".repeat(room - 1)));
                    tails.push(format!("5{}1", "0".repeat(room - 2)));
                }
                for t in &tails {
                    let digits = format!("{}{}{}", x, p, t);
                    out.push(Val::new(false, &digits, -((p.len() + t.len()) as i32)));
                }
            }
        }
    }
    let mut seen = std::collections::HashSet::new();
    out.retain(|v| seen.insert(v.clone()));
    out
}
const FAM_PER_CASE: usize = 4;
struct Families {
    vals: Vec<Val>,
}

/// Before the values of a case are judged the library is driven through values that are NOT positional decimals (and
/// whose own rendering the statement does not pin down): whatever they leave behind - a scratch buffer, a cache entry -
/// must not change how the numbers that follow are shown.
fn prelude() {
    const ODD: [&str; 6] = ["NaN", "inf", "-inf", "", "abc", "1e999"];
    const CODES: [&str; 4] = ["0.0%", "0%", "0.00", "#,##0.0"];
    for c in CODES {
        for v in ODD {
            let _ = via_helper(v, c);
        }
        let _ = via_cell(f64::NAN, Some(c));
        let _ = via_cell(f64::INFINITY, Some(c));
    }
}
impl Space for Families {
    fn len(&self) -> u64 {
        ((self.vals.len() + FAM_PER_CASE - 1) / FAM_PER_CASE) as u64
    }
    fn describe(&self, i: u64) -> Value {
        let lo = i as usize * FAM_PER_CASE;
        let hi = (lo + FAM_PER_CASE).min(self.vals.len());
        json!({"kind":"family-values","values": self.vals[lo..hi].iter().map(|v| v.text()).collect::<Vec<_>>(), "signs": "+-"})
    }
    fn run(&self, i: u64, sink: &mut Sink) {
        let lo = i as usize * FAM_PER_CASE;
        let hi = (lo + FAM_PER_CASE).min(self.vals.len());
        prelude();
        for (j, v) in self.vals[lo..hi].iter().enumerate() {
            for neg in [false, true] {
                if neg && v.is_zero() {
                    continue;
                }
                let mut v = v.clone();
                v.neg = neg;
                sink.beat.note(&v.text());
                check_value(sink, &v, (lo + j + neg as usize * 5) % PATTERNS.len());
            }
        }
    }
}

// ------------------------------------------------------------------------------------------------
const PLAIN_TEXTS: [&str; 20] = ["a", "abc", "Hello, world", " a ", "a\nb", "\u{e9}\u{540d}", "1,5", "12abc", "1.2.3", "--1", "$5", "50%", "1 000", "TRUE", "#N/A", "'1", "0x10", "\u{ff11}\u{ff12}", "1_000", " 5"];
const NUMERIC_LOOKING_TEXTS: [&str; 12] = ["007", "1.50", "1e3", "+5", ".5", "5.", "1E2", "00", "-0", "1e-3", "0.10", "100000000000000000000"];
struct Texts;
impl Space for Texts {
    fn len(&self) -> u64 {
        (PLAIN_TEXTS.len() + NUMERIC_LOOKING_TEXTS.len()) as u64
    }
    fn describe(&self, i: u64) -> Value {
        let i = i as usize;
        let t = if i < PLAIN_TEXTS.len() { PLAIN_TEXTS[i] } else { NUMERIC_LOOKING_TEXTS[i - PLAIN_TEXTS.len()] };
        json!({"kind":"text-cell","text": t, "format": "General"})
    }
    fn tags(&self, i: u64) -> Vec<String> {
        vec![if (i as usize) < PLAIN_TEXTS.len() { "text:plain".to_string() } else { "text:numeric-looking".to_string() }]
    }
    fn run(&self, i: u64, sink: &mut Sink) {
        let i = i as usize;
        let plain = i < PLAIN_TEXTS.len();
        let t = if plain { PLAIN_TEXTS[i] } else { NUMERIC_LOOKING_TEXTS[i - PLAIN_TEXTS.len()] };
        let tag = if plain { "text:plain" } else { "text:numeric-looking" };
        let case = self.describe(i as u64);
        let judge = |got: Result<String, String>, via: &str, sink: &mut Sink| {
            sink.evaluations += 1;
            match got {
                Err(m) => sink.violations.push(Violation::new("general-text", &format!("panic:{}", panic_class(&m)), &[tag], case.clone(), m)),
                Ok(got) => {
                    sink.obs(&got);
                    if got != t {
                        let sym = if got.parse::<f64>().is_ok() && got.parse::<f64>().ok() == t.parse::<f64>().ok() { "text-reformatted-as-number" } else { "text-changed" };
                        sink.violations.push(Violation::new("general-text", sym, &[tag], case.clone(), format!("text {:?} with General via {} is shown as {:?}", t, via, got)));
                    }
                }
            }
        };
        // text cell, no number format (General is the default)
        let tt = t.to_string();
        judge(
            guarded(move || {
                let mut ws = umya_spreadsheet::Worksheet::default();
                ws.get_cell_mut((1, 1)).set_value_string(tt);
                ws.get_formatted_value((1, 1))
            }),
            "text cell (set_value_string), default format",
            sink,
        );
        // text cell, explicit General
        let tt = t.to_string();
        judge(
            guarded(move || {
                let mut ws = umya_spreadsheet::Worksheet::default();
                let c = ws.get_cell_mut((1, 1));
                c.set_value_string(tt);
                c.get_style_mut().get_number_format_mut().set_format_code("General");
                c.get_formatted_value()
            }),
            "text cell (set_value_string), format General",
            sink,
        );
        // the text is the cached result of a formula (value first, then the formula: the value setters drop a formula)
        let tt = t.to_string();
        judge(
            guarded(move || {
                let mut ws = umya_spreadsheet::Worksheet::default();
                let c = ws.get_cell_mut((1, 1));
                c.set_value_string(tt);
                c.set_formula("B1&\"\"");
                ws.get_formatted_value((1, 1))
            }),
            "text result of a formula (set_value_string, then set_formula), default format",
            sink,
        );
        // both kinds of text cell as the READER leaves them (shared string; t=\"str\" with a formula)
        let tt = t.to_string();
        let loaded = guarded(move || {
            let mut book = umya_spreadsheet::new_file();
            let ws = book.get_sheet_mut(&0).unwrap();
            ws.get_cell_mut((1, 1)).set_value_string(tt.clone());
            let c = ws.get_cell_mut((1, 2));
            c.set_value_string(tt);
            c.set_formula("B1&\"\"");
            let mut buf = std::io::Cursor::new(Vec::new());
            umya_spreadsheet::writer::xlsx::write_writer(&book, &mut buf).map_err(|e| format!("{:?}", e))?;
            let b2 = umya_spreadsheet::reader::xlsx::read_reader(std::io::Cursor::new(buf.into_inner()), true).map_err(|e| format!("{:?}", e))?;
            let ws2 = b2.get_sheet(&0).unwrap();
            Ok::<_, String>((ws2.get_formatted_value((1, 1)), ws2.get_formatted_value((1, 2))))
        });
        match loaded {
            Ok(Ok((a, b))) => {
                judge(Ok(a), "text cell after save + reload", sink);
                judge(Ok(b), "text result of a formula after save + reload", sink);
            }
            Ok(Err(_)) => sink.count("text_workbook_did_not_round_trip", 1),
            Err(m) => judge(Err(m), "text cells after save + reload", sink),
        }
        if plain {
            // the helper cannot tell text from numbers, so only texts that are not numerals are passed
            judge(via_helper(t, "General"), "to_formatted_string", sink);
        }
    }
}

// ------------------------------------------------------------------------------------------------
/// Excel's codes of the built-in ids that the library's table does not define (used through set_format_code)
const FALLBACK_CODES: [(u32, &str); 7] = [
    (5, r##""$"#,##0_);\("$"#,##0\)"##),
    (6, r##""$"#,##0_);[Red]\("$"#,##0\)"##),
    (7, r##""$"#,##0.00_);\("$"#,##0.00\)"##),
    (8, r##""$"#,##0.00_);[Red]\("$"#,##0.00\)"##),
    (41, r##"_(* #,##0_);_(* \(#,##0\);_(* "-"_);_(@_)"##),
    (42, r##"_("$"* #,##0_);_("$"* \(#,##0\);_("$"* "-"_);_(@_)"##),
    (43, r##"_(* #,##0.00_);_(* \(#,##0.00\);_(* "-"??_);_(@_)"##),
];
fn value_alphabet() -> Vec<f64> {
    vec![
        0.0, -0.0, 1.0, -1.0, 59.0, 60.0, 61.0, 1000.0, 45435.0, 0.5, -0.5, 0.1, 0.05, 0.005, 0.125, 0.999, 0.9999999, 0.333333333333333, 1.5, 2.5, 9.5, 99.5,
        999.5, 1234.5678, -1234.5678, 44349.211134259262, 2958465.99999, 2958466.0, 1e7, -1e7, 123456789.0, 2147483647.0, 2147483648.0, 4294967296.0, 1e10, -1e10,
        1e15, 1e16, 1e20, 1e21, 1e100, 1e300, f64::MAX, -f64::MAX, 1e-5, 1e-7, 1e-10, 1e-100, f64::MIN_POSITIVE, 5e-324, -1e-7,
    ]
}
/// magnitude class of a value with respect to the calendar (serial of 9999-12-31 is 2958465; chrono's
/// NaiveDate ends in year 262142, i.e. near serial 9.5e7)
fn value_class(x: f64) -> &'static str {
    let a = x.abs();
    if a == 0.0 {
        "val:zero"
    } else if a < 1.0 {
        "val:|x|<1"
    } else if a < 2958466.0 {
        "val:calendar-range"
    } else if a < 9.0e7 {
        "val:beyond-year-9999"
    } else {
        "val:beyond-year-262142"
    }
}
fn code_kind(code: &str) -> &'static str {
    // classification by the harness's own reading of the code (outside quotes / brackets)
    let mut bare = String::new();
    let (mut q, mut b) = (false, false);
    let mut prev_bs = false;
    for c in code.chars() {
        if prev_bs {
            prev_bs = false;
            continue;
        }
        match c {
            '\\' => prev_bs = true,
            '"' => q = !q,
            '[' if !q => b = true,
            ']' if !q => b = false,
            _ if !q && !b => bare.push(c.to_ascii_lowercase()),
            _ => {}
        }
    }
    if code == "General" {
        "fmt:general"
    } else if code == "@" {
        "fmt:text"
    } else if bare.chars().any(|c| "ymdhs".contains(c)) || code.contains("[h]") {
        "fmt:date-time"
    } else if bare.contains('%') {
        "fmt:percent"
    } else if bare.contains('/') {
        "fmt:fraction"
    } else if bare.contains("e+") || bare.contains("e-") {
        "fmt:scientific"
    } else if bare.contains(';') {
        "fmt:multi-section"
    } else {
        "fmt:number"
    }
}
struct Builtin;
impl Space for Builtin {
    fn len(&self) -> u64 {
        50
    }
    fn describe(&self, i: u64) -> Value {
        json!({"kind":"builtin-id","id": i, "values": value_alphabet().len()})
    }
    fn tags(&self, i: u64) -> Vec<String> {
        vec![format!("id:{}", i)]
    }
    fn run(&self, i: u64, sink: &mut Sink) {
        let id = i as u32;
        // the code the library associates with the id
        let code = guarded(move || {
            let mut nf = umya_spreadsheet::NumberingFormat::default();
            nf.set_number_format_id(id);
            nf.get_format_code().to_string()
        });
        let (code, by_id) = match code {
            Ok(c) => (c, true),
            Err(_) => match FALLBACK_CODES.iter().find(|(k, _)| *k == id) {
                Some((_, c)) => {
                    sink.count("ids_without_library_code_checked_through_excel_code", 1);
                    (c.to_string(), false)
                }
                None => {
                    sink.count("ids_without_any_code_skipped", 1);
                    return;
                }
            },
        };
        let kind = code_kind(&code);
        let idtag = format!("id:{}", id);
        for x in value_alphabet() {
            let vtag = value_class(x);
            let sign = if x.is_sign_negative() { "negative" } else { "non-negative" };
            sink.evaluations += 1;
            let case = json!({"kind":"builtin","id": id, "code": code, "value": x.to_string()});
            let combo = format!("{}+{}", kind, vtag);
            let tags = [combo.as_str(), kind, vtag, sign, idtag.as_str()];
            sink.beat.note(&format!("id {} code {} value {}", id, code, x));
            let c2 = code.clone();
            let r = guarded(move || {
                let mut ws = umya_spreadsheet::Worksheet::default();
                let cell = ws.get_cell_mut((1, 1));
                cell.set_value_number(x);
                if by_id {
                    cell.get_style_mut().get_number_format_mut().set_number_format_id(id);
                } else {
                    cell.get_style_mut().get_number_format_mut().set_format_code(c2);
                }
                cell.get_formatted_value()
            });
            match r {
                Err(m) => sink.violations.push(Violation::new("no-panic", &format!("panic:{}", panic_class(&m)), &tags, case.clone(), format!("Cell::get_formatted_value panicked for value {} with built-in format {} ({:?}): {}", x, id, code, m))),
                Ok(s) => sink.obs(&format!("{}|{}", id, s)),
            }
            let r2 = via_helper(&x.to_string(), &code);
            if let Err(m) = r2 {
                sink.violations.push(Violation::new("no-panic", &format!("panic:{}", panic_class(&m)), &tags, case, format!("to_formatted_string({:?}, {:?}) panicked: {}", x.to_string(), code, m)));
            }
        }
    }
}

// ------------------------------------------------------------------------------------------------
pub fn space(tier: Tier, id: &str) -> Option<Box<dyn Space>> {
    if let Some(r) = reversed_of(id, |base| space(tier, base)) {
        return r;
    }
    if let Some(r) = concurrent_of(id, |base| space(tier, base)) {
        return r;
    }
    match id {
        "grid" => Some(Box::new(grid(tier))),
        "families" => Some(Box::new(Families { vals: families() })),
        "text" => Some(Box::new(Texts)),
        "builtin" => Some(Box::new(Builtin)),
        _ => None,
    }
}

fn replay(tier: Tier, case: &Value) -> Vec<Violation> {
    replay_e1(space(tier, case["_space"].as_str().unwrap_or("")), case)
}

fn run(ctx: &Ctx) -> i32 {
    if let Ok(path) = std::env::var("UV_C19_DUMP") {
        // reference dump for the external cross-check (tools/c19_crosscheck.py): value <TAB> pattern <TAB> expected
        let mut out = String::new();
        let mut vals = families();
        for (m, es) in grid(Tier::Quick).cases {
            for e in es {
                vals.push(Val::new(false, &m, e - (m.len() as i32 - 1)));
            }
        }
        for v in vals {
            for neg in [false, true] {
                let mut v = v.clone();
                v.neg = neg;
                for p in PATTERNS.iter() {
                    let w = reference(&v, p);
                    out.push_str(&format!("{}\t{}\t{}\t{}\n", v.text(), p.code, w.text, if w.zero { 1 } else { 0 }));
                }
            }
        }
        std::fs::write(&path, out).expect("dump");
        println!("reference dump written to {}", path);
        return 0;
    }
    let ids: Vec<&'static str> = if ctx.tier == Tier::Thorough { vec!["text", "builtin", "families", "grid", "text~rev", "builtin~rev", "families~rev", "grid~rev", "text~par", "builtin~par", "families~par"] } else { vec!["text", "builtin", "families", "grid", "text~rev", "builtin~rev", "families~rev", "text~par", "builtin~par", "families~par"] };
    let spaces = ids.iter().map(|id| (*id, space(ctx.tier, id).unwrap())).collect();
    let thorough = ctx.tier == Tier::Thorough;
    let g = grid(ctx.tier);
    let nvals: usize = g.cases.iter().map(|(_, es)| es.len() * 2).sum();
    run_e1(
        ctx,
        E1Spec {
            spaces,
            cfg: PoolCfg { chunk: 2, case_timeout: std::time::Duration::from_secs(60), ..Default::default() },
            level: "exploration",
            rule: "bounded-exhaustive enumeration of decimal values built from their decimal STRING (the f64 is the double whose shortest representation is that string; values whose Display differs from the string are skipped and counted): every mantissa with <=3 (quick) / <=4 (thorough) significant digits x exponents x both signs, and carry/tie/leading-zero families up to 15 significant digits, each x 14 patterns (0, 0.0..0.000000, #,##0, #,##0.0..#,##0.000, 0%, 0.0%, 0.00%) through helper::number_format::to_formatted_string, and for one pattern per value (rotating) also through Cell::get_formatted_value and Worksheet::get_formatted_value. Oracle: exact decimal-string arithmetic (u128), round half away from zero at the pattern's decimals (x100 for %), carry, separators every three digits, sign kept (sign of a result that rounds to zero is not compared). General: every grid/family value must be shown as its own text (helper and numeric cell); text cells must be shown unchanged. No-panic: every built-in id 0..49 that has a code x 51 finite values through Cell::get_formatted_value and to_formatted_string. distinct_nontrivial = distinct rendered strings".into(),
            alphabets: json!({
                "mantissas": g.cases.len(), "grid_values": nvals, "patterns": PATTERNS.iter().map(|p| p.code).collect::<Vec<_>>(),
                "family_values_per_sign": families().len(), "plain_texts": PLAIN_TEXTS, "numeric_looking_texts": NUMERIC_LOOKING_TEXTS,
                "builtin_ids": "0..=49", "builtin_value_alphabet": value_alphabet().iter().map(|x| x.to_string().chars().take(24).collect::<String>()).collect::<Vec<_>>(),
            }),
            bounds: json!({
                "significant_digits": if thorough {4} else {3},
                "exponents": if thorough {"-7..=15 for every mantissa"} else {"-7..=15 for 1-2 digit mantissas, -3..=3 for 3-digit mantissas (one formatting call costs ~0.7 ms)"},
                "family_digits_max": 15,
                "cell_entry_point": "one pattern per value (rotating with mantissa, exponent and sign) + General for every value",
            }),
            exhaustive: true,
            caps_hit: vec![],
            assumptions: vec![
                "the sign of a result whose rounded magnitude is zero (-0.004 @ 0.00) is not pinned by the statement and not compared".into(),
                "General 'unchanged' for a number means: the text shown is the number's shortest decimal text in positional notation (magnitudes 1e-7..1e16)".into(),
                "built-in ids 5-8 and 41-43 have no code in the library's table (NumberingFormat::set_number_format_id panics with 'Not Found NumberFormatId.'); they are exercised through Excel's documented codes via set_format_code; ids 23-26 have no code at all and are skipped".into(),
                "values with more than 15 significant digits are outside the statement".into(),
                "the harness is built with overflow-checks=on for /repo too: an i32 overflow inside the formatter surfaces as a panic instead of a wrapped (wrong) digit string".into(),
            ],
            min_distinct: 10_000,
        },
    )
}
